------------------------------ MODULE Scalars ------------------------------
(***************************************************************************)
(* What a piece of text is read as, and how a string is written            *)
(* (properties C01, and the scalar layer used by C05 / C20).               *)
(*                                                                         *)
(* jsonargparse writes configurations with the STOCK yaml.SafeDumper       *)
(* (_loaders_dumpers.py:208-223) and reads them back with a loader whose   *)
(* implicit resolvers were CUSTOMISED (_loaders_dumpers.py:43-82):         *)
(* timestamp removed, float replaced.  A str survives the round trip iff   *)
(* the two resolver sets agree on it.  This module transcribes both sets   *)
(* alternative by alternative, the emitter's analysis that decides whether *)
(* a plain scalar may be written, load_basic and load_value, and states    *)
(* the round-trip law.                                                     *)
(*                                                                         *)
(* TEXT is a sequence of SYMBOLS.  A symbol is a one-character string for  *)
(* printable ASCII (0x20-0x7E) and a NAME of two or more letters for       *)
(* everything else (the harness maps characters to names, alpha_char):     *)
(*   "LF" "TAB" "CR" "NUL" "NEL"(x85) "LS"(u2028) "PS"(u2029) "BOM"(uFEFF)  *)
(*   "UNI"  any other character PyYAML's emitter regards as printable      *)
(*   "UDIG" such a character for which str.isdigit() holds                 *)
(*   "USP"  such a character for which str.isspace() holds                 *)
(*   "CSP"  an ASCII control character for which str.isspace() holds       *)
(*          (x0b, x0c, x1c-x1f)                                            *)
(*   "CTL"  any other ASCII control character below x20                    *)
(*   "NPR"  any other character PyYAML regards as NOT printable: x7f, the   *)
(*          C1 controls x80-x9f (but x85), uFFFE, uFFFF, surrogates        *)
(*                                                                         *)
(* Layers:                                                                 *)
(*   Ref   StrRoundTrip, JsonStrRoundTrip, Yaml/JsonFloatRoundTrip,        *)
(*         IntRoundTrip: the laws C01 needs.                               *)
(*   Alg   Resolve / DumperTag / LoaderTag / PlainAllowed / YamlWriteStr / *)
(*         ReadPlain / LoadBasic / LoadValue, transcribed with anchors.    *)
(*   Named deviations (Deviation, JsonStrDeviation, JsonKeyDeviation,      *)
(*   JsonDeviation): the families of texts on                              *)
(*   which the pinned code is KNOWN to break the law; every other failing  *)
(*   text still violates StrRoundTripModuloKnown.                          *)
(***************************************************************************)
EXTENDS Naturals, Sequences, FiniteSets, TLC

(***************************************************************************)
(* Text helpers                                                            *)
(***************************************************************************)
\* TLC keeps a function constructor [i \in 1..n |-> e] LAZY and re-evaluates e at every application; recursive operators
\* over such sequences would cost exponentially in the nesting depth.  Strict() turns it into a concrete tuple, once.
Strict(f) == f \o << >>
Digits    == {"0", "1", "2", "3", "4", "5", "6", "7", "8", "9"}
RECURSIVE Join(_)
Join(t)   == IF t = << >> THEN "" ELSE t[1] \o Join(Tail(t))       \* symbols glued (for printing only)
Has(t, c) == \E i \in 1..Len(t) : t[i] = c
StartsWith(t, p) == Len(t) >= Len(p) /\ SubSeq(t, 1, Len(p)) = p
DropAt(t, i) == SubSeq(t, 1, i - 1) \o SubSeq(t, i + 1, Len(t))
FirstIdx(t, c) == CHOOSE i \in 1..Len(t) : t[i] = c /\ \A j \in 1..(i - 1) : t[j] # c
ReplaceFirst(t, c) == IF Has(t, c) THEN DropAt(t, FirstIdx(t, c)) ELSE t          \* str.replace(c, "", 1)
ReplaceOne(t, c, by) == IF Has(t, c) THEN LET i == FirstIdx(t, c) IN SubSeq(t, 1, i - 1) \o by \o SubSeq(t, i + 1, Len(t)) ELSE t
RECURSIVE StripL(_, _), StripR(_, _)
StripL(t, S) == IF t # << >> /\ t[1] \in S THEN StripL(Tail(t), S) ELSE t
StripR(t, S) == IF t # << >> /\ t[Len(t)] \in S THEN StripR(SubSeq(t, 1, Len(t) - 1), S) ELSE t
Lower(c) == CASE c = "E" -> "e" [] c = "I" -> "i" [] c = "N" -> "n" [] c = "F" -> "f" [] c = "A" -> "a" [] OTHER -> c

(***************************************************************************)
(* A small regular-expression engine.  Regexes are DATA, so that the       *)
(* resolver tables below are terms on which the loader's table can be      *)
(* built with the very operations of the code (remove, remove, add).       *)
(*   Ends(r, t, i) = the set of positions j such that r matches t[i..j-1]  *)
(***************************************************************************)
Cls(S)   == [k |-> "cls",  s |-> S,  a |-> << >>]
Cat(as)  == [k |-> "cat",  s |-> {}, a |-> as]
Alt(as)  == [k |-> "alt",  s |-> {}, a |-> as]
Star(r)  == [k |-> "star", s |-> {}, a |-> <<r>>]
Plus(r)  == [k |-> "plus", s |-> {}, a |-> <<r>>]
Opt(r)   == [k |-> "opt",  s |-> {}, a |-> <<r>>]
Ch(c)    == Cls({c})
Lit(t)   == Cat(Strict([i \in 1..Len(t) |-> Ch(t[i])]))          \* a literal word
Words(ws) == Alt(Strict([i \in 1..Len(ws) |-> Lit(ws[i])]))      \* w1|w2|...

RECURSIVE Ends(_, _, _), CatEnds(_, _, _, _), StarEnds(_, _, _, _)
Ends(r, t, i) ==
  CASE r.k = "cls"  -> IF i <= Len(t) /\ t[i] \in r.s THEN {i + 1} ELSE {}
    [] r.k = "cat"  -> CatEnds(r.a, 1, t, {i})
    [] r.k = "alt"  -> UNION {Ends(r.a[n], t, i) : n \in 1..Len(r.a)}
    [] r.k = "opt"  -> {i} \cup Ends(r.a[1], t, i)
    [] r.k = "star" -> StarEnds(r.a[1], t, {i}, {i})
    [] r.k = "plus" -> LET f == Ends(r.a[1], t, i) IN StarEnds(r.a[1], t, f, f)
CatEnds(as, n, t, P) == IF n > Len(as) \/ P = {} THEN P
                        ELSE CatEnds(as, n + 1, t, UNION {Ends(as[n], t, p) : p \in P})
StarEnds(r, t, frontier, acc) ==
  LET nxt == (UNION {Ends(r, t, p) : p \in frontier}) \ acc
  IN IF nxt = {} THEN acc ELSE StarEnds(r, t, nxt, acc \cup nxt)

FullMatch(r, t) == (Len(t) + 1) \in Ends(r, t, 1)
\* Python's  ^(?:...)$  with re.match: `$` also matches just before a trailing newline
MatchDollar(r, t) == FullMatch(r, t) \/ (t # << >> /\ t[Len(t)] = "LF" /\ FullMatch(r, SubSeq(t, 1, Len(t) - 1)))

(***************************************************************************)
(* Alg: the YAML 1.1 implicit resolvers of PyYAML (yaml/resolver.py:170-   *)
(* 226), one TLA+ definition per alternative of each pattern.              *)
(***************************************************************************)
D      == Cls(Digits)                                            \* [0-9]
DU     == Cls(Digits \cup {"_"})                                 \* [0-9_]
D19    == Cls(Digits \ {"0"})                                    \* [1-9]
D05    == Cls({"0", "1", "2", "3", "4", "5"})                    \* [0-5]
D07U   == Cls({"0", "1", "2", "3", "4", "5", "6", "7", "_"})     \* [0-7_]
D01U   == Cls({"0", "1", "_"})                                   \* [0-1_]
HexU   == Cls(Digits \cup {"a", "b", "c", "d", "e", "f", "A", "B", "C", "D", "E", "F", "_"})
Sign   == Cls({"-", "+"})                                        \* [-+]
OSign  == Opt(Sign)                                              \* [-+]?
EE     == Cls({"e", "E"})
SexaTail == Plus(Cat(<<Ch(":"), Opt(D05), D>>))                  \* (?::[0-5]?[0-9])+
InfWord  == Words(<< <<"i","n","f">>, <<"I","n","f">>, <<"I","N","F">> >>)
NanWord  == Words(<< <<"n","a","n">>, <<"N","a","N">>, <<"N","A","N">> >>)

\* bool  (resolver.py:170-175)
StockBool == Words(<< <<"y","e","s">>, <<"Y","e","s">>, <<"Y","E","S">>, <<"n","o">>, <<"N","o">>, <<"N","O">>,
                      <<"t","r","u","e">>, <<"T","r","u","e">>, <<"T","R","U","E">>,
                      <<"f","a","l","s","e">>, <<"F","a","l","s","e">>, <<"F","A","L","S","E">>,
                      <<"o","n">>, <<"O","n">>, <<"O","N">>, <<"o","f","f">>, <<"O","f","f">>, <<"O","F","F">> >>)
\* float (resolver.py:177-184): five alternatives
StockFloat1 == Cat(<<OSign, D, Star(DU), Ch("."), Star(DU), Opt(Cat(<<EE, Sign, Plus(D)>>))>>)   \* [-+]?(?:[0-9][0-9_]*)\.[0-9_]*(?:[eE][-+][0-9]+)?
StockFloat2 == Cat(<<Ch("."), D, Star(DU), Opt(Cat(<<EE, Sign, Plus(D)>>))>>)                    \* \.[0-9][0-9_]*(?:[eE][-+][0-9]+)?
StockFloat3 == Cat(<<OSign, D, Star(DU), SexaTail, Ch("."), Star(DU)>>)                          \* [-+]?[0-9][0-9_]*(?::[0-5]?[0-9])+\.[0-9_]*
StockFloat4 == Cat(<<OSign, Ch("."), InfWord>>)                                                  \* [-+]?\.(?:inf|Inf|INF)
StockFloat5 == Cat(<<Ch("."), NanWord>>)                                                         \* \.(?:nan|NaN|NAN)
StockFloat  == Alt(<<StockFloat1, StockFloat2, StockFloat3, StockFloat4, StockFloat5>>)
\* int   (resolver.py:186-193): five alternatives
StockInt1 == Cat(<<OSign, Ch("0"), Ch("b"), Plus(D01U)>>)                                        \* [-+]?0b[0-1_]+
StockInt2 == Cat(<<OSign, Ch("0"), Plus(D07U)>>)                                                 \* [-+]?0[0-7_]+
StockInt3 == Cat(<<OSign, Alt(<<Ch("0"), Cat(<<D19, Star(DU)>>)>>)>>)                            \* [-+]?(?:0|[1-9][0-9_]*)
StockInt4 == Cat(<<OSign, Ch("0"), Ch("x"), Plus(HexU)>>)                                        \* [-+]?0x[0-9a-fA-F_]+
StockInt5 == Cat(<<OSign, D19, Star(DU), SexaTail>>)                                             \* [-+]?[1-9][0-9_]*(?::[0-5]?[0-9])+
StockInt  == Alt(<<StockInt1, StockInt2, StockInt3, StockInt4, StockInt5>>)
\* merge, null, value, yaml (resolver.py:195-226)
StockMerge == Lit(<<"<", "<">>)
StockNull  == Alt(<<Ch("~"), Lit(<<"n","u","l","l">>), Lit(<<"N","u","l","l">>), Lit(<<"N","U","L","L">>), Cat(<< >>)>>)  \* ~|null|Null|NULL|<empty>
StockValue == Ch("=")
StockYaml  == Cls({"!", "&", "*"})
\* timestamp (resolver.py:202-210): two alternatives (re.X: blanks outside classes are not part of the pattern)
Blank  == Cls({" ", "TAB"})
StockTs1 == Cat(<<D, D, D, D, Ch("-"), D, D, Ch("-"), D, D>>)
StockTs2 == Cat(<<D, D, D, D, Ch("-"), D, Opt(D), Ch("-"), D, Opt(D),
                  Alt(<<Cls({"T", "t"}), Plus(Blank)>>), D, Opt(D), Ch(":"), D, D, Ch(":"), D, D,
                  Opt(Cat(<<Ch("."), Star(D)>>)),
                  Opt(Cat(<<Star(Blank), Alt(<<Ch("Z"), Cat(<<Sign, D, Opt(D), Opt(Cat(<<Ch(":"), D, D>>))>>)>>)>>))>>)
StockTimestamp == Alt(<<StockTs1, StockTs2>>)

\* jsonargparse's replacement float pattern (_loaders_dumpers.py:66-79): six alternatives
CustomFloat1 == Cat(<<OSign, D, Star(DU), Ch("."), Star(DU), Opt(Cat(<<EE, OSign, Plus(D)>>))>>)   \* :70  [-+]?(?:[0-9][0-9_]*)\.[0-9_]*(?:[eE][-+]?[0-9]+)?
CustomFloat2 == Cat(<<OSign, D, Star(DU), EE, OSign, Plus(D)>>)                                    \* :71  [-+]?(?:[0-9][0-9_]*)(?:[eE][-+]?[0-9]+)
CustomFloat3 == Cat(<<Ch("."), Plus(DU), Opt(Cat(<<EE, Sign, Plus(D)>>))>>)                        \* :72  \.[0-9_]+(?:[eE][-+][0-9]+)?
CustomFloat4 == StockFloat3                                                                        \* :73
CustomFloat5 == StockFloat4                                                                        \* :74
CustomFloat6 == StockFloat5                                                                        \* :75
CustomFloat  == Alt(<<CustomFloat1, CustomFloat2, CustomFloat3, CustomFloat4, CustomFloat5, CustomFloat6>>)

NumFirst == Digits \cup {"-", "+"}
\* A resolver table is a sequence of entries in REGISTRATION order; `first` = the first characters it is filed under
\* ("" stands for the empty scalar).  yaml/resolver.py:add_implicit_resolver.
Entry(tag, re, first) == [tag |-> tag, re |-> re, first |-> first]
StockResolvers == <<
  Entry("bool",      StockBool,      {"y", "Y", "n", "N", "t", "T", "f", "F", "o", "O"}),
  Entry("float",     StockFloat,     NumFirst \cup {"."}),
  Entry("int",       StockInt,       NumFirst),
  Entry("merge",     StockMerge,     {"<"}),
  Entry("null",      StockNull,      {"~", "n", "N", ""}),
  Entry("timestamp", StockTimestamp, Digits),
  Entry("value",     StockValue,     {"="}),
  Entry("yaml",      StockYaml,      {"!", "&", "*"}) >>

RemoveResolver(tbl, tag) == SelectSeq(tbl, LAMBDA e : e.tag # tag)          \* _loaders_dumpers.py:54-61
AddResolver(tbl, e)      == Append(tbl, e)                                  \* appended: tried AFTER the ones already filed
\* get_yaml_default_loader, _loaders_dumpers.py:63-79
LoaderResolvers == AddResolver(RemoveResolver(RemoveResolver(StockResolvers, "timestamp"), "float"),
                               Entry("float", CustomFloat, NumFirst \cup {"."}))

\* BaseResolver.resolve for a plain scalar (yaml/resolver.py:143-157): candidates by first character, first match wins
RECURSIVE FirstMatch(_, _, _)
FirstMatch(tbl, n, t) ==
  IF n > Len(tbl) THEN "str"
  ELSE IF (IF t = << >> THEN "" ELSE t[1]) \in tbl[n].first /\ MatchDollar(tbl[n].re, t) THEN tbl[n].tag
  ELSE FirstMatch(tbl, n + 1, t)
Resolve(tbl, t) == FirstMatch(tbl, 1, t)
\* get_yaml_default_dumper (_loaders_dumpers.py, since the repair f3cd0b1): the stock table with its float entry
\* replaced by the SAME pattern object the loader uses (yaml_float_pattern); `timestamp` stays, so date-like strings
\* are still quoted.  Before the repair yaml_dump used the stock table (yaml.safe_dump): see the two families below.
DumperResolvers == AddResolver(RemoveResolver(StockResolvers, "float"), Entry("float", CustomFloat, NumFirst \cup {"."}))
DumperTag(t) == Resolve(DumperResolvers, t)      \* what jsonargparse's dumper thinks a plain `t` would be read as
StockDumperTag(t) == Resolve(StockResolvers, t)  \* what yaml.SafeDumper thinks (the dumper of the trees before f3cd0b1)
LoaderTag(t) == Resolve(LoaderResolvers, t)      \* what jsonargparse's loader reads a plain `t` as

(***************************************************************************)
(* Alg: Emitter.analyze_scalar (yaml/emitter.py:626-784), the part that    *)
(* decides allow_block_plain; dump_yaml_kwargs has allow_unicode=True and  *)
(* default_flow_style=False, so every scalar of a non-empty collection is  *)
(* written in block context.                                               *)
(***************************************************************************)
WS      == {"NUL", " ", "TAB", "CR", "LF", "NEL", "LS", "PS"}          \* '\0 \t\r\n\x85\u2028\u2029'
Breaks  == {"LF", "NEL", "LS", "PS"}
Special == {"TAB", "CR", "NUL", "BOM", "CTL", "CSP", "NPR"}             \* neither printable ASCII, '\n', nor allowed unicode (:699-707)
LeadInd == {"#", ",", "[", "]", "{", "}", "&", "*", "!", "|", ">", "'", "\"", "%", "@", "`"}

FollowedByWS(t, i)  == i + 1 > Len(t) \/ t[i + 1] \in WS               \* :658-659, :735-736
PrecededByWS(t, i)  == i = 1 \/ t[i - 1] \in WS                        \* :655, :734
BlockIndicators(t) ==
  \/ StartsWith(t, <<"-", "-", "-">>) \/ StartsWith(t, <<".", ".", ".">>)            \* :650-652
  \/ t[1] \in LeadInd                                                             \* :674-676
  \/ (t[1] \in {"?", ":"} /\ FollowedByWS(t, 1))                                  \* :677-680
  \/ (t[1] = "-" /\ FollowedByWS(t, 1))                                           \* :681-683
  \/ \E i \in 2..Len(t) : \/ (t[i] = ":" /\ FollowedByWS(t, i))                   \* :688-691
                          \/ (t[i] = "#" /\ PrecededByWS(t, i))                   \* :692-694
LineBreaks(t)      == \E i \in 1..Len(t) : t[i] \in Breaks                         \* :697-698
SpecialChars(t)    == \E i \in 1..Len(t) : t[i] \in Special                        \* :699-707
LeadingSpace(t)    == t[1] = " "
LeadingBreak(t)    == t[1] \in Breaks
TrailingSpace(t)   == t[Len(t)] = " "
TrailingBreak(t)   == t[Len(t)] \in Breaks
BreakSpace(t)      == \E i \in 2..Len(t) : t[i] = " " /\ t[i - 1] \in Breaks       \* :715-716
SpaceBreak(t)      == \E i \in 2..Len(t) : t[i] \in Breaks /\ t[i - 1] = " "       \* :724-725
AllowBlockPlain(t) ==
  IF t = << >> THEN TRUE                                                           \* :629-633
  ELSE /\ ~(LeadingSpace(t) \/ LeadingBreak(t) \/ TrailingSpace(t) \/ TrailingBreak(t))   \* :746-748
       /\ ~BreakSpace(t)                                                           \* :756-757
       /\ ~(SpaceBreak(t) \/ SpecialChars(t))                                      \* :761-763
       /\ ~LineBreaks(t)                                                           \* :767-768
       /\ ~BlockIndicators(t)                                                      \* :775-776
PlainAllowed(t) == AllowBlockPlain(t)
Multiline(t)    == LineBreaks(t)                                                   \* :779
AllowSingleQuoted(t) == t = << >> \/ ~(BreakSpace(t) \/ SpaceBreak(t) \/ SpecialChars(t))   \* :756-763

\* Serializer.serialize_node + Emitter.choose_scalar_style (yaml/serializer.py:85-90, emitter.py:494-513) for a
\* Python str in a block collection.  Plain iff the dumper's own resolver would read the plain text as a str
\* (implicit[0]) and the analysis allows a plain scalar; otherwise single-quoted when allowed, else double-quoted
\* (which escapes every character that is not printable).  A mapping KEY is styled like a value: the clauses on
\* simple_key_context (:500-501, :510-511) concern empty / multi-line scalars only, and check_simple_key (:437-455)
\* writes exactly those (and keys of 128+ characters) as complex keys `? key`, outside simple_key_context.
YamlStyleFrom(dtag, plainOk, t) ==
  IF dtag = "str" /\ plainOk /\ t # << >> THEN "plain"                  \* :499-504
  ELSE IF AllowSingleQuoted(t) THEN "single"                            \* :509-512
  ELSE "double"                                                         \* :513
YamlWriteStr(t) == YamlStyleFrom(DumperTag(t), PlainAllowed(t), t)      \* as a mapping value, a mapping key or a sequence item

(***************************************************************************)
(* Alg: reading a scalar back.  A scalar VALUE is [k |-> kind, v |-> text] *)
(* with kind in str / int / float / bool / null / error; for numbers `v`   *)
(* is the SPELLING (what the number is, is Python's business).             *)
(***************************************************************************)
V(k, t)  == [k |-> k, v |-> t]
StrV(t)  == V("str", t)
NullV    == V("null", << >>)
NoUnderscore(t) == SelectSeq(t, LAMBDA c : c # "_")
\* SafeConstructor.construct_yaml_int / construct_yaml_float (yaml/constructor.py:237-292) can raise ValueError on a
\* text its resolver accepted: no digit left after removing the underscores.
PyFloatRe == Cat(<<Alt(<<Cat(<<Plus(D), Opt(Cat(<<Ch("."), Star(D)>>))>>), Cat(<<Ch("."), Plus(D)>>)>>),
                   Opt(Cat(<<EE, OSign, Plus(D)>>))>>)                      \* what float() accepts here (no sign, no '_')
Unsigned(t) == IF t # << >> /\ t[1] \in {"-", "+"} THEN Tail(t) ELSE t
RECURSIVE SplitColon(_)
SplitColon(t) == IF ~Has(t, ":") THEN <<t>> ELSE LET i == FirstIdx(t, ":") IN <<SubSeq(t, 1, i - 1)>> \o SplitColon(SubSeq(t, i + 1, Len(t)))
FloatConstructs(t) ==
  LET u == Unsigned(NoUnderscore(t)) IN
  IF u # << >> /\ u[1] = "." /\ Len(u) = 4 /\ Lower(u[2]) \in {"i", "n"} THEN TRUE          \* .inf / .nan
  ELSE IF Has(u, ":") THEN \A k \in 1..Len(SplitColon(u)) : FullMatch(PyFloatRe, SplitColon(u)[k])
  ELSE FullMatch(PyFloatRe, u)
IntConstructs(t) ==
  LET u == Unsigned(NoUnderscore(t)) IN
  IF u = <<"0">> THEN TRUE
  ELSE IF StartsWith(u, <<"0", "b">>) \/ StartsWith(u, <<"0", "x">>) THEN Len(u) > 2
  ELSE TRUE
ReadPlainFrom(tag, t) ==                                             \* the loader on a plain scalar `t` it resolved to `tag`
  CASE tag = "str"   -> StrV(t)
    [] tag = "int"   -> IF IntConstructs(t) THEN V("int", t) ELSE V("error", t)
    [] tag = "float" -> IF FloatConstructs(t) THEN V("float", t) ELSE V("error", t)
    [] tag = "bool"  -> V("bool", t)
    [] tag = "null"  -> NullV
    [] OTHER         -> V("error", t)                                \* merge / value / yaml as a value: no safe constructor
ReadPlain(t) == ReadPlainFrom(LoaderTag(t), t)
\* QUOTED scalars with RAW line breaks.  Scanner.scan_flow_scalar_spaces / scan_flow_scalar_breaks / scan_line_break
\* (yaml/scanner.py:1228-1275, 1416-1434) read a stretch  blanks* break (blanks* break)* blanks*  inside a quoted scalar as:
\* the first break NORMALISED (x85 -> '\n'; u2028 / u2029 kept), dropped when it is '\n' (a lone '\n' becomes one
\* space), then the other breaks normalised; all the blanks around are dropped.
RawBreaks == {"LF", "NEL", "LS", "PS"}
RawBlank  == {" "}
NormBreaks(r) == Strict([k \in 1..Len(r) |-> IF r[k] = "NEL" THEN "LF" ELSE r[k]])
\* the stretch that starts at i (t[i] a blank or a break) and contains a break: its end, else 0
RECURSIVE StretchEnd(_, _, _)
StretchEnd(t, j, sawBreak) ==            \* j: next position to look at
  IF j <= Len(t) /\ t[j] \in RawBreaks THEN StretchEnd(t, j + 1, TRUE)
  ELSE IF j <= Len(t) /\ t[j] \in RawBlank THEN StretchEnd(t, j + 1, sawBreak)
  ELSE IF sawBreak THEN j - 1 ELSE 0
RECURSIVE ReadQuotedRaw(_, _)
ReadQuotedRaw(t, i) ==
  IF i > Len(t) THEN << >>
  ELSE IF t[i] \notin RawBreaks \cup RawBlank THEN <<t[i]>> \o ReadQuotedRaw(t, i + 1)
  ELSE LET e == StretchEnd(t, i, FALSE) IN
       IF e = 0 THEN <<t[i]>> \o ReadQuotedRaw(t, i + 1)                          \* blanks that no break follows
       ELSE LET brs == NormBreaks(SelectSeq(SubSeq(t, i, e), LAMBDA c : c \in RawBreaks))
                got == IF brs[1] = "LF" THEN (IF Len(brs) = 1 THEN <<" ">> ELSE Tail(brs)) ELSE brs
            IN got \o ReadQuotedRaw(t, e + 1)
\* Emitter.write_single_quoted (yaml/emitter.py:854-907) writes the breaks of a str raw; a run of breaks that STARTS
\* with '\n' gets one more '\n' in front.  With allow_unicode=True (dump_yaml_kwargs) x85 is not escaped, so it is lost.
RECURSIVE SingleWritten(_, _)
SingleWritten(t, i) ==
  IF i > Len(t) THEN << >>
  ELSE IF t[i] = "LF" /\ (i = 1 \/ t[i - 1] \notin RawBreaks) THEN <<"LF", "LF">> \o SingleWritten(t, i + 1)
  ELSE <<t[i]>> \o SingleWritten(t, i + 1)
ReadSingle(t) == ReadQuotedRaw(SingleWritten(t, 1), 1)
\* json.dumps(ensure_ascii=False) (dump_json_kwargs) escapes '"', '\\' and the characters below x20 only; the text is
\* then read by the YAML loader as a double-quoted scalar: raw x85 / u2028 / u2029 are line breaks (folded as above),
\* and a raw character that PyYAML's reader does not accept (yaml/reader.py:136) rejects the whole document.
JsonRaw(t)    == Strict([k \in 1..Len(t) |-> IF t[k] = "LF" THEN "\\n" ELSE t[k]])          \* '\n' travels escaped
JsonUnraw(t)  == Strict([k \in 1..Len(t) |-> IF t[k] = "\\n" THEN "LF" ELSE t[k]])
ReadJsonString(t) == IF Has(t, "NPR") THEN V("error", t) ELSE V("str", JsonUnraw(ReadQuotedRaw(JsonRaw(t), 1)))
\* double-quoted scalars escape everything that is not printable: read back as written (scanner trusted)
YamlRead(style, t) == CASE style = "plain" -> ReadPlain(t) [] style = "single" -> StrV(ReadSingle(t)) [] style = "json" -> ReadJsonString(t) [] OTHER -> StrV(t)
ReadBackFrom(style, ltag, t) == CASE style = "plain" -> ReadPlainFrom(ltag, t) [] style = "single" -> StrV(ReadSingle(t)) [] OTHER -> StrV(t)
ReadBack(t)    == YamlRead(YamlWriteStr(t), t)                       \* yaml_load(yaml_dump({k: t}))[k], and the same for a key / an item

(***************************************************************************)
(* Ref: the round-trip law for strings, and the named deviations           *)
(***************************************************************************)
StrRoundTrip(t)    == ReadBack(t) = StrV(t)

\* Family 1: the replacement float pattern accepts an exponent WITHOUT sign and a mantissa WITHOUT dot
\* (alternatives :70 and :71), which the stock dumper does not regard as floats: 1e3 1E3 1e+3 1.e3 -9e1 1_0e3
DevExponent(t)   == (FullMatch(CustomFloat1, t) \/ FullMatch(CustomFloat2, t)) /\ ~FullMatch(StockFloat, t)
\* Family 2: alternative :72 lets the mantissa after the dot START with '_' (stock: a digit): ._1  ._  .__  ._5e+3
DevDotUnderscore(t) == FullMatch(CustomFloat3, t) /\ ~FullMatch(StockFloat, t)
FloatFirst(t) == t # << >> /\ t[1] \in NumFirst \cup {"."}            \* every float alternative starts with a sign, a digit or a dot
\* Both families were genuine defects of the pinned tree (the stock dumper wrote these texts plain); they were repaired
\* by f3cd0b1 (the dumper resolves floats with the loader's pattern), so they are NO LONGER named deviations: a text
\* of either family that does not survive the round trip is a violation again.  The family predicates stay, as the
\* vocabulary of the invariant RepairedFamiliesQuoted below.
FloatDeviation(t) == "none"
RepairedFamiliesQuoted(t) == (FloatFirst(t) /\ (DevExponent(t) \/ DevDotUnderscore(t)))
                               => (StockDumperTag(t) = "str" /\ DumperTag(t) = "float" /\ YamlStyleFrom(DumperTag(t), PlainAllowed(t), t) # "plain")
\* Family 4: a NEL (x85) inside a str that is written single-quoted is folded away (see ReadSingle)
DevNelFrom(style, t) == style = "single" /\ Has(t, "NEL")
\* Families 5, 6 (JSON text read by the YAML loader): raw line breaks are folded; unprintable characters are rejected
JsonStrRoundTrip(t) == ReadJsonString(t) = StrV(t)
HasRawBreak(t) == Has(t, "NEL") \/ Has(t, "LS") \/ Has(t, "PS")
JsonStrDeviation(t) == IF Has(t, "NPR") THEN "json-unescaped-nonprintable-rejected"
                       ELSE IF ~JsonStrRoundTrip(t) /\ HasRawBreak(t) THEN "json-raw-line-break"
                       ELSE "none"
\* as the KEY of a JSON object the same text must fit on one line (a YAML simple key): any raw break rejects the document
ReadJsonKey(t) == IF Has(t, "NPR") \/ HasRawBreak(t) THEN V("error", t) ELSE V("str", t)
JsonKeyDeviation(t) == IF Has(t, "NPR") THEN "json-unescaped-nonprintable-rejected" ELSE IF HasRawBreak(t) THEN "json-raw-line-break" ELSE "none"
DeviationFrom(style, t) == IF DevNelFrom(style, t) THEN "nel-folded-in-single-quoted-scalar" ELSE FloatDeviation(t)
Deviation(t)    == DeviationFrom(YamlWriteStr(t), t)
StrRoundTripModuloKnown(t) == StrRoundTrip(t) \/ Deviation(t) # "none"
DeviationsAreReal(t)       == Deviation(t) # "none" => ~StrRoundTrip(t)
\* design facts that make the law hold everywhere else (checked by TLC on every text of the instance):
\* the loader never reads a non-string where the dumper sees a string, except through the replaced float pattern
\* (before f3cd0b1: "... except through the replaced float pattern"; now without exception)
OnlyFloatDiffers(t) == DumperTag(t) = "str" => LoaderTag(t) = "str"
\* removing `timestamp` from the loader is the safe direction: the dumper quotes, the loader would not have needed it
TimestampSafe(t)    == DumperTag(t) = "timestamp" => (LoaderTag(t) = "str" /\ YamlWriteStr(t) # "plain")

(***************************************************************************)
(* Numbers, booleans and null as the two dumpers spell them                *)
(*   repr text -> YAML text: SafeRepresenter.represent_float               *)
(*   (yaml/representer.py:171-189);  JSON text: json.dumps (float.__repr__,*)
(*   Infinity / -Infinity / NaN).  A float is identified by its repr.      *)
(***************************************************************************)
YamlFloatText(r) ==
  CASE r = <<"n","a","n">>     -> <<".","n","a","n">>
    [] r = <<"i","n","f">>     -> <<".","i","n","f">>
    [] r = <<"-","i","n","f">> -> <<"-",".","i","n","f">>
    [] OTHER -> IF ~Has(r, ".") /\ Has(r, "e") THEN ReplaceOne(r, "e", <<".", "0", "e">>) ELSE r
JsonFloatText(r) ==
  CASE r = <<"n","a","n">>     -> <<"N","a","N">>
    [] r = <<"i","n","f">>     -> <<"I","n","f","i","n","i","t","y">>
    [] r = <<"-","i","n","f">> -> <<"-","I","n","f","i","n","i","t","y">>
    [] OTHER -> r
\* the float a spelling denotes, as a repr text (only the inverse of the two functions above is needed)
FloatDenote(t) ==
  LET u == Strict([i \in 1..Len(t) |-> Lower(t[i])]) IN
  CASE u = <<".","n","a","n">> -> <<"n","a","n">>
    [] u \in {<<".","i","n","f">>, <<"+",".","i","n","f">>} -> <<"i","n","f">>
    [] u = <<"-",".","i","n","f">> -> <<"-","i","n","f">>
    [] OTHER -> LET i == IF Has(u, "e") THEN FirstIdx(u, "e") ELSE 0
                IN IF i > 2 /\ u[i - 1] = "0" /\ u[i - 2] = "." /\ ~Has(SubSeq(u, 1, i - 3), ".")
                   THEN SubSeq(u, 1, i - 3) \o SubSeq(u, i, Len(u)) ELSE u
ReadNumberText(t) == LET x == ReadPlain(t) IN IF x.k = "float" THEN V("float", FloatDenote(t)) ELSE x
FloatV(r) == V("float", r)
YamlFloatRoundTrip(r) == ReadNumberText(YamlFloatText(r)) = FloatV(r)
JsonFloatRoundTrip(r) == ReadNumberText(JsonFloatText(r)) = FloatV(r)
\* Family 3: JSON spells the non-finite floats Infinity / -Infinity / NaN, which no YAML resolver reads as a float
JsonDeviation(r) == IF r \in {<<"n","a","n">>, <<"i","n","f">>, <<"-","i","n","f">>} THEN "json-nonfinite-float" ELSE "none"
IntText(t)  == FullMatch(Cat(<<Opt(Ch("-")), Alt(<<Ch("0"), Cat(<<D19, Star(D)>>)>>)>>), t)   \* str(int)
IntRoundTrip(t) == IntText(t) => ReadPlain(t) = V("int", t)
WordsRoundTrip == /\ ReadPlain(<<"t","r","u","e">>).k = "bool" /\ ReadPlain(<<"f","a","l","s","e">>).k = "bool"
                  /\ ReadPlain(<<"n","u","l","l">>) = NullV

(***************************************************************************)
(* Alg: load_basic (_loaders_dumpers.py:23-40) and load_value (:184-205)   *)
(***************************************************************************)
PyStrip == {" ", "TAB", "LF", "CR", "NEL", "LS", "PS", "USP", "CSP"}                 \* str.strip()
Strip(t) == StripR(StripL(t, PyStrip), PyStrip)
IsDigit(t) == t # << >> /\ \A i \in 1..Len(t) : t[i] \in Digits \cup {"UDIG"}        \* str.isdigit()
HasUDig(t) == Has(t, "UDIG")
PyFloatLit == Cat(<<Opt(Ch("-")), Alt(<<Cat(<<Plus(D), Opt(Cat(<<Ch("."), Star(D)>>))>>), Cat(<<Ch("."), Plus(D)>>)>>),
                    Opt(Cat(<<Ch("e"), Opt(Ch("-")), Plus(D)>>))>>)                  \* float() on a text made of digits . e -
NotLoaded == V("notloaded", << >>)
LoadBasic(t0) ==
  LET t == Strip(t0)                                                                 \* :24
      f == ReplaceFirst(ReplaceFirst(ReplaceFirst(ReplaceFirst(t, "."), "e"), "-"), "-")   \* :34 replace(".", "", 1)...replace("-", "", 2)
  IN CASE t = <<"t","r","u","e">>     -> V("bool", t)                                \* :25
       [] t = <<"f","a","l","s","e">> -> V("bool", t)                                \* :27
       [] t = <<"n","u","l","l">>     -> NullV                                       \* :29
       [] OTHER ->
          IF IsDigit(t) \/ (t # << >> /\ t[1] = "-" /\ IsDigit(Tail(t)))             \* :32
          THEN (IF HasUDig(t) THEN V("unsure", t) ELSE V("int", t))                  \* int() of exotic digits may raise
          ELSE IF IsDigit(f) /\ (Has(t, "e") \/ Has(t, "."))                         \* :34-36
          THEN (IF HasUDig(t) THEN V("unsure", t) ELSE IF FullMatch(PyFloatLit, t) THEN V("float", t) ELSE NotLoaded)   \* :37-39
          ELSE NotLoaded
\* load_value on a text that is a one-scalar YAML document (anything else is a structure: "doc")
OnlySpacesStripped(t) == \A i \in 1..Len(t) : t[i] \notin (PyStrip \ {" "})
LoadValueLoaded(b, t) ==                                                              \* `loaded_value` before line 202
  IF b # NotLoaded THEN b                                                            \* :188, :194
  ELSE LET u == Strip(t) IN
       IF u # << >> /\ OnlySpacesStripped(t) /\ PlainAllowed(u) THEN ReadPlain(u)     \* :195-200, a one-scalar document
       ELSE V("doc", t)                                                              \* a structure, an error, ...: not decided here
LoadValueFrom(y, t, simple) ==
  IF Strip(t) = <<"-">> THEN StrV(t)                                                 \* :185-186
  ELSE IF ~simple /\ y.k \in {"int", "float", "bool", "str"} THEN StrV(t) ELSE y     \* :202-203
LoadValue(t, simple) == LoadValueFrom(LoadValueLoaded(LoadBasic(t), t), t, simple)
\* the fast path must not change what a text means (used on every channel; C05): kinds agree with the loader
BasicAgreesWithLoader(t) ==
  LET b == LoadBasic(t) IN (b.k \in {"int", "float", "bool", "null"} /\ PlainAllowed(Strip(t))) => ReadPlain(Strip(t)).k = b.k
=============================================================================
