SPECIFICATION Spec
CONSTANTS
  MaxItems = 1
  Wide = FALSE
  Emit = TRUE
INVARIANT XStylesAgree
INVARIANT NoneStaysNone
INVARIANT RequiredEnforced
INVARIANT SpellingFree
INVARIANT EmitCase
CHECK_DEADLOCK FALSE
