SPECIFICATION Spec
CONSTANTS
  Depth2 = FALSE
  Emit = TRUE
INVARIANT InvIdealRoundTrip
INVARIANT InvRoundTripModuloKnown
INVARIANT InvHazardsAreReal
INVARIANT InvCfgRoundTripModuloKnown
INVARIANT InvCfgIdeal
INVARIANT InvFind
INVARIANT EmitCase
CHECK_DEADLOCK FALSE
