SPECIFICATION Spec
CONSTANTS
  Tree = "T3"
  EnvFull = FALSE
  AoptFull = TRUE
  WithDcf = TRUE
  Emit = TRUE
INVARIANT AlgIsSelect
INVARIANT AlgDcfIsSelect
INVARIANT DcfPlainSame
INVARIANT OneSectionPerLevel
INVARIANT ArgvWins
INVARIANT EmitCase
CHECK_DEADLOCK FALSE
