CONSTANTS
  CwdVariant = "code"
  StatGuard = FALSE
INIT Init
NEXT Next
INVARIANT Inv
CHECK_DEADLOCK FALSE
