CONSTANTS
  CwdVariant = "code"
  StatGuard = FALSE
  CcStopsAtExisting = FALSE
INIT Init
NEXT Next
INVARIANT Inv
CHECK_DEADLOCK FALSE
