SPECIFICATION Spec
CONSTANTS
  Thorough = FALSE
  Emit = TRUE
INVARIANT AlgRefinesRef
INVARIANT OneCall
INVARIANT OwnParameters
INVARIANT ReturnPassedThrough
INVARIANT NeverCrashes
INVARIANT ShapeLaws
INVARIANT EmitCase
CHECK_DEADLOCK FALSE
