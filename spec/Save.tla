-------------------------------- MODULE Save --------------------------------
(***************************************************************************)
(* ArgumentParser.save (jsonargparse/_core.py:856-951) as a machine over a *)
(* file system  fs : file name -> content  (property C18).                 *)
(*                                                                         *)
(* A *scenario* sc fixes everything the call depends on:                   *)
(*   multifile, overwrite   the two flags of save()                        *)
(*   subs      the components of the config that carry a __path__ meta, in *)
(*             the order of cfg.get_sorted_keys(): <<key, name, kind>>     *)
(*             key   which component ("s1", "s2", "d", "p", ...)           *)
(*             name  the file (basename) it is written to; two components  *)
(*                   loaded from different directories may share a name,   *)
(*                   and a name may equal the main target ("main")         *)
(*             kind  "cfg"      dumped with dump_using_format (:929-938)   *)
(*                   "content"  a Path in save_path_content (:940-945)     *)
(*   invalid   "none" or the component that holds a value of the wrong     *)
(*             type ("main" = a top-level typed key)                       *)
(*   unser     "none" or the component that holds an object no dumper can  *)
(*             represent                                                   *)
(*   fault     an environment fault: none | unknown format | target's      *)
(*             parent directory missing | OSError at the n-th open(.., "w")*)
(*             | OSError at the n-th write                                 *)
(*   pre       the directory before the call: name -> "absent" | "old" |   *)
(*             "empty" | "dir"                                             *)
(*   inplace   the config is saved back into the directory it was loaded   *)
(*             from (load, edit, save with overwrite): pre then holds the  *)
(*             files the config came from, each with its component's       *)
(*             content, and the source of a save_path_content file IS the  *)
(*             file that is written                                        *)
(*                                                                         *)
(* Round 4 (extension):                                                    *)
(*   skipval   save(skip_validation=True): validate() is not called        *)
(*   edited    "none" or the component whose value was (validly) changed   *)
(*             after loading; a sub-file of kind "orig" (ActionJsonnet:    *)
(*             __orig__ meta, :947-948) is written as its ORIGINAL text,   *)
(*             content class  Stale(key)  when the component was edited    *)
(*   scheme    how the target is spelled: "path" (a plain local path: str, *)
(*             os.PathLike, ~/name, Path object) | "fileurl"               *)
(*             (file:///abs/path -- a LOCAL file: Path strips the scheme)  *)
(*             | "fsspec" (local://abs/path: a protocol fsspec knows, its  *)
(*             LocalFileSystem) | "memory" (memory://..., fsspec's         *)
(*             in-memory file system; fs["main"] then is that object)      *)
(*                                                                         *)
(* Contents: "absent", "dir", "old" (the user's data), "empty" (zero       *)
(* bytes), or the key of the component whose dump the file holds ("main"   *)
(* for the top-level config).                                              *)
(*                                                                         *)
(* Alg layer: one operator per step of the code, in code order, each with  *)
(* its anchor; Step(sc, s) dispatches on s.pc; Run(sc) iterates to a       *)
(* terminal state (used by Trace_Save); MC_Save turns each operator into a *)
(* TLC action.  Variant = "code" is the pinned tree.  "dumpfirst" is the   *)
(* proposed minimal repair (build the dump string before opening, both at  *)
(* :910-911 and :950-951), "twophase" builds every string before the first *)
(* open.  TLC checks what each variant guarantees.                         *)
(*                                                                         *)
(* Ref layer: NoSilentOverwrite, AllOrNothing, SavedReparses -- the three  *)
(* clauses of the property, over (sc, fs0, fs, outcome).                   *)
(***************************************************************************)
EXTENDS Naturals, Sequences, FiniteSets, TLC
CONSTANT Variant          \* "code" | "dumpfirst" | "twophase"

Absent  == "absent"
IsFile(c) == c \notin {"absent", "dir"}          \* os.path.isfile
NoFault == [kind |-> "none", n |-> 0]
SubKey(x) == x[1]
SubName(x) == x[2]
SubKind(x) == x[3]
Range(q) == {q[j] : j \in 1..Len(q)}
SubKeysOf(sc) == {SubKey(x) : x \in Range(sc.subs)}
Names(sc) == DOMAIN sc.pre

\* a component that is not loaded from its own file is part of the main document
InMain(sc, k) == k = "main" \/ (k # "none" /\ (~sc.multifile \/ k \notin SubKeysOf(sc)))
\* what validate() sees: the whole config, whatever file a component came from
Invalid(sc) == sc.invalid # "none"
\* Ref level: the target lives on a file system that only fsspec reaches (multifile=True is documented as unsupported there)
Remote(sc) == sc.scheme \in {"fsspec", "memory"}
\* Alg level: which branch of save() the spelling takes.  _util.py:513,550-551: a leading file:// is stripped BEFORE
\* known_to_fsspec (:567) is asked, so "fileurl" takes the local branch (:906-951, with check_overwrite) like a plain path;
\* only protocols other than file:// that fsspec knows take :892-904
FsspecBranch(sc) == sc.scheme \in {"fsspec", "memory"}
LocalBranch(sc) == ~FsspecBranch(sc)
\* ... unless save(skip_validation=True) (:791 / :917 `if not skip_validation`)
Rejects(sc) == Invalid(sc) /\ ~sc.skipval
\* content class of a file that holds what component k was BEFORE it was edited
Stale(k) == k \o "~"
\* the text written for sub-file x: the dump of the current value -- except kind "orig" (:947-948 val["__orig__"]): the
\* text the component was loaded from, whatever the value is now                          (deviation OrigTextStale)
TextOf(sc, x) == IF SubKind(x) = "orig" /\ sc.edited = SubKey(x) THEN Stale(SubKey(x)) ELSE SubKey(x)

(***************************************************************************)
(* Alg layer                                                               *)
(***************************************************************************)
Start(sc) == [pc |-> "format", fs |-> sc.pre, i |-> 1, cause |-> "none", nopen |-> 0, nwrite |-> 0,
              fired |-> FALSE, hist |-> << >>, held |-> << >>, refs |-> << >>]
Terminal(s) == s.pc \in {"done", "failed"}
Fail(s, c)  == [s EXCEPT !.pc = "failed", !.cause = c]
Goto(s, p)  == [s EXCEPT !.pc = p]
Log(s, e, f, fs2) == Append(s.hist, <<e, f, fs2>>)          \* an effect the wrapped open() of the harness observes

\* open(path, "w"): creates or truncates -- unless the n-th open is the injected OSError (nothing touched)
OpenW(sc, s, f, next) ==
  IF sc.fault.kind = "open" /\ sc.fault.n = s.nopen + 1
  THEN [Fail(s, "oserror") EXCEPT !.nopen = s.nopen + 1, !.fired = TRUE]
  ELSE LET fs2 == [s.fs EXCEPT ![f] = "empty"] IN
       [s EXCEPT !.fs = fs2, !.nopen = s.nopen + 1, !.pc = next, !.hist = Log(s, "open", f, fs2)]
\* an exception inside `with open(...) as f:` -- the file is closed as it is (empty)
FailOpen(s, f, c) == [Fail(s, c) EXCEPT !.hist = Log(s, "close", f, s.fs)]
\* f.write(text) and the end of the with block; the n-th write may be the injected OSError
WriteClose(sc, s, f, content, next) ==
  IF sc.fault.kind = "write" /\ sc.fault.n = s.nwrite + 1
  THEN [FailOpen(s, f, "oserror") EXCEPT !.nwrite = s.nwrite + 1, !.fired = TRUE]
  ELSE LET fs2 == [s.fs EXCEPT ![f] = content] IN
       [s EXCEPT !.fs = fs2, !.nwrite = s.nwrite + 1, !.pc = next, !.hist = Log(s, "close", f, fs2)]

\* ---- common prefix
\* _core.py:884  check_valid_dump_format(format)
CheckFormat(sc, s) == IF sc.fault.kind = "format" THEN Fail(s, "format") ELSE Goto(s, "resolve")
\* _core.py:892-904: Path(path, mode="sw") probe for fsspec targets -- no effect on a local path.
\* _core.py:906  path_fc = Path(path, mode="fc")  (_util.py:598-612: parent must be a writeable directory,
\* an existing path must be a regular file)
ResolveTarget(sc, s) ==
  IF FsspecBranch(sc) THEN Goto(s, "fs_probe") ELSE
  IF sc.fault.kind = "noparent" \/ s.fs["main"] = "dir" THEN Fail(s, "notcreatable") ELSE Goto(s, "check_main")
\* _core.py:907 with :886-888  check_overwrite(path_fc)
CheckMain(sc, s) ==
  IF ~sc.overwrite /\ IsFile(s.fs["main"]) THEN Fail(s, "refused")
  ELSE Goto(s, IF sc.multifile THEN "m_clone"
               ELSE IF Variant = "code" THEN "s_open" ELSE "s_validate")

\* ---- single file, _core.py:909-911:  with open(path_fc.absolute, "w") as f: f.write(self.dump(cfg, ...))
\* :910  the file is opened -- created or TRUNCATED -- before dump() runs            (deviation OpenBeforeDump)
SOpen(sc, s) == OpenW(sc, s, "main", IF Variant = "code" THEN "s_validate" ELSE "s_write")
\* :911 -> dump :791-792  self.validate(cfg)
SValidate(sc, s) ==
  IF Rejects(sc) THEN (IF Variant = "code" THEN FailOpen(s, "main", "invalid") ELSE Fail(s, "invalid"))
  ELSE Goto(s, "s_serialize")
\* :911 -> dump :794-806  _dump_cleanup_actions / dump_using_format: every value is serialised
SSerialize(sc, s) ==
  IF sc.unser # "none" THEN (IF Variant = "code" THEN FailOpen(s, "main", "unserialisable") ELSE Fail(s, "unserialisable"))
  ELSE Goto(s, IF Variant = "code" THEN "s_write" ELSE "s_open")
\* :911  f.write(...) and the end of the with block
SWrite(sc, s) == WriteClose(sc, s, "main", "main", "done")

\* ---- multi file, _core.py:913-951
\* :914-915  cfg = cfg.clone(); strip_link_target_keys -- works on a copy, no effect outside
MClone(sc, s) == Goto(s, "m_validate")
\* :917-919  self.validate(strip_meta(cfg)) BEFORE anything is written
MValidate(sc, s) == IF Rejects(sc) THEN Fail(s, "invalid") ELSE Goto(s, "m_sub")
\* :921-923, 947-948  save_paths: the components with a __path__, in get_sorted_keys order, inside
\* change_to_path_dir(path_fc) so that the base names resolve next to the main file
Cur(sc, s) == sc.subs[s.i]
MSubNext(sc, s) ==
  IF s.i > Len(sc.subs) THEN Goto(s, IF Variant = "code" THEN "m_open" ELSE "m_serialize")
  ELSE Goto(s, "m_sub_resolve")
\* :927 / :941  val_path = Path(os.path.basename(...), mode="fc")
MSubResolve(sc, s) ==
  IF s.fs[SubName(Cur(sc, s))] = "dir" THEN Fail(s, "notcreatable") ELSE Goto(s, "m_sub_check")
\* :928 / :942  check_overwrite(val_path) -- against the directory as it is NOW
MSubCheck(sc, s) ==
  IF ~sc.overwrite /\ IsFile(s.fs[SubName(Cur(sc, s))]) THEN Fail(s, "refused")
  ELSE Goto(s, IF SubKind(Cur(sc, s)) \in {"cfg", "orig"} \/ Variant = "twophase" THEN "m_sub_dump" ELSE "m_sub_open")
\* :929-936  val_str = dump_using_format(...) -- the string is built before the sub-file is opened, but after
\* the earlier sub-files were written                                              (deviation SubsBeforeDump)
\* :947-948  a component with an __orig__ meta (ActionJsonnet) is not dumped at all: val_str = val["__orig__"]
MSubDump(sc, s) ==
  IF sc.unser = SubKey(Cur(sc, s)) /\ SubKind(Cur(sc, s)) # "orig" THEN Fail(s, "unserialisable")
  ELSE IF Variant = "twophase" THEN [s EXCEPT !.held = Append(s.held, Cur(sc, s)), !.i = s.i + 1, !.pc = "m_sub",
                                              !.refs = Append(s.refs, <<SubKey(Cur(sc, s)), SubName(Cur(sc, s))>>)]
  ELSE Goto(s, "m_sub_open")
\* :937 / :943  with open(val_path.absolute, "w") as f
MSubOpen(sc, s) == OpenW(sc, s, SubName(Cur(sc, s)), "m_sub_write")
\* :938 / :944  f.write(val_str) / f.write(val.get_content()).  For a save_path_content file the content is read
\* AFTER :943 opened the destination: saved in place, the source is that very file, just truncated
\*                                                                              (deviation InplaceContentEmptied)
Written(sc, s) == LET x == Cur(sc, s) IN
                  IF SubKind(x) = "content" /\ sc.inplace /\ Variant = "code" THEN s.fs[SubName(x)] ELSE TextOf(sc, x)
MSubWrite(sc, s) == WriteClose(sc, s, SubName(Cur(sc, s)), Written(sc, s), "m_sub_replace")
\* :939 / :945  cfg[key] = basename -- the main document now refers to the file by name
\* `refs` records what the saved document says where component `key` is to be found: the BARE name of the file just
\* written, to be looked up in the directory of the main file -- whatever the path was that the component came from
\* (a sub-directory of the input, an absolute path, ...)
MSubReplace(sc, s) == [s EXCEPT !.i = s.i + 1, !.pc = "m_sub",
                                !.refs = Append(s.refs, <<SubKey(Cur(sc, s)), SubName(Cur(sc, s))>>)]
\* :950  with open(path_fc.absolute, "w") as f -- again opened before dump()           (deviation OpenBeforeDump)
MOpen(sc, s) == OpenW(sc, s, "main", IF Variant = "code" THEN "m_serialize" ELSE "m_write")
\* :949, :951  self.dump(cfg, skip_validation=True): no validation, but every inline value is serialised
MSerialize(sc, s) ==
  IF InMain(sc, sc.unser) THEN (IF Variant = "code" THEN FailOpen(s, "main", "unserialisable") ELSE Fail(s, "unserialisable"))
  ELSE Goto(s, IF Variant = "code" THEN "m_write" ELSE IF Variant = "twophase" THEN "m_flush" ELSE "m_open")
\* :951  f.write(...)
MWrite(sc, s) == WriteClose(sc, s, "main", "main", "done")
\* (twophase only) the strings kept back are written one after the other, then the main file
MFlush(sc, s) ==
  IF s.held = << >> THEN Goto(s, "m_open")
  ELSE LET x == Head(s.held)
           o == OpenW(sc, s, SubName(x), "m_flush") IN
       IF o.pc = "failed" THEN o
       ELSE LET w == WriteClose(sc, o, SubName(x), TextOf(sc, x), "m_flush") IN
            IF w.pc = "failed" THEN w ELSE [w EXCEPT !.held = Tail(s.held)]

\* ---- fsspec target (a path spelled with a protocol fsspec knows), _core.py:892-904 -- the same in every Variant
\* :894  path_sw = Path(path, mode="sw") -> _util.py:584-590: the fsspec target is PROBED by fsspec.open(abs_path, "w").open()
\* and closed again: created or TRUNCATED before anything was checked               (deviation FsspecProbeTruncates)
\* (a directory in the way is met by the open itself -- IsADirectoryError -- i.e. after an injected OSError of that open)
FsProbe(sc, s) == LET o == OpenW(sc, s, "main", "fs_probe_close") IN
                  IF o.pc = "failed" THEN o ELSE IF s.fs["main"] = "dir" THEN Fail(s, "notcreatable") ELSE o
FsProbeClose(sc, s) == [s EXCEPT !.pc = "fs_multi", !.hist = Log(s, "close", "main", s.fs)]
\* :898-899  multifile=True is refused for fsspec targets -- after the probe
FsMulti(sc, s) == IF sc.multifile THEN Fail(s, "unsupported") ELSE Goto(s, "fs_open")
\* :901  with fsspec.open(path, "w") as f -- no check_overwrite on this branch     (deviation FsspecNoOverwriteCheck)
FsOpen(sc, s) == OpenW(sc, s, "main", "fs_validate")
\* :902 -> dump :791-792 / :794-806, inside the with block                          (deviation FsspecOpenBeforeDump)
FsValidate(sc, s) == IF Rejects(sc) THEN FailOpen(s, "main", "invalid") ELSE Goto(s, "fs_serialize")
FsSerialize(sc, s) == IF sc.unser # "none" THEN FailOpen(s, "main", "unserialisable") ELSE Goto(s, "fs_write")
FsWrite(sc, s) == WriteClose(sc, s, "main", "main", "done")

Step(sc, s) ==
  CASE s.pc = "format"        -> CheckFormat(sc, s)
    [] s.pc = "resolve"       -> ResolveTarget(sc, s)
    [] s.pc = "check_main"    -> CheckMain(sc, s)
    [] s.pc = "s_open"        -> SOpen(sc, s)
    [] s.pc = "s_validate"    -> SValidate(sc, s)
    [] s.pc = "s_serialize"   -> SSerialize(sc, s)
    [] s.pc = "s_write"       -> SWrite(sc, s)
    [] s.pc = "m_clone"       -> MClone(sc, s)
    [] s.pc = "m_validate"    -> MValidate(sc, s)
    [] s.pc = "m_sub"         -> MSubNext(sc, s)
    [] s.pc = "m_sub_resolve" -> MSubResolve(sc, s)
    [] s.pc = "m_sub_check"   -> MSubCheck(sc, s)
    [] s.pc = "m_sub_dump"    -> MSubDump(sc, s)
    [] s.pc = "m_sub_open"    -> MSubOpen(sc, s)
    [] s.pc = "m_sub_write"   -> MSubWrite(sc, s)
    [] s.pc = "m_sub_replace" -> MSubReplace(sc, s)
    [] s.pc = "m_open"        -> MOpen(sc, s)
    [] s.pc = "m_serialize"   -> MSerialize(sc, s)
    [] s.pc = "m_write"       -> MWrite(sc, s)
    [] s.pc = "m_flush"       -> MFlush(sc, s)
    [] s.pc = "fs_probe"      -> FsProbe(sc, s)
    [] s.pc = "fs_probe_close" -> FsProbeClose(sc, s)
    [] s.pc = "fs_multi"      -> FsMulti(sc, s)
    [] s.pc = "fs_open"       -> FsOpen(sc, s)
    [] s.pc = "fs_validate"   -> FsValidate(sc, s)
    [] s.pc = "fs_serialize"  -> FsSerialize(sc, s)
    [] s.pc = "fs_write"      -> FsWrite(sc, s)

RECURSIVE RunFrom(_, _)
RunFrom(sc, s) == IF Terminal(s) THEN s ELSE RunFrom(sc, Step(sc, s))
Run(sc) == RunFrom(sc, Start(sc))

(***************************************************************************)
(* Ref layer: the property, over what can be seen from outside             *)
(*   pre   the directory before the call        fs   a directory during or *)
(*   after the call      outcome  "ok" | "raise"      fired  the injected  *)
(*   OSError was actually raised                                           *)
(***************************************************************************)
\* "never modifies or replaces an existing file unless overwrite is requested" (a directory is never replaced)
NoSilentOverwrite(sc, fs) ==
  \A f \in DOMAIN sc.pre : /\ (IsFile(sc.pre[f]) /\ ~sc.overwrite) => fs[f] = sc.pre[f]
                           /\ sc.pre[f] = "dir" => fs[f] = "dir"

\* Everything that can make this call fail.  A refusal is possible when some file save() would write exists;
\* an OSError counts only when it fired.
Targets(sc) == {"main"} \cup (IF sc.multifile /\ ~Remote(sc) THEN {SubName(x) : x \in Range(sc.subs)} ELSE {})
\* an object inside a component that is written as its original text is never handed to a dumper
UnserNeverDumped(sc) == sc.multifile /\ ~Remote(sc) /\ \E x \in Range(sc.subs) : SubKey(x) = sc.unser /\ SubKind(x) = "orig"
Causes(sc, fired) ==
     (IF Rejects(sc) THEN {"invalid"} ELSE {})                    \* with skip_validation an invalid value is no reason to fail
  \cup (IF Remote(sc) /\ sc.multifile THEN {"unsupported"} ELSE {})       \* NotImplementedError (:898-899)
  \cup (IF sc.unser # "none" /\ ~UnserNeverDumped(sc) THEN {"unserialisable"} ELSE {})
  \cup (IF sc.fault.kind = "format" THEN {"format"} ELSE {})
  \cup (IF sc.fault.kind = "noparent" \/ \E f \in Targets(sc) : sc.pre[f] = "dir" THEN {"notcreatable"} ELSE {})
  \cup (IF ~sc.overwrite /\ \E f \in Targets(sc) : IsFile(sc.pre[f]) THEN {"refused"} ELSE {})
  \cup (IF ~sc.overwrite /\ sc.multifile /\ ~Remote(sc) /\ \E a, b \in 1..Len(sc.subs) : a # b /\ SubName(sc.subs[a]) = SubName(sc.subs[b])
        THEN {"refused"} ELSE {})                     \* refuses to overwrite what it wrote itself
  \cup (IF fired THEN {"oserror"} ELSE {})
\* "when saving fails because the configuration is invalid or cannot be serialised, no file has been created,
\* truncated or changed": demanded whenever nothing else can be the reason of the failure
MustBeAtomic(sc, fired) == Causes(sc, fired) # {} /\ Causes(sc, fired) \subseteq {"invalid", "unserialisable"}
AllOrNothing(sc, outcome, fired, fs) == (outcome = "raise" /\ MustBeAtomic(sc, fired)) => fs = sc.pre

\* "when it succeeds, parsing the saved path reproduces the configuration, including configs loaded from sub-files":
\* the main file holds the main document and every file it refers to holds the component that refers to it
\* refs = what the saved documents say: <<component, file it is to be read from>>.  A reference that is not the bare
\* name of a file of the output directory (the original path of the component, say) names nothing in fs.
RefersTo(refs, k) == {refs[j][2] : j \in {jj \in 1..Len(refs) : refs[jj][1] = k}}
Reparses(sc, fs, refs) == /\ fs["main"] = "main"
                          /\ sc.multifile => \A x \in Range(sc.subs) :
                                /\ RefersTo(refs, SubKey(x)) # {}
                                /\ \A f \in RefersTo(refs, SubKey(x)) : f \in DOMAIN fs /\ fs[f] = SubKey(x)
\* (a configuration that is invalid and was saved with skip_validation=True cannot be expected to parse)
SavedReparses(sc, outcome, fs, refs) == (outcome = "ok" /\ ~(Invalid(sc) /\ sc.skipval)) => Reparses(sc, fs, refs)

(***************************************************************************)
(* The deviations of the pinned tree, by name (known findings are keyed on *)
(* "the real code behaves exactly like this")                              *)
(***************************************************************************)
\* single-file: the target is opened (created / emptied) before the config is validated and serialised
DevSingleOpenBeforeDump(sc, r) ==
  ~sc.multifile /\ LocalBranch(sc) /\ r.pc = "failed" /\ r.cause \in {"invalid", "unserialisable"} /\ r.fs = [sc.pre EXCEPT !["main"] = "empty"]
\* multi-file: a value that cannot be serialised is met after sub-files were written (and, when it sits in the
\* main document, after the main file was emptied)
DevMultiWrittenBeforeDump(sc, r) ==
  /\ sc.multifile /\ LocalBranch(sc) /\ r.pc = "failed" /\ r.cause = "unserialisable"
  /\ \A f \in DOMAIN sc.pre : r.fs[f] # sc.pre[f] =>
        \/ \E j \in 1..(r.i - 1) : SubName(sc.subs[j]) = f           \* a sub-file written earlier
        \/ (f = "main" /\ r.fs[f] = "empty" /\ r.i > Len(sc.subs))   \* the main file, emptied
\* multi-file: two components share a file name (or one is called like the main file): the later write wins
Collision(sc) ==
  sc.multifile /\ ~Remote(sc)
               /\ \/ \E a, b \in 1..Len(sc.subs) : a # b /\ SubName(sc.subs[a]) = SubName(sc.subs[b])
                  \/ \E a \in 1..Len(sc.subs) : SubName(sc.subs[a]) = "main"
\* multi-file: a component loaded by ActionJsonnet and edited afterwards is written as the text it was loaded from: save()
\* succeeds, the saved path parses to the value BEFORE the edit (everything else is as it should be)
DevOrigTextStale(sc, r) ==
  /\ sc.multifile /\ LocalBranch(sc) /\ r.pc = "done"
  /\ \E x \in Range(sc.subs) : /\ SubKind(x) = "orig" /\ sc.edited = SubKey(x) /\ r.fs[SubName(x)] = Stale(SubKey(x))
                                /\ Reparses(sc, [r.fs EXCEPT ![SubName(x)] = SubKey(x)], r.refs)
\* fsspec target: nothing but the main file is touched; it is left emptied or holding the new document
FsspecOnlyMain(sc, fs) == FsspecBranch(sc) /\ \E c \in {sc.pre["main"], "empty", "main"} : fs = [sc.pre EXCEPT !["main"] = c]
\* ... although it existed and overwrite was not requested (probe :894 and open :901 happen without check_overwrite)
DevFsspecNoOverwriteCheck(sc, fs) == FsspecOnlyMain(sc, fs) /\ ~sc.overwrite /\ IsFile(sc.pre["main"]) /\ fs["main"] # sc.pre["main"]
\* ... although the configuration is invalid / cannot be serialised (:901 opens before :902 dumps; the probe before that)
DevFsspecOpenBeforeDump(sc, r) ==
  /\ r.pc = "failed" /\ r.cause \in {"invalid", "unserialisable"} /\ FsspecOnlyMain(sc, r.fs) /\ r.fs["main"] = "empty" /\ r.fs # sc.pre
\* multi-file, in place: the file behind a save_path_content value is emptied (everything else is as it should be)
DevInplaceContentEmptied(sc, r) ==
  /\ sc.multifile /\ sc.inplace /\ r.pc = "done" /\ r.fs["main"] = "main"
  /\ \E x \in Range(sc.subs) : SubKind(x) = "content"
  /\ \A x \in Range(sc.subs) : r.fs[SubName(x)] = (IF SubKind(x) = "content" THEN "empty" ELSE SubKey(x))
DevName(sc, r) ==
  IF r.pc = "failed" /\ r.fs # sc.pre /\ DevSingleOpenBeforeDump(sc, r) THEN "single-open-before-dump"
  ELSE IF r.pc = "failed" /\ r.fs # sc.pre /\ DevMultiWrittenBeforeDump(sc, r)
       THEN (IF r.i > Len(sc.subs) THEN "multi-written-before-main-dump" ELSE "multi-written-before-sub-dump")
  ELSE IF DevFsspecOpenBeforeDump(sc, r) THEN "fsspec-open-before-dump"
  ELSE IF Terminal(r) /\ DevFsspecNoOverwriteCheck(sc, r.fs) THEN "fsspec-no-overwrite-check"
  ELSE IF r.pc = "done" /\ Collision(sc) /\ ~Reparses(sc, r.fs, r.refs) THEN "multi-name-collision"
  ELSE IF DevOrigTextStale(sc, r) THEN "multi-orig-text-stale"
  ELSE IF DevInplaceContentEmptied(sc, r) THEN "inplace-content-emptied"
  ELSE "none"
=============================================================================
