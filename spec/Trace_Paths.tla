---------------------------- MODULE Trace_Paths ----------------------------
(* Validation of observations of the real jsonargparse recorded by harness/checks/c19.py (code -> spec).          *)
(* TRACE_FILE holds [modes |-> <<..>>, strs |-> <<..>>, cwds |-> <<..>>]:                                         *)
(*   modes  one call Path(spelling, mode) made as uid nobody on the fixture directory:                            *)
(*          mode (string of flags), F (facts of the path from the os.stat / os.access oracle of the harness),     *)
(*          out "accept" | "patherror" | "other" (any other exception), rel / abs (out = accept: .relative is     *)
(*          the spelling given, .absolute is absolute and names the location the oracle resolved)                 *)
(*   strs   one call Path._check_mode(s) / path_type(s): s, raised (ValueError)                                   *)
(*   cwds   one parse of a chain of config files: p (program, as MC_PathsCwd emits), out "ok" | "raise",          *)
(*          cwd_ok / cpd_ok (os.getcwd() and current_path_dir as before the call), resolved <<level, dir>> of     *)
(*          every path value of the result, chdirs the directories a wrapped os.chdir saw                         *)
(* Ref clauses decide the verdict ("ref-as:<deviation>" when the real code does exactly what the Alg layer        *)
(* predicts for a named deviation), Alg clauses only drift.                                                       *)
EXTENDS Paths, Json, IOUtils, TLCExt

Data  == JsonDeserialize(IOEnv.TRACE_FILE)
MObs  == Data.modes
SObs  == Data.strs
CObs  == Data.cwds
NM == Len(MObs)
NS == Len(SObs)
NC == Len(CObs)

VARIABLE i
Init == i \in 1..(NM + NS + NC)
Next == UNCHANGED i
Say(kind, idx, clause) == PrintT(<<"R", kind, idx, clause>>)

\* mode strings arrive as sequences of one-character strings
AlgOut(a) == IF a.res = "accept" THEN "accept" ELSE IF a.res = "patherror" THEN "patherror" ELSE "other"
CheckMode(k) ==
  LET o   == MObs[k]
      m   == ModeOf(o.mode)
      F   == o.F
      a   == AlgCheck(m, F)
      ref == RefOutcomes(m, F)
      dev == PathDevName(m, F)
      okref == (o.out = "accept" /\ "accept" \in ref) \/ (o.out = "patherror" /\ "reject" \in ref)
  IN /\ (Consistent(F) /\ CheckModeAlg(o.mode) = "ok") \/ Say("mode", k, "inconsistent-facts")
     \* accepted iff the file system satisfies every flag; a failure is the documented PathError, nothing else
     /\ okref \/ Say("mode", k, IF dev # "none" /\ AlgOut(a) = o.out THEN "ref-as:" \o dev ELSE IF o.out = "other" THEN "ref-exception-class" ELSE "ref-verdict")
     /\ (o.out = "accept" => o.rel) \/ Say("mode", k, "ref-relative")
     /\ (o.out = "accept" => o.abs) \/ Say("mode", k, "ref-absolute")
     /\ (AlgOut(a) = o.out) \/ Say("mode", k, "alg")

CheckStr(k) ==
  LET o == SObs[k] IN
     /\ (o.raised <=> ~ValidModeRef(o.s)) \/ Say("str", k, "ref-mode-language")
     /\ (o.raised <=> CheckModeAlg(o.s) # "ok") \/ Say("str", k, "alg")

ToProg(j) == [dirs |-> j.dirs, tdirs |-> j.tdirs, xdirs |-> j.xdirs, place |-> j.place, first |-> j.first, start |-> j.start, entry |-> j.entry, fail |-> j.fail]
CheckCwd(k) ==
  LET o == CObs[k]
      p == ToProg(o.p)
      r == CRun(p)
      ch == Chdirs(r.log)
      obsres == {<<o.resolved[j][1], o.resolved[j][2]>> : j \in 1..Len(o.resolved)}
      \* the real code did exactly what the Alg layer predicts (outcome, and on success where every value was resolved)
      asalg == ((o.out = "raise") <=> r.exc) /\ (o.out = "ok" => obsres = Resolved(p, r.log))
      dev == IF CwdDevName(p) # "none" /\ asalg THEN "ref-as:" \o CwdDevName(p) ELSE "none"
  IN /\ (o.cwd_ok /\ o.cpd_ok) \/ Say("cwd", k, "ref-cwd-restored")
     \* every value is resolved next to the file that holds it AS NAMED (next to the link, not next to its target)
     /\ (\A j \in 1..Len(o.resolved) : o.resolved[j][2] = p.dirs[o.resolved[j][1]]) \/ Say("cwd", k, IF dev # "none" THEN dev ELSE "ref-resolve")
     /\ (o.out = "ok" => Len(o.resolved) = NLevels(p)) \/ Say("cwd", k, "ref-resolve-missing")
     \* accepted iff nothing was planted and every value's file exists next to the file as named
     /\ ((o.out = "raise") <=> RefRaises(p)) \/ Say("cwd", k, IF dev # "none" THEN dev ELSE "ref-outcome")
     /\ (CwdRestored(p, r) /\ (~DotDotTextual(p) => (ResolvesInFileDir(p, r.log) /\ (r.exc <=> RefRaises(p))))) \/ Say("cwd", k, "model")
     /\ ((o.out = "raise") <=> r.exc) \/ Say("cwd", k, "alg-outcome")
     /\ (o.out = "ok" => obsres = Resolved(p, r.log)) \/ Say("cwd", k, "alg-resolved")
     /\ (o.chdirs = [j \in 1..Len(ch) |-> ch[j][3]]) \/ Say("cwd", k, "alg-chdirs")

Check == IF i <= NM THEN CheckMode(i) ELSE IF i <= NM + NS THEN CheckStr(i - NM) ELSE CheckCwd(i - NM - NS)
Inv == Check \/ TRUE
=============================================================================
