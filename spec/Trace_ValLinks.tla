--------------------------- MODULE Trace_ValLinks ---------------------------
(* Validation of accept / reject decisions observed on real parsers with argument links (code -> spec).  TRACE_FILE:   *)
(*   [cases |-> list of [v, cfg, outs]]: the variant (see ValLinks.tla), the abstract configuration that was rendered    *)
(*   per channel and the observed "ok" / "err" per channel.                                                             *)
EXTENDS ValLinks, Json, IOUtils, TLCExt
Data == JsonDeserialize(IOEnv.TRACE_FILE)
ToSet(q) == {q[j] : j \in 1..Len(q)}
VARIABLE tidx
Init == tidx \in 1..Len(Data.cases)
Next == UNCHANGED tidx
Say(idx, j, clause) == PrintT(<<"L", idx, j, clause>>)
Check == LET c == Data.cases[tidx]
             cfg == ToSet(c.cfg)
             ref == FOutcome(Decl(c.v), Links(c.v), cfg)
             alg == AlgFOutcome(Decl(c.v), Links(c.v), cfg)
         IN \A j \in 1..Len(c.outs) :
              /\ (c.outs[j].out = ref) \/ Say(tidx, j, IF ref = "err" /\ alg = "ok" /\ c.outs[j].out = "ok" THEN "ref-dev-as-alg" ELSE "ref")
              /\ (c.outs[j].out = alg) \/ Say(tidx, j, "alg")
Inv == Check \/ TRUE
=============================================================================
