---------------------------- MODULE MC_Validate ----------------------------
(* Bounded instance of Validate.tla: one rich parser (required leaf, dotted groups, dataclass and nested dataclass, *)
(* class argument with two subclasses, list of dataclasses, dict, two sub-commands) x a valid configuration x one    *)
(* mutation: a foreign key (several spellings) at every position, or a required key removed / set to null.          *)
EXTENDS Validate, Json, SequencesExt
CONSTANTS Emit

NoMap == << >>
N(kind, req) == [kind |-> kind, req |-> req, of |-> NoMap, req_of |-> NoMap, ord |-> 0]
Sec(n) == [kind |-> "sec", req |-> FALSE, of |-> NoMap, req_of |-> NoMap, ord |-> n]
ClsOf    == ("Sub" :> {<<"arg">>, <<"bval">>, <<"sval">>}) @@ ("Other" :> {<<"arg">>, <<"cval">>}) @@ ("Base" :> {<<"arg">>, <<"bval">>})
ClsReqOf == ("Sub" :> {<<"arg">>}) @@ ("Other" :> {<<"arg">>}) @@ ("Base" :> {<<"arg">>})
Shape ==
     (<<"cfg">> :> N("leaf", FALSE)) @@ (<<"top">> :> N("leaf", TRUE)) @@ (<<"lr">> :> N("leaf", FALSE)) @@ (<<"lr_decay">> :> N("leaf", FALSE))
  @@ (<<"g">> :> N("ns", FALSE)) @@ (<<"g", "alpha">> :> N("leaf", TRUE)) @@ (<<"g", "b">> :> N("ns", FALSE)) @@ (<<"g", "b", "cval">> :> N("leaf", FALSE))
  @@ (<<"dc">> :> N("ns", FALSE)) @@ (<<"dc", "xval">> :> N("leaf", TRUE)) @@ (<<"dc", "yval">> :> N("leaf", FALSE))
  @@ (<<"dc2">> :> N("ns", FALSE)) @@ (<<"dc2", "inner">> :> N("ns", FALSE)) @@ (<<"dc2", "inner", "xval">> :> N("leaf", TRUE))
  @@ (<<"dc2", "inner", "yval">> :> N("leaf", FALSE)) @@ (<<"dc2", "zval">> :> N("leaf", FALSE))
  @@ (<<"model">> :> [kind |-> "cls", req |-> TRUE, of |-> ClsOf, req_of |-> ClsReqOf, ord |-> 0])
  @@ (<<"model2">> :> [kind |-> "cls", req |-> TRUE, of |-> ClsOf, req_of |-> ClsReqOf, ord |-> 0])   \* declared with add_subclass_arguments(required, as_group=False)
  @@ (<<"items">> :> N("list", FALSE)) @@ (<<"items", "#">> :> N("ns", FALSE)) @@ (<<"items", "#", "xval">> :> N("leaf", TRUE)) @@ (<<"items", "#", "yval">> :> N("leaf", FALSE))
  @@ (<<"d">> :> N("dict", FALSE))
  @@ (<<"subcommand">> :> N("leaf", TRUE))
  @@ (<<"fit">> :> Sec(1)) @@ (<<"fit", "epochs">> :> N("leaf", TRUE)) @@ (<<"fit", "opt">> :> N("ns", FALSE)) @@ (<<"fit", "opt", "name">> :> N("leaf", FALSE))
  @@ (<<"test">> :> Sec(2)) @@ (<<"test", "ckpt">> :> N("leaf", FALSE))

E(p, v) == [p |-> p, v |-> v]
Valid(sub, cls) == {E(<<"top">>, "1"), E(<<"g", "alpha">>, "1"), E(<<"dc", "xval">>, "1"), E(<<"dc2", "inner", "xval">>, "1"),
                    E(<<"model", "class_path">>, cls), E(<<"model", "init_args", "arg">>, "1"),
                    E(<<"model2", "class_path">>, "Sub"), E(<<"model2", "init_args", "arg">>, "1"),
                    E(<<"items", "#", "xval">>, "1"), E(<<"items", "#", "yval">>, "1"), E(<<"d", "anykey">>, "1"), E(<<"subcommand">>, sub)}
                   \cup (IF sub = "fit" THEN {E(<<"fit", "epochs">>, "1")} ELSE {E(<<"test", "ckpt">>, "1")})

\* positions where a key can be inserted and, per position, foreign names: unrelated, the list-append spelling, a
\* string prefix of a sibling, a sibling with a suffix, a dotted foreign key
Positions == {<< >>, <<"g">>, <<"g", "b">>, <<"dc">>, <<"dc2">>, <<"dc2", "inner">>, <<"model">>, <<"model", "init_args">>,
              <<"items", "#">>, <<"fit">>, <<"fit", "opt">>, <<"test">>, <<"top">>}
Names(pos, cls) == {<<"zzq">>, <<"zzq+">>, <<"zzq", "deep">>, <<"__note__">>, <<"_zz">>}    \* a foreign key may look private or like a meta key
  \cup (CASE pos = << >> -> {<<"lr_dec">>, <<"lr_decayx">>, <<"topx">>, <<"mod">>, <<"fi">>}
          [] pos = <<"g">> -> {<<"alph">>, <<"alphax">>, <<"bq">>}
          [] pos = <<"g", "b">> -> {<<"cva">>, <<"cvalx">>}
          [] pos = <<"dc">> -> {<<"xva">>, <<"xvalx">>}
          [] pos = <<"dc2">> -> {<<"inne">>, <<"zvalx">>}
          [] pos = <<"dc2", "inner">> -> {<<"xva">>, <<"yvalx">>}
          [] pos = <<"model">> -> {<<"class_pat">>, <<"init_arg">>}
          [] pos = <<"model", "init_args">> -> {<<"ar">>, <<"argx">>, IF cls = "Sub" THEN <<"cval">> ELSE <<"sval">>}   \* a parameter of the OTHER class
          [] pos = <<"items", "#">> -> {<<"xva">>, <<"yvalx">>}
          [] pos = <<"fit">> -> {<<"epoch">>, <<"epochsx">>, <<"ckpt">>}                \* ckpt: an option of the OTHER sub-command
          [] pos = <<"fit", "opt">> -> {<<"nam">>, <<"namex">>}
          [] pos = <<"test">> -> {<<"ckp">>, <<"epochs">>}
          [] pos = <<"top">> -> {<<"sub">>})                                             \* a key below a scalar
Required == {<<"top">>, <<"g", "alpha">>, <<"dc", "xval">>, <<"dc2", "inner", "xval">>, <<"model">>, <<"model", "init_args", "arg">>,
             <<"items", "#", "xval">>, <<"subcommand">>, <<"fit", "epochs">>}

Mut(kind, p, n) == [kind |-> kind, p |-> p, n |-> n]
Mutations(cls) == {Mut("none", << >>, << >>)}
             \cup UNION {{Mut("foreign", pos, n) : n \in Names(pos, cls)} : pos \in Positions}
             \cup {Mut("foreign-empty", pos, <<"zzq">>) : pos \in Positions \ {<<"top">>}}          \* a foreign key whose value is {}
             \cup {Mut("known-in-other-section", <<"test">>, <<"ckpt">>)}
             \cup {Mut(k, r, << >>) : k \in {"remove", "null"}, r \in Required \ {<<"model">>}}
             \cup {Mut("remove", <<"model">>, << >>), Mut("remove", <<"model", "class_path">>, << >>), Mut("remove", <<"model2">>, << >>),
                   Mut("null", <<"model2">>, << >>), Mut("remove", <<"model2", "init_args", "arg">>, << >>)}   \* the second: init_args alone, a valid short form
Apply(cfg, m) ==
  CASE m.kind = "none" -> cfg
    [] m.kind \in {"foreign", "known-in-other-section"} -> cfg \cup {E(m.p \o m.n, "1")}
    [] m.kind = "foreign-empty" -> cfg \cup {E(m.p \o m.n, "emptymap")}
    [] m.kind = "remove" -> {e \in cfg : ~IsPrefix(m.p, e.p)}
    [] m.kind = "null" -> {e \in cfg : ~IsPrefix(m.p, e.p)} \cup {E(m.p, "null")}

VARIABLES base, mut
vars == <<base, mut>>
Init == /\ base \in {<<s, c>> : s \in {"fit", "test"}, c \in {"Sub", "Other"}}
        /\ mut \in Mutations(base[2])
Next == UNCHANGED vars
Spec == Init /\ [][Next]_vars
Cfg == Apply(Valid(base[1], base[2]), mut)

\* C06 at design level: the validation walk reports exactly the reference outcome, except for the recorded deviation
AlgIsRef == ~ForeignOnlyInDroppedSection(Shape, Cfg) => AlgOutcome(Shape, Cfg) = Outcome(Shape, Cfg)
\* the instance is what it claims: the unmutated configuration is valid, every foreign insertion is foreign, every
\* removal / nulling of a key in force makes it missing
ValidIsOk == mut.kind \in {"none", "known-in-other-section"} => Outcome(Shape, Cfg) = "ok"
ForeignIsForeign == mut.kind \in {"foreign", "foreign-empty"} => \E e \in Foreign(Shape, Cfg) : e.p = mut.p \o mut.n
RemovalMatters == (mut.kind \in {"remove", "null"} /\ (mut.p[1] = "fit" => base[1] = "fit") /\ mut.p \notin {<<"subcommand">>, <<"model", "class_path">>}) => Outcome(Shape, Cfg) = "err"
\* removing only the explicit "subcommand" key leaves a section from which the choice is made (C17): still valid
ImplicitChoice == (mut.kind \in {"remove", "null"} /\ mut.p = <<"subcommand">>) => Outcome(Shape, Cfg) = "ok"
\* the deviation is exactly "a foreign key inside the section that was not chosen"
DeviationShape == ForeignOnlyInDroppedSection(Shape, Cfg) => (mut.kind = "foreign-empty" \/ (mut.kind = "foreign" /\ Len(mut.p) >= 1 /\ mut.p[1] \in {"fit", "test"} /\ base[1] # mut.p[1]))

CfgSeq == LET q == SetToSeq(Cfg) IN [j \in 1..Len(q) |-> [p |-> q[j].p, v |-> q[j].v]]
EmitCase == Emit => PrintT(ToJson([base |-> base, mut |-> mut, cfg |-> CfgSeq, ref |-> Outcome(Shape, Cfg), alg |-> AlgOutcome(Shape, Cfg),
                                   dev |-> ForeignOnlyInDroppedSection(Shape, Cfg), devkind |-> DevKind(Shape, Cfg)]))
ShapeSeq == LET q == SetToSeq(DOMAIN Shape) IN [j \in 1..Len(q) |-> [path |-> q[j], kind |-> Shape[q[j]].kind, req |-> Shape[q[j]].req, ord |-> Shape[q[j]].ord]]
ASSUME Emit => PrintT(ToJson([shape |-> ShapeSeq]))
=============================================================================
