INIT InitCase
NEXT NextCase
CONSTANTS
  MaxFlat = 4
  FullPermsUpTo = 3
  AllKindsUpTo = 3
  MaxDeepLinks = 3
  DeepFull = TRUE
  Emit = TRUE
INVARIANT AddRefinesRef
INVARIANT AlgRefinesRef
INVARIANT DeviationExact
INVARIANT UnreachableExact
INVARIANT PlanSane
INVARIANT TargetNodeIsObject
INVARIANT ShapeSane
INVARIANT EmitCase
CHECK_DEADLOCK FALSE
