SPECIFICATION Spec
CONSTANTS
  MinClasses = 1
  MaxClasses = 2
  MroOnly = FALSE
  AscBases = TRUE
  MaxOwn = 1
  MaxHard = 1
  MaxPop = 1
  PopClasses = 2
  AttrClasses = 2
  B1 = 3
  B2 = 2
  B3 = 2
  B4 = 0
  B5 = 0
  MaxChain = 2
  FnOwn = 1
  BFn = 3
  EmitAllUpTo = 0
  Sel = 20
  CondSel = 20
  AltMode = 2
  KeepGoing = TRUE
INVARIANT Inv
CHECK_DEADLOCK FALSE
