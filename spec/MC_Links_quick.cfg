INIT InitMask
NEXT NextMask
CONSTANTS
  N = 4
  SelfLoops = FALSE
  Emit = TRUE
  SeqMode = FALSE
INVARIANT AlgRefinesRef
INVARIANT AlgRefinesRefOp
INVARIANT GraphRepresents
INVARIANT RefLaws
INVARIANT EmitCase
CHECK_DEADLOCK FALSE
