SPECIFICATION Spec
CONSTANTS
  MaxItems = 2
  Wide = TRUE
  Emit = TRUE
INVARIANT XStylesAgree
INVARIANT NoneStaysNone
INVARIANT RequiredEnforced
INVARIANT SpellingFree
INVARIANT EmitCase
CHECK_DEADLOCK FALSE
