----------------------------- MODULE LinksParse -----------------------------
(***************************************************************************)
(* Argument links applied on parse (property C15).                         *)
(*                                                                         *)
(* A parser shape has the plain arguments a, b (int), the class group      *)
(* g (x, y : int), and -- depending on its links -- the link targets       *)
(*    t   a plain int argument (required or with a default)                *)
(*    d   a plain Dict[str,int] argument                                   *)
(*    m   a class argument (mkind "init": type Base), a list of class      *)
(*        arguments ("list": List[Base]) or a class group ("grp":          *)
(*        add_class_arguments(Base, "m")); the target is its parameter p   *)
(* Classes: Base(p, q), Sub(Base)(p, q, r), NoP(Base)(q) -- NoP does not   *)
(* define the targeted parameter.  With req the targets have no default.   *)
(* A link is [srcs, fn, tgt]: srcs over {"a","b","g","o","s","sl"}, tgt in *)
(* {"t","d","mp"}, fn one of the injective compute functions below.        *)
(* Optional sources: o is a plain Optional[Union[int,str,List[int]]]       *)
(* argument (default None); s is an Optional[Src] class argument (default  *)
(* None) with Src(limit = None, q), SrcSub(Src)(limit = 5, q) and          *)
(* SrcNoL(Src)(q); "sl" is its init_arg s.init_args.limit, "s" the whole   *)
(* argument.  Their values range over None, 0, 3, '' and [].               *)
(* The enclosing spec m can also come from its own file (chan "file": the  *)
(* option is given the path; "cfgfile": a main config file names it), so   *)
(* that it carries __path__ and save() writes it as a sub-config file.     *)
(*                                                                         *)
(* Round 4: partial compute functions (par, paro, linp: FnDefined) and the  *)
(* two-source lino; shape.ap (the parser is used through ActionParser);    *)
(* the channel "dcf" (a default config file of the parser); AlgDumpSD      *)
(* (dump(skip_default=True)); histories (Changed / HistOK / AlgHist: the   *)
(* sources of the returned namespace are edited, the namespace is parsed   *)
(* again).  Named deviations: ListItemsKeepTarget, ApDropsLinks,           *)
(* SubEnvRaises, DcfRaises (findings of C15).                              *)
(*                                                                         *)
(* Ref   what the property states about an observed outcome (TargetEq,     *)
(*       NotRequired, PlainOptionRejected, DumpHidesTarget, Reconstructed) *)
(* Alg   ActionLink.__init__/__call__ (_link_arguments.py:112-259),        *)
(*       apply_parsing_links (:274-325), set_target_value (:387-406),      *)
(*       strip_link_target_keys (:450-472), _parse_common (_core.py:       *)
(*       377-384), dump (_core.py:786-788); the rest of the parse pipeline *)
(*       is the fold of the supplied items in precedence order.            *)
(***************************************************************************)
EXTENDS Naturals, Sequences, FiniteSets, TLC

\* ------------------------------------------------------------------ values (tagged: the tag decides equality first)
Int(n)       == [k |-> "int", v |-> n]
Absent       == [k |-> "absent"]                      \* the key is not in the namespace
NoneV        == [k |-> "none"]
DictV(x, y)  == [k |-> "dict", x |-> x, y |-> y]      \* {"x": x, "y": y}
NsV(x, y)    == [k |-> "ns", x |-> x, y |-> y]        \* Namespace(x=x, y=y): a group-valued source
ClsV(c, ia)  == [k |-> "cls", c |-> c, ia |-> ia]     \* class_path + init_args (a function parameter -> value)
ListV(items) == [k |-> "list", v |-> items]
GrpV(ia)     == [k |-> "grp", ia |-> ia]              \* the namespace of a class group
StrE         == [k |-> "str", v |-> ""]               \* the empty string
EList        == [k |-> "elist"]                       \* the empty list
PathV        == [k |-> "path"]                        \* the value carries __path__ (it was loaded from its own file)
RefV         == [k |-> "ref"]
\* (round 5) n: a class argument Model(aug, q) whose parameter aug holds a NESTED value: a dataclass AugD(seed, r = 0)
\* (shape.nkind "dco": aug: Optional[AugD] = None; "dcp": aug: AugD) or a class InnerC(seed, r = 0) ("deep": aug: InnerC).
\* The link target "np" is the MANDATORY field seed of that nested value (n.init_args.aug.seed, for "deep"
\* n.init_args.aug.init_args.seed).  inner = NoneV (aug is None / not there) or InV(ia), ia over a subset of {"seed", "r"}.
InV(ia)      == [k |-> "in", ia |-> ia]
NestV(q, inner) == [k |-> "nest", q |-> q, inner |-> inner]                         \* in a saved main file: the name of a sub-config file

Params(c) == CASE c = "Base" -> {"p", "q"} [] c = "Sub" -> {"p", "q", "r"} [] c = "NoP" -> {"q"}
               [] c \in {"Src", "SrcSub"} -> {"limit", "q"} [] c = "SrcNoL" -> {"q"} [] OTHER -> {}
Put(f, x, v) == [y \in DOMAIN f \cup {x} |-> IF y = x THEN v ELSE f[y]]
Drop(f, x)   == [y \in DOMAIN f \ {x} |-> f[y]]

\* ------------------------------------------------------------------ shapes, links, compute functions
Targets(shape)   == {shape.links[i].tgt : i \in DOMAIN shape.links}
HasM(shape)      == "mp" \in Targets(shape)
HasN(shape)      == "np" \in Targets(shape)
SourcesOf(shape) == UNION {{shape.links[i].srcs[j] : j \in DOMAIN shape.links[i].srcs} : i \in DOMAIN shape.links}
HasS(shape)      == SourcesOf(shape) \cap {"s", "sl"} # {}
HasO(shape)      == "o" \in SourcesOf(shape)
\* the compute functions are injective on the value domain, and not symmetric
RECURSIVE FnApply(_, _)
FnApply(fn, args) ==
  CASE fn = "id"     -> args[1]                                           \* no compute function: the source itself
    [] fn = "one"    -> Int(10 * args[1].v + 7)
    [] fn = "lin"    -> Int(10 * args[1].v + args[2].v)
    [] fn = "grp"    -> Int(10 * args[1].x + args[1].y)                   \* receives the Namespace of the group
    [] fn = "asdict" -> DictV(args[1].x, args[1].y)                       \* no function, mapping-typed target: as_dict (:305-310)
    \* total on the Optional domain: None, '', [] and the integers get different results
    [] fn = "tot"    -> (CASE args[1].k = "none" -> Int(91) [] args[1].k = "str" -> Int(92) [] args[1].k = "elist" -> Int(93)
                           [] OTHER -> Int(10 * args[1].v + 7))
    \* of a whole Optional[Class] argument: None, or which class
    [] fn = "cls"    -> (CASE args[1].k = "none" -> Int(94) [] args[1].c = "Src" -> Int(1) [] args[1].c = "SrcSub" -> Int(2) [] OTHER -> Int(3))
    \* (round 4) partial functions: the call raises outside their domain (see FnDefined)
    [] fn = "par"    -> Int(10 * args[1].v + 7)                           \* raises ValueError when its argument is 3
    [] fn = "paro"   -> Int(10 * args[1].v + 7)                           \* v * 10 + 7: TypeError for None, '' and []
    [] fn = "linp"   -> Int(10 * args[1].v + args[2].v)                   \* v * 10 + a: TypeError unless v is an integer
    \* (round 4) several sources, the first one Optional, total: tot(v) * 10 + a
    [] fn = "lino"   -> Int(10 * FnApply("tot", <<args[1]>>).v + args[2].v)
\* the compute function returns (does not raise) on these arguments
FnDefined(fn, args) == CASE fn = "par" -> args[1].v # 3
                         [] fn \in {"paro", "linp"} -> args[1].k = "int"
                         [] OTHER -> TRUE
SrcVal(c, s) == IF s = "g" THEN NsV(c.gx.v, c.gy.v) ELSE IF s = "sl" THEN c.s.ia["limit"] ELSE c[s]
\* a source inside a class argument exists only if the argument holds a class that defines it; a source whose value
\* is None (or 0, '', []) does exist
SourceExists(c, s) == s # "sl" \/ (c.s.k = "cls" /\ "limit" \in DOMAIN c.s.ia)
Live(c, l)     == \A j \in DOMAIN l.srcs : SourceExists(c, l.srcs[j])
ArgsOf(c, l)   == [j \in DOMAIN l.srcs |-> SrcVal(c, l.srcs[j])]
Expected(c, l) == FnApply(l.fn, ArgsOf(c, l))
\* some live link's compute function raises on the source values of c
Raising(shape, c) == \E i \in DOMAIN shape.links : Live(c, shape.links[i]) /\ ~FnDefined(shape.links[i].fn, ArgsOf(c, shape.links[i]))

\* ------------------------------------------------------------------ Ref
\* every instance of the target that exists in c holds the function of the FINAL source values
\* (a link whose source does not exist is ignored: the property says nothing about its target then)
TargetEqLink(shape, c, l) ==
  LET e == Expected(c, l) IN
  CASE ~Live(c, l) -> TRUE
    [] ~FnDefined(l.fn, ArgsOf(c, l)) -> FALSE      \* the function raises on these sources: no successful parse may hold them
    [] l.tgt \in {"t", "d"} -> c[l.tgt] = e
    [] l.tgt = "mp" ->
         CASE c.m.k = "grp"  -> "p" \in DOMAIN c.m.ia /\ c.m.ia["p"] = e
           [] c.m.k = "cls"  -> ("p" \in Params(c.m.c)) => ("p" \in DOMAIN c.m.ia /\ c.m.ia["p"] = e)
           [] c.m.k = "list" -> \A n \in DOMAIN c.m.v : ("p" \in Params(c.m.v[n].c)) => ("p" \in DOMAIN c.m.v[n].ia /\ c.m.v[n].ia["p"] = e)
           [] OTHER          -> TRUE                                   \* m is None: there is no target
    \* (round 5) the nested value exists => its field seed holds the function of the sources
    [] l.tgt = "np" -> (c.n.k = "nest" /\ c.n.inner.k = "in") => ("seed" \in DOMAIN c.n.inner.ia /\ c.n.inner.ia["seed"] = e)
TargetEq(shape, c) == \A i \in DOMAIN shape.links : TargetEqLink(shape, c, shape.links[i])

\* an item supplies a value for the target itself (directly or inside the enclosing spec)
GivesP(spec) == "p" \in DOMAIN spec.given
SuppliesTarget(it) ==
  \/ it.key \in {"t", "d", "mp"}
  \/ it.key = "n" /\ it.val.inner.k = "in" /\ "seed" \in DOMAIN it.val.inner.ia
  \/ it.key = "m"  /\ (IF it.val.k = "specs" THEN \E n \in DOMAIN it.val.v : GivesP(it.val.v[n]) ELSE GivesP(it.val))
\* the option of a plain-argument target (t, d, or the parameter of a class group) is used on the command line
UsesPlainOption(shape, it) == it.chan = "argv" /\ (it.key \in {"t", "d"} \/ (it.key = "mp" /\ shape.mkind = "grp"))

\* (RefParseOK is stated below, after the fold of the supplied items which gives the final source values)
\* the dump of c: the targets do not appear (dump = the configuration read back from the dump text)
HidesTargetLink(dump, l) ==
  CASE l.tgt \in {"t", "d"} -> dump[l.tgt] = Absent
    [] l.tgt = "mp" -> CASE dump.m.k \in {"grp", "cls"} -> "p" \notin DOMAIN dump.m.ia
                         [] dump.m.k = "list" -> \A n \in DOMAIN dump.m.v : "p" \notin DOMAIN dump.m.v[n].ia
                         [] OTHER -> TRUE
    [] l.tgt = "np" -> (dump.n.k = "nest" /\ dump.n.inner.k = "in") => "seed" \notin DOMAIN dump.n.inner.ia
DumpHidesTarget(shape, dump) == \A i \in DOMAIN shape.links : HidesTargetLink(dump, shape.links[i])
\* re-parsing the dump gives the targets back
TargetsOf(shape, c) == [i \in DOMAIN shape.links |->
   LET l == shape.links[i] IN
   IF ~Live(c, l) THEN <<"ignored">>
   ELSE IF l.tgt \in {"t", "d"} THEN <<c[l.tgt]>>
   ELSE IF l.tgt = "np" THEN (IF c.n.k = "nest" /\ c.n.inner.k = "in" THEN <<IF "seed" \in DOMAIN c.n.inner.ia THEN c.n.inner.ia["seed"] ELSE Absent>> ELSE << >>)
   ELSE IF c.m.k \in {"grp", "cls"} THEN <<IF "p" \in DOMAIN c.m.ia THEN c.m.ia["p"] ELSE Absent>>
   ELSE IF c.m.k = "list" THEN [n \in DOMAIN c.m.v |-> IF "p" \in DOMAIN c.m.v[n].ia THEN c.m.v[n].ia["p"] ELSE Absent]
   ELSE << >>]
\* (the targets come back provided the text preserved the sources -- that is C01's property, and dump(skip_none=True)
\* does lose an explicit None whose default is not None; C15 asks that the links are applied again to what is read)
LiveSources(shape, c) == [i \in DOMAIN shape.links |-> IF Live(c, shape.links[i])
                                                          THEN [j \in DOMAIN shape.links[i].srcs |-> SrcVal(c, shape.links[i].srcs[j])] ELSE <<"ignored">>]
Reconstructed(shape, c, re) == /\ re.ok /\ TargetEq(shape, re.c)
                               /\ LiveSources(shape, re.c) = LiveSources(shape, c) => TargetsOf(shape, re.c) = TargetsOf(shape, c)
\* save(): no written file contains a target.  main = the configuration read back from the main file (m may be the
\* name of a sub-config file), sub = what the sub-config file of m holds (Absent if none was written)
SaveHidesTarget(shape, main, sub) ==
  /\ DumpHidesTarget(shape, IF main.m.k = "ref" THEN [main EXCEPT !.m = NoneV] ELSE main)
  /\ HasM(shape) => (sub.k \in {"grp", "cls"} => "p" \notin DOMAIN sub.ia)

\* link creation (_initial_input_checks:234-255): no chains, no double targets
\* created = the keys of the links accepted so far, as [srcs, tgt]; a new link [srcs, tgt] must be rejected iff ...
RefLinkAllowed(created, new) ==
  /\ \A i \in DOMAIN created : created[i].tgt # new.tgt                                               \* already a target
  /\ \A i \in DOMAIN created : \A j \in DOMAIN new.srcs : new.srcs[j] # created[i].tgt               \* source is a target
  /\ \A i \in DOMAIN created : \A j \in DOMAIN created[i].srcs : created[i].srcs[j] # new.tgt        \* target is a source
  /\ \A j \in DOMAIN new.srcs : new.srcs[j] # new.tgt

(***************************************************************************)
(* Alg                                                                     *)
(***************************************************************************)
\* ActionLink.__init__:160-188 -- the target action is replaced by the link action (default SUPPRESS, :217-224), the
\* target leaves required_args (:181-182), a target inside a class argument is registered in linked_targets
\* (:183-188) so that the class parser neither requires it (_typehints.py:653-656, _signatures.py:355-358: default None)
DefaultIA(shape, c) == [x \in Params(c) |-> IF x = "p" THEN (IF shape.req THEN NoneV ELSE Int(0))
                                             ELSE IF x = "limit" THEN (IF c = "SrcSub" THEN Int(5) ELSE NoneV) ELSE Int(0)]
Defaults(shape) ==
  [a |-> Int(1), b |-> Int(2), gx |-> Int(1), gy |-> Int(2),
   t |-> Absent, d |-> Absent,                                              \* link targets have no default of their own
   m |-> IF ~HasM(shape) THEN Absent
         ELSE IF shape.mkind = "grp" THEN GrpV([x \in {"q"} |-> Int(0)])    \* the linked parameter p is not in the defaults
         ELSE NoneV,
   s |-> IF HasS(shape) THEN NoneV ELSE Absent, o |-> IF HasO(shape) THEN NoneV ELSE Absent,
   n |-> IF HasN(shape) THEN NoneV ELSE Absent,                            \* (round 5) a class argument: default None
   mpath |-> Absent]                                                        \* meta: m carries __path__
Err == [ok |-> FALSE, c |-> Defaults([links |-> << >>, mkind |-> "init", nkind |-> "dco", req |-> FALSE, sub |-> FALSE, ap |-> FALSE])]
Ok(c) == [ok |-> TRUE, c |-> c]

\* a class spec item: [k |-> "spec", c |-> class, given |-> init_args given].  While the sources are merged a class
\* value holds only the init_args that were GIVEN; on a change of class the given ones that the new class accepts are
\* kept (discard_init_args_on_class_path_change).  The defaults of the class are filled in afterwards
\* (ActionTypeHint.add_sub_defaults, _core.py:371-373) -- before the links are applied.
NewCls(shape, prev, spec) ==
  LET old == IF prev.k = "cls" THEN prev.ia ELSE << >> IN
  ClsV(spec.c, [x \in Params(spec.c) \cap (DOMAIN spec.given \cup DOMAIN old) |-> IF x \in DOMAIN spec.given THEN spec.given[x] ELSE old[x]])
FreshCls(shape, spec) == NewCls(shape, NoneV, spec)
FillCls(shape, v) == ClsV(v.c, [x \in Params(v.c) |-> IF x \in DOMAIN v.ia THEN v.ia[x] ELSE DefaultIA(shape, v.c)[x]])
\* (round 5) the defaults of the nested value: r = 0; the mandatory field seed is a linked target (the parser of the
\* parameter is told so: adapt_class_type, _typehints.py:1383-1398; _signatures.py:355-358) and is not required.  A
\* mandatory parameter aug (dcp: a dataclass, expanded into the class parser) exists even when nothing was given for it.
FillN(shape, v) ==
  IF v.k # "nest" THEN v
  ELSE LET inn == IF v.inner.k = "in" THEN v.inner ELSE IF shape.nkind = "dcp" THEN InV(<< >>) ELSE v.inner
       IN NestV(v.q, IF inn.k = "in" THEN InV([x \in DOMAIN inn.ia \cup {"r"} |-> IF x \in DOMAIN inn.ia THEN inn.ia[x] ELSE Int(0)]) ELSE inn)
AddSubDefaults(shape, c) ==
  [c EXCEPT !.n = FillN(shape, @), !.s = IF c.s.k = "cls" THEN FillCls(shape, c.s) ELSE c.s,
            !.m = IF c.m.k = "cls" THEN FillCls(shape, c.m)
                  ELSE IF c.m.k = "list" THEN ListV([n \in DOMAIN c.m.v |-> FillCls(shape, c.m.v[n])]) ELSE c.m]
\* one supplied item; r = [ok, c]
Assign(shape, c, it) ==
  CASE it.key \in {"a", "b", "gx", "gy"} -> Ok([c EXCEPT ![it.key] = it.val])
    [] it.key \in {"t", "d"} ->
         IF it.chan = "argv" THEN Err                                       \* ActionLink.__call__:257-259
         ELSE Ok([c EXCEPT ![it.key] = it.val])                             \* checked against the target's type, kept until the links run
    [] it.key \in {"o"} -> Ok([c EXCEPT !.o = it.val])
    [] it.key = "n" -> Ok([c EXCEPT !.n = NestV(Int(0), it.val.inner)])       \* (round 5; at most one such item per case)
    [] it.key = "s" -> Ok([c EXCEPT !.s = IF it.val.k = "null" THEN NoneV ELSE NewCls(shape, c.s, it.val)])
    [] it.key = "sl" ->        \* --s.limit=v: the declared class itself when s is None; an error if the class has no limit
         LET cur == IF c.s.k = "cls" THEN c.s ELSE FreshCls(shape, [c |-> "Src", given |-> << >>]) IN
         IF "limit" \in Params(cur.c) THEN Ok([c EXCEPT !.s = ClsV(cur.c, Put(cur.ia, "limit", it.val))]) ELSE Err
    [] it.key = "m" /\ it.chan \in {"file", "cfgfile"} ->        \* the spec comes from its own file: __path__ stays from now on
         IF shape.mkind = "init" THEN Ok([c EXCEPT !.m = NewCls(shape, c.m, it.val), !.mpath = PathV])
         ELSE Ok([c EXCEPT !.m = GrpV([x \in DOMAIN c.m.ia \cup DOMAIN it.val.given |->
                                         IF x \in DOMAIN it.val.given THEN it.val.given[x] ELSE c.m.ia[x]]), !.mpath = PathV])
    [] it.key = "m" /\ it.chan \notin {"file", "cfgfile"} ->
         (CASE shape.mkind = "init" -> Ok([c EXCEPT !.m = NewCls(shape, c.m, it.val)])
            \* a list replaces the list; when the lengths agree item n keeps the init_args of the previous item n that
            \* its class accepts (_typehints.py:894-895)
            [] shape.mkind = "list" -> Ok([c EXCEPT !.m = ListV([n \in DOMAIN it.val.v |->
                                             NewCls(shape, IF c.m.k = "list" /\ Len(c.m.v) = Len(it.val.v) THEN c.m.v[n] ELSE NoneV, it.val.v[n])])])
            [] shape.mkind = "grp"  -> Ok([c EXCEPT !.m = GrpV([x \in DOMAIN c.m.ia \cup DOMAIN it.val.given |->
                                                                IF x \in DOMAIN it.val.given THEN it.val.given[x] ELSE c.m.ia[x]])]))
    [] it.key = "mq" ->
         IF shape.mkind = "grp" THEN Ok([c EXCEPT !.m = GrpV(Put(c.m.ia, "q", it.val))])
         ELSE LET cur == IF c.m.k = "cls" THEN c.m ELSE FreshCls(shape, [c |-> "Base", given |-> << >>])   \* the declared class itself
              IN Ok([c EXCEPT !.m = ClsV(cur.c, Put(cur.ia, "q", it.val))])
    [] it.key = "mp" ->
         IF shape.mkind = "grp" THEN (IF it.chan = "argv" THEN Err                                       \* :257-259
                                      ELSE Ok([c EXCEPT !.m = GrpV(Put(c.m.ia, "p", it.val))]))
         ELSE LET cur == IF c.m.k = "cls" THEN c.m ELSE FreshCls(shape, [c |-> "Base", given |-> << >>]) IN
              IF "p" \in Params(cur.c) THEN Ok([c EXCEPT !.m = ClsV(cur.c, Put(cur.ia, "p", it.val))]) ELSE Err
RECURSIVE Fold(_, _, _, _)
Fold(shape, r, items, n) == IF ~r.ok \/ n > Len(items) THEN r ELSE Fold(shape, Assign(shape, r.c, items[n]), items, n + 1)

\* set_target_value:387-406
SetTargetValue(shape, c, l, value) ==
  IF l.tgt = "np" THEN (IF c.n.k = "nest" /\ c.n.inner.k = "in" THEN [c EXCEPT !.n = NestV(@.q, InV(Put(@.inner.ia, "seed", value)))]   \* :406
                        ELSE c)                                                                     \* :403-405 target not found
  ELSE IF l.tgt \in {"t", "d"} THEN [c EXCEPT ![l.tgt] = value]                                   \* :406
  ELSE IF shape.mkind = "grp" THEN [c EXCEPT !.m = GrpV(Put(c.m.ia, "p", value))]             \* not a subclass type: :406
  ELSE IF c.m.k = "list" /\ \E n \in DOMAIN c.m.v : "p" \in DOMAIN c.m.v[n].ia               \* :398
       THEN [c EXCEPT !.m = ListV([n \in DOMAIN c.m.v |-> IF "p" \in DOMAIN c.m.v[n].ia       \* :399-402
                                                          THEN ClsV(c.m.v[n].c, Put(c.m.v[n].ia, "p", value)) ELSE c.m.v[n]])]
  ELSE IF ~(c.m.k = "cls" /\ "p" \in DOMAIN c.m.ia) THEN c                                    \* :403-405 "ignored since target not found"
  ELSE [c EXCEPT !.m = ClsV(c.m.c, Put(c.m.ia, "p", value))]                                  \* :406
\* apply_parsing_links:283-324, the links in the order they were created
\* (a compute function that raises: call_compute_fn:264-271 turns it into ValueError, _parse_common:379-382 into
\* parser.error -- the parse fails as a whole, whatever the links before it did to the working namespace)
RECURSIVE ApplyParsingLinks(_, _, _)
ApplyParsingLinks(shape, c, i) ==
  IF i > Len(shape.links) THEN Ok(c)
  ELSE LET l == shape.links[i]
           args == [j \in DOMAIN l.srcs |-> SrcVal(c, l.srcs[j])]                            \* :286-297
       IN IF ~Live(c, l) THEN ApplyParsingLinks(shape, c, i + 1)      \* :289-294,298-299 `source_key not in cfg`: the link is ignored
          ELSE IF ~FnDefined(l.fn, args) THEN Err                                             \* :264-271, _core.py:379-382
          ELSE ApplyParsingLinks(shape, SetTargetValue(shape, c, l, FnApply(l.fn, args)), i + 1)   \* :301-323
\* validate / check_required (_core.py:1097-1106): the plain targets were removed from required_args, and they have a value by now
Validate(shape, r) == r

\* the sources after every supplied item was merged and the class defaults were filled in (_core.py:371-373), i.e.
\* the configuration the links are applied to
Pre(shape, items) ==
  LET r == Fold(shape, Ok(Defaults(shape)), items, 1) IN IF ~r.ok THEN Err ELSE Ok(AddSubDefaults(shape, r.c))
\* _parse_common:377-384 after the sources were merged (a sub-command parser applies its own links, :278-280)
\* (round 4) shape.ap: the parser that declares the links is used through ActionParser.  _move_parser_actions
\* (_actions.py:540-595) moves its actions -- the link actions included -- into the parent, but not its _links_group,
\* so apply_parsing_links returns at :281-282 (`not hasattr(parser, "_links_group")`): NO link is applied.  The moved
\* link actions still reject their option (:257-259) and still keep the targets out of required_args.  This is the
\* recorded deviation ApDropsLinks (finding C15 actionparser-drops-links).
\* (round 4) shape.sub: handle_subcommands (_actions.py:792-804) first parses the sub-command parser's OWN defaults and
\* environment (subparser.parse_env -> _parse_common -> apply_parsing_links, :798) and only then merges the settings given
\* on the command line / in a config / in the object over them: the compute functions are called on those NON-FINAL
\* source values too, and one that raises there fails the whole parse although the final values are fine.  Recorded
\* deviation SubEnvRaises (finding C15 fn-called-on-nonfinal-sources:subcommand-env).
EnvItems(items) == SelectSeq(items, LAMBDA it : it.chan = "env")
SubEnvRaises(shape, items) == shape.sub /\ LET r == Pre(shape, EnvItems(items)) IN r.ok /\ Raising(shape, r.c)
\* (round 4) items of the channel "dcf" come from a default config file of the parser (they are merged first).
\* get_defaults (_core.py:1036-1058) runs _parse_common -- hence apply_parsing_links -- on the declared defaults merged
\* with the file, i.e. again on NON-FINAL source values: a compute function that raises there makes every parse fail
\* ("Problem in default config file") even when the final values are fine.  Recorded deviation DcfRaises (finding C15
\* fn-called-on-nonfinal-sources:default-config-file).
DcfItemsOf(items) == SelectSeq(items, LAMBDA it : it.chan = "dcf")
DcfRaises(shape, items) == ~shape.sub /\ DcfItemsOf(items) # << >> /\ LET r == Pre(shape, DcfItemsOf(items)) IN r.ok /\ Raising(shape, r.c)
AlgParse(shape, items) ==
  LET r == Pre(shape, items) IN
  IF ~r.ok THEN Err ELSE IF shape.ap THEN r
  ELSE IF SubEnvRaises(shape, items) \/ DcfRaises(shape, items) THEN Err
  ELSE Validate(shape, ApplyParsingLinks(shape, r.c, 1))

\* ------------------------------------------------------------------ Ref: one parse.  out = [ok |-> BOOLEAN, c |-> configuration]
\* (the FINAL source values of a failed parse are not observable: they are the fold of the supplied items, which is the
\* part of the pipeline that other properties check)
RaisesOn(shape, items) == LET r == Pre(shape, items) IN r.ok /\ Raising(shape, r.c)
RefParseOK(shape, items, out) ==
  /\ out.ok => TargetEq(shape, out.c)                                                         \* the invariant
  /\ (\E n \in DOMAIN items : UsesPlainOption(shape, items[n])) => ~out.ok                     \* option rejected
  /\ ((\A n \in DOMAIN items : ~SuppliesTarget(items[n])) /\ ~RaisesOn(shape, items)) => out.ok  \* target not required
  /\ RaisesOn(shape, items) => ~out.ok                     \* a compute function that raises is a parse error

\* strip_link_target_keys:450-472 (called by dump, _core.py:787-788)
\*   :459-460  link actions that replaced a plain action: pop the key (a parent left empty is deleted, :456-457)
\*   :463-465  linked_targets of class arguments: pop <dest>.init_args.p -- on a LIST value Namespace.pop finds nothing:
\*             the recorded deviation ListItemsKeepTarget (finding C15 dump-keeps-target:list-item)
\*   (shape.ap: the moved link action still names its target without the prefix of the ActionParser argument, so :459-460
\*   pops nothing; the linked_targets of a class argument are found through action.dest, which was prefixed)
StripLink(shape, c, l) ==
  IF l.tgt = "np" THEN (IF c.n.k = "nest" /\ c.n.inner.k = "in" THEN [c EXCEPT !.n = NestV(@.q, InV(Drop(@.inner.ia, "seed")))] ELSE c)   \* :463-465
  ELSE IF shape.ap /\ (l.tgt \in {"t", "d"} \/ c.m.k = "grp") THEN c
  ELSE IF l.tgt \in {"t", "d"} THEN [c EXCEPT ![l.tgt] = Absent]
  ELSE IF c.m.k = "grp" THEN [c EXCEPT !.m = GrpV(Drop(c.m.ia, "p"))]
  ELSE IF c.m.k = "cls" THEN [c EXCEPT !.m = ClsV(c.m.c, Drop(c.m.ia, "p"))]
  ELSE c
RECURSIVE StripLinkTargets(_, _, _)
StripLinkTargets(shape, c, i) == IF i > Len(shape.links) THEN c ELSE StripLinkTargets(shape, StripLink(shape, c, shape.links[i]), i + 1)
\* dump(skip_none=True) (_core.py:808-833): entries whose value is None are left out, the meta keys are not dumped
NotNone(ia) == [x \in {y \in DOMAIN ia : ia[y] # NoneV} |-> ia[x]]
SkipNone(c) == [c EXCEPT !.s = IF c.s.k = "cls" THEN ClsV(c.s.c, NotNone(c.s.ia)) ELSE c.s,
                         !.m = IF c.m.k = "cls" THEN ClsV(c.m.c, NotNone(c.m.ia))
                               ELSE IF c.m.k = "grp" THEN GrpV(NotNone(c.m.ia))
                               ELSE IF c.m.k = "list" THEN ListV([n \in DOMAIN c.m.v |-> ClsV(c.m.v[n].c, NotNone(c.m.v[n].ia))])
                               ELSE c.m,
                         !.mpath = Absent]
AlgDump(shape, c) == SkipNone(StripLinkTargets(shape, c, 1))
ListItemsKeepTarget(shape, c) == HasM(shape) /\ c.m.k = "list" /\ \E n \in DOMAIN c.m.v : "p" \in DOMAIN c.m.v[n].ia /\ c.m.v[n].ia["p"] # NoneV
\* save(multifile=True) (_core.py:923-958): strip the targets of a clone (:925-926), write every value that carries
\* __path__ into its own file (:929-947, the meta stripped, nothing else left out) and its name into the main file,
\* which is then dumped (:956-958).  save(multifile=False) is dump() (:918-921).
AlgSaveMulti(shape, c) ==
  LET st == StripLinkTargets(shape, c, 1) IN
  IF c.mpath = PathV /\ st.m.k \in {"grp", "cls"} THEN [main |-> [SkipNone(st) EXCEPT !.m = RefV], sub |-> st.m]
  ELSE [main |-> SkipNone(st), sub |-> Absent]
\* re-parsing a dump / a saved main file: every key of the text is a config item (a sub-config file is loaded again,
\* so m carries __path__ again)
SpecOf(cv) == [k |-> "spec", c |-> cv.c, given |-> cv.ia]
MItems(chan, mv) ==
  IF mv.k = "cls" THEN <<[chan |-> chan, key |-> "m", val |-> SpecOf(mv)]>>
  ELSE IF mv.k = "list" THEN <<[chan |-> chan, key |-> "m", val |-> [k |-> "specs", v |-> [n \in DOMAIN mv.v |-> SpecOf(mv.v[n])]]]>>
  ELSE IF mv.k = "grp" THEN <<[chan |-> chan, key |-> "m", val |-> [k |-> "spec", c |-> "Base", given |-> mv.ia]]>>
  ELSE << >>
PlainItems(dump) ==
  LET Cfg(key, val) == [chan |-> "cfg", key |-> key, val |-> val] IN
  \* (a plain key that dump(skip_default=True) left out reads as None)
  (IF dump.a = NoneV THEN << >> ELSE <<Cfg("a", dump.a)>>) \o (IF dump.b = NoneV THEN << >> ELSE <<Cfg("b", dump.b)>>)
  \o (IF dump.gx = NoneV THEN << >> ELSE <<Cfg("gx", dump.gx)>>) \o (IF dump.gy = NoneV THEN << >> ELSE <<Cfg("gy", dump.gy)>>)
  \o (IF dump.o.k \in {"absent", "none"} THEN << >> ELSE <<Cfg("o", dump.o)>>)
  \o (IF dump.s.k = "cls" THEN <<Cfg("s", SpecOf(dump.s))>> ELSE << >>)
  \o (IF dump.t.k = "absent" THEN << >> ELSE <<Cfg("t", dump.t)>>) \o (IF dump.d.k = "absent" THEN << >> ELSE <<Cfg("d", dump.d)>>)   \* (only under ApDropsLinks)
NItems(chan, nv) == IF nv.k = "nest" THEN <<[chan |-> chan, key |-> "n", val |-> [k |-> "nspec", inner |-> nv.inner]]>> ELSE << >>
DumpItems(shape, dump) == PlainItems(dump) \o MItems("cfg", dump.m) \o NItems("cfg", dump.n)
\* (pre = the items of the parser's default config file: the same parser reads it again)
AlgReparse(shape, pre, dump) == AlgParse(shape, pre \o DumpItems(shape, dump))
AlgSaveReparse(shape, pre, sv) ==
  AlgParse(shape, pre \o PlainItems(sv.main) \o (IF sv.main.m.k = "ref" THEN MItems("cfgfile", sv.sub) ELSE MItems("cfg", sv.main.m)) \o NItems("cfg", sv.main.n))

\* ------------------------------------------------------------------ (round 4) histories
\* The caller changes sources in the namespace a parse returned and parses that namespace again (parse_object(ns)).
\* Changed = the edited configuration (every source of the shape gets another value; 3 is the value par raises on):
Other(v) == IF v = Int(3) THEN Int(4) ELSE Int(3)
OtherOpt(v) == IF v = Int(3) THEN NoneV ELSE Int(3)
Changed(shape, c) ==
  LET S == SourcesOf(shape) IN
  [c EXCEPT !.a = IF "a" \in S THEN Other(@) ELSE @, !.b = IF "b" \in S THEN Other(@) ELSE @, !.gx = IF "g" \in S THEN Other(@) ELSE @,
            !.o = IF "o" \in S THEN OtherOpt(@) ELSE @,
            !.s = IF "sl" \in S /\ @.k = "cls" /\ "limit" \in DOMAIN @.ia THEN ClsV(@.c, Put(@.ia, "limit", OtherOpt(@.ia["limit"]))) ELSE @]
\* Ref: the re-parse succeeds unless a compute function raises on the edited sources (the stale target in the namespace
\* is a supplied value like any other: accepted and overridden), it keeps the edited sources, and the target follows them
HistOK(shape, hin, hout) ==
  /\ hout.ok => (TargetEq(shape, hout.c) /\ LiveSources(shape, hout.c) = LiveSources(shape, hin))
  /\ Raising(shape, hin) => ~hout.ok
  /\ ~Raising(shape, hin) => hout.ok
\* Alg: every key of the namespace, the targets included, is an item of the object
FullItems(shape, c) ==
  LET Obj(key, val) == [chan |-> "obj", key |-> key, val |-> val] IN
  <<Obj("a", c.a), Obj("b", c.b), Obj("gx", c.gx), Obj("gy", c.gy)>>
  \o (IF c.o.k = "absent" THEN << >> ELSE <<Obj("o", c.o)>>)
  \o (IF c.s.k = "cls" THEN <<Obj("s", SpecOf(c.s))>> ELSE IF c.s.k = "none" THEN <<Obj("s", [k |-> "null"])>> ELSE << >>)
  \o (IF c.t.k = "absent" THEN << >> ELSE <<Obj("t", c.t)>>) \o (IF c.d.k = "absent" THEN << >> ELSE <<Obj("d", c.d)>>)
  \o MItems(IF c.mpath = PathV THEN "file" ELSE "obj", c.m)          \* (the namespace keeps __path__)
  \o NItems("obj", c.n)
\* (round 4) dump(skip_default=True), _core.py:818-822: the defaults (get_defaults: the declared defaults merged with the
\* default config file, links applied) are stripped of the link targets and cleaned like the configuration, then
\* _dump_delete_default_entries (:849-868) deletes every entry that equals its default, descending into groups; a
\* class argument whose default is None is not among the defaults (skip_none removed it) and stays whole.
\* pre = the items of the default config file.  A left-out plain key reads as None, a left-out group as None.
SDVal(v, dflt) == IF v = dflt THEN NoneV ELSE v
AlgDumpSD(shape, pre, c) ==
  LET dm == AlgDump(shape, c)
      df == AlgDump(shape, Fold(shape, Ok(Defaults(shape)), pre, 1).c)
  IN [dm EXCEPT !.a = SDVal(@, df.a), !.b = SDVal(@, df.b), !.gx = SDVal(@, df.gx), !.gy = SDVal(@, df.gy),
                !.o = IF df.o.k \in {"absent", "none"} THEN @ ELSE SDVal(@, df.o),
                !.m = IF @.k = "grp" /\ df.m.k = "grp"
                      THEN (LET keep == {y \in DOMAIN @.ia : ~(y \in DOMAIN df.m.ia /\ df.m.ia[y] = @.ia[y])}
                            IN IF keep = {} THEN NoneV ELSE GrpV([x \in keep |-> @.ia[x]]))
                      ELSE @]
\* the outcome of a sub-command case deviates from the property because of SubEnvRaises
SubEnvDeviation(shape, items, out) == SubEnvRaises(shape, items) /\ ~out.ok /\ ~RefParseOK(shape, items, out)
DcfDeviation(shape, items, out) == DcfRaises(shape, items) /\ ~out.ok /\ ~RefParseOK(shape, items, out)
\* the outcome of a shape.ap case really deviates from the property
ApDropsLinks(shape, items, out, dump) == shape.ap /\ out.ok /\ ~(RefParseOK(shape, items, out) /\ DumpHidesTarget(shape, dump))
AlgHist(shape, pre, hin) == AlgParse(shape, pre \o FullItems(shape, hin))

\* link creation, _initial_input_checks:243-255 (apply_on = "parse")
AlgLinkAllowed(created, new) ==
  LET existing_targets == {created[i].tgt : i \in DOMAIN created}                                       \* :246
      existing_sources == UNION {{created[i].srcs[j] : j \in DOMAIN created[i].srcs} : i \in DOMAIN created}   \* :253
  IN /\ new.tgt \notin existing_targets                                                                 \* :247-248
     /\ \A j \in DOMAIN new.srcs : new.srcs[j] \notin existing_targets                                  \* :249-251
     /\ new.tgt \notin existing_sources                                                                 \* :254-255
=============================================================================
