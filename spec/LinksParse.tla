----------------------------- MODULE LinksParse -----------------------------
(***************************************************************************)
(* Argument links applied on parse (property C15).                         *)
(*                                                                         *)
(* A parser shape has the plain arguments a, b (int), the class group      *)
(* g (x, y : int), and -- depending on its links -- the link targets       *)
(*    t   a plain int argument (required or with a default)                *)
(*    d   a plain Dict[str,int] argument                                   *)
(*    m   a class argument (mkind "init": type Base), a list of class      *)
(*        arguments ("list": List[Base]) or a class group ("grp":          *)
(*        add_class_arguments(Base, "m")); the target is its parameter p   *)
(* Classes: Base(p, q), Sub(Base)(p, q, r), NoP(Base)(q) -- NoP does not   *)
(* define the targeted parameter.  With req the targets have no default.   *)
(* A link is [srcs, fn, tgt]: srcs over {"a","b","g"}, tgt in {"t","d",    *)
(* "mp"}, fn one of the injective compute functions below.                 *)
(*                                                                         *)
(* Ref   what the property states about an observed outcome (TargetEq,     *)
(*       NotRequired, PlainOptionRejected, DumpHidesTarget, Reconstructed) *)
(* Alg   ActionLink.__init__/__call__ (_link_arguments.py:112-259),        *)
(*       apply_parsing_links (:274-325), set_target_value (:387-406),      *)
(*       strip_link_target_keys (:450-472), _parse_common (_core.py:       *)
(*       377-384), dump (_core.py:786-788); the rest of the parse pipeline *)
(*       is the fold of the supplied items in precedence order.            *)
(***************************************************************************)
EXTENDS Naturals, Sequences, FiniteSets, TLC

\* ------------------------------------------------------------------ values (tagged: the tag decides equality first)
Int(n)       == [k |-> "int", v |-> n]
Absent       == [k |-> "absent"]                      \* the key is not in the namespace
NoneV        == [k |-> "none"]
DictV(x, y)  == [k |-> "dict", x |-> x, y |-> y]      \* {"x": x, "y": y}
NsV(x, y)    == [k |-> "ns", x |-> x, y |-> y]        \* Namespace(x=x, y=y): a group-valued source
ClsV(c, ia)  == [k |-> "cls", c |-> c, ia |-> ia]     \* class_path + init_args (a function parameter -> value)
ListV(items) == [k |-> "list", v |-> items]
GrpV(ia)     == [k |-> "grp", ia |-> ia]              \* the namespace of a class group

Params(c) == CASE c = "Base" -> {"p", "q"} [] c = "Sub" -> {"p", "q", "r"} [] c = "NoP" -> {"q"} [] OTHER -> {}
Put(f, x, v) == [y \in DOMAIN f \cup {x} |-> IF y = x THEN v ELSE f[y]]
Drop(f, x)   == [y \in DOMAIN f \ {x} |-> f[y]]

\* ------------------------------------------------------------------ shapes, links, compute functions
Targets(shape)   == {shape.links[i].tgt : i \in DOMAIN shape.links}
HasM(shape)      == "mp" \in Targets(shape)
\* the compute functions are injective on the value domain, and not symmetric
FnApply(fn, args) ==
  CASE fn = "id"     -> args[1]                                           \* no compute function: the source itself
    [] fn = "one"    -> Int(10 * args[1].v + 7)
    [] fn = "lin"    -> Int(10 * args[1].v + args[2].v)
    [] fn = "grp"    -> Int(10 * args[1].x + args[1].y)                   \* receives the Namespace of the group
    [] fn = "asdict" -> DictV(args[1].x, args[1].y)                       \* no function, mapping-typed target: as_dict (:305-310)
SrcVal(c, s) == IF s = "g" THEN NsV(c.gx.v, c.gy.v) ELSE c[s]
Expected(c, l) == FnApply(l.fn, [j \in DOMAIN l.srcs |-> SrcVal(c, l.srcs[j])])

\* ------------------------------------------------------------------ Ref
\* every instance of the target that exists in c holds the function of the FINAL source values
TargetEqLink(shape, c, l) ==
  LET e == Expected(c, l) IN
  CASE l.tgt \in {"t", "d"} -> c[l.tgt] = e
    [] l.tgt = "mp" ->
         CASE c.m.k = "grp"  -> "p" \in DOMAIN c.m.ia /\ c.m.ia["p"] = e
           [] c.m.k = "cls"  -> ("p" \in Params(c.m.c)) => ("p" \in DOMAIN c.m.ia /\ c.m.ia["p"] = e)
           [] c.m.k = "list" -> \A n \in DOMAIN c.m.v : ("p" \in Params(c.m.v[n].c)) => ("p" \in DOMAIN c.m.v[n].ia /\ c.m.v[n].ia["p"] = e)
           [] OTHER          -> TRUE                                   \* m is None: there is no target
TargetEq(shape, c) == \A i \in DOMAIN shape.links : TargetEqLink(shape, c, shape.links[i])

\* an item supplies a value for the target itself (directly or inside the enclosing spec)
GivesP(spec) == "p" \in DOMAIN spec.given
SuppliesTarget(it) ==
  \/ it.key \in {"t", "d", "mp"}
  \/ it.key = "m"  /\ (IF it.val.k = "specs" THEN \E n \in DOMAIN it.val.v : GivesP(it.val.v[n]) ELSE GivesP(it.val))
\* the option of a plain-argument target (t, d, or the parameter of a class group) is used on the command line
UsesPlainOption(shape, it) == it.chan = "argv" /\ (it.key \in {"t", "d"} \/ (it.key = "mp" /\ shape.mkind = "grp"))

\* out = [ok |-> BOOLEAN, c |-> configuration]
RefParseOK(shape, items, out) ==
  /\ out.ok => TargetEq(shape, out.c)                                                         \* the invariant
  /\ (\E n \in DOMAIN items : UsesPlainOption(shape, items[n])) => ~out.ok                     \* option rejected
  /\ (\A n \in DOMAIN items : ~SuppliesTarget(items[n])) => out.ok                             \* target not required
\* the dump of c: the targets do not appear (dump = the configuration read back from the dump text)
HidesTargetLink(dump, l) ==
  CASE l.tgt \in {"t", "d"} -> dump[l.tgt] = Absent
    [] l.tgt = "mp" -> CASE dump.m.k \in {"grp", "cls"} -> "p" \notin DOMAIN dump.m.ia
                         [] dump.m.k = "list" -> \A n \in DOMAIN dump.m.v : "p" \notin DOMAIN dump.m.v[n].ia
                         [] OTHER -> TRUE
DumpHidesTarget(shape, dump) == \A i \in DOMAIN shape.links : HidesTargetLink(dump, shape.links[i])
\* re-parsing the dump gives the targets back
TargetsOf(shape, c) == [i \in DOMAIN shape.links |->
   LET l == shape.links[i] IN
   IF l.tgt \in {"t", "d"} THEN <<c[l.tgt]>>
   ELSE IF c.m.k \in {"grp", "cls"} THEN <<IF "p" \in DOMAIN c.m.ia THEN c.m.ia["p"] ELSE Absent>>
   ELSE IF c.m.k = "list" THEN [n \in DOMAIN c.m.v |-> IF "p" \in DOMAIN c.m.v[n].ia THEN c.m.v[n].ia["p"] ELSE Absent]
   ELSE << >>]
Reconstructed(shape, c, re) == re.ok /\ TargetEq(shape, re.c) /\ TargetsOf(shape, re.c) = TargetsOf(shape, c)

\* link creation (_initial_input_checks:234-255): no chains, no double targets
\* created = the keys of the links accepted so far, as [srcs, tgt]; a new link [srcs, tgt] must be rejected iff ...
RefLinkAllowed(created, new) ==
  /\ \A i \in DOMAIN created : created[i].tgt # new.tgt                                               \* already a target
  /\ \A i \in DOMAIN created : \A j \in DOMAIN new.srcs : new.srcs[j] # created[i].tgt               \* source is a target
  /\ \A i \in DOMAIN created : \A j \in DOMAIN created[i].srcs : created[i].srcs[j] # new.tgt        \* target is a source
  /\ \A j \in DOMAIN new.srcs : new.srcs[j] # new.tgt

(***************************************************************************)
(* Alg                                                                     *)
(***************************************************************************)
\* ActionLink.__init__:160-188 -- the target action is replaced by the link action (default SUPPRESS, :217-224), the
\* target leaves required_args (:181-182), a target inside a class argument is registered in linked_targets
\* (:183-188) so that the class parser neither requires it (_typehints.py:653-656, _signatures.py:355-358: default None)
DefaultIA(shape, c) == [x \in Params(c) |-> IF x = "p" THEN (IF shape.req THEN NoneV ELSE Int(0)) ELSE Int(0)]
Defaults(shape) ==
  [a |-> Int(1), b |-> Int(2), gx |-> Int(1), gy |-> Int(2),
   t |-> Absent, d |-> Absent,                                              \* link targets have no default of their own
   m |-> IF ~HasM(shape) THEN Absent
         ELSE IF shape.mkind = "grp" THEN GrpV([x \in {"q"} |-> Int(0)])    \* the linked parameter p is not in the defaults
         ELSE NoneV]
Err == [ok |-> FALSE, c |-> Defaults([links |-> << >>, mkind |-> "init", req |-> FALSE, sub |-> FALSE])]
Ok(c) == [ok |-> TRUE, c |-> c]

\* a class spec item: [k |-> "spec", c |-> class, given |-> init_args given]; on a change of class the init_args
\* that the new class accepts are kept (discard_init_args_on_class_path_change), new ones get their defaults
NewCls(shape, prev, spec) ==
  LET old == IF prev.k = "cls" THEN prev.ia ELSE << >> IN
  ClsV(spec.c, [x \in Params(spec.c) |-> IF x \in DOMAIN spec.given THEN spec.given[x]
                                         ELSE IF x \in DOMAIN old THEN old[x] ELSE DefaultIA(shape, spec.c)[x]])
FreshCls(shape, spec) == NewCls(shape, NoneV, spec)
\* one supplied item; r = [ok, c]
Assign(shape, c, it) ==
  CASE it.key \in {"a", "b", "gx", "gy"} -> Ok([c EXCEPT ![it.key] = it.val])
    [] it.key \in {"t", "d"} ->
         IF it.chan = "argv" THEN Err                                       \* ActionLink.__call__:257-259
         ELSE Ok([c EXCEPT ![it.key] = it.val])                             \* checked against the target's type, kept until the links run
    [] it.key = "m" ->
         (CASE shape.mkind = "init" -> Ok([c EXCEPT !.m = NewCls(shape, c.m, it.val)])
            \* a list replaces the list; when the lengths agree item n keeps the init_args of the previous item n that
            \* its class accepts (_typehints.py:894-895)
            [] shape.mkind = "list" -> Ok([c EXCEPT !.m = ListV([n \in DOMAIN it.val.v |->
                                             NewCls(shape, IF c.m.k = "list" /\ Len(c.m.v) = Len(it.val.v) THEN c.m.v[n] ELSE NoneV, it.val.v[n])])])
            [] shape.mkind = "grp"  -> Ok([c EXCEPT !.m = GrpV([x \in DOMAIN c.m.ia \cup DOMAIN it.val.given |->
                                                                IF x \in DOMAIN it.val.given THEN it.val.given[x] ELSE c.m.ia[x]])]))
    [] it.key = "mq" ->
         IF shape.mkind = "grp" THEN Ok([c EXCEPT !.m = GrpV(Put(c.m.ia, "q", it.val))])
         ELSE LET cur == IF c.m.k = "cls" THEN c.m ELSE FreshCls(shape, [c |-> "Base", given |-> << >>])   \* the declared class itself
              IN Ok([c EXCEPT !.m = ClsV(cur.c, Put(cur.ia, "q", it.val))])
    [] it.key = "mp" ->
         IF shape.mkind = "grp" THEN (IF it.chan = "argv" THEN Err                                       \* :257-259
                                      ELSE Ok([c EXCEPT !.m = GrpV(Put(c.m.ia, "p", it.val))]))
         ELSE LET cur == IF c.m.k = "cls" THEN c.m ELSE FreshCls(shape, [c |-> "Base", given |-> << >>]) IN
              IF "p" \in Params(cur.c) THEN Ok([c EXCEPT !.m = ClsV(cur.c, Put(cur.ia, "p", it.val))]) ELSE Err
RECURSIVE Fold(_, _, _, _)
Fold(shape, r, items, n) == IF ~r.ok \/ n > Len(items) THEN r ELSE Fold(shape, Assign(shape, r.c, items[n]), items, n + 1)

\* set_target_value:387-406
SetTargetValue(shape, c, l, value) ==
  IF l.tgt \in {"t", "d"} THEN [c EXCEPT ![l.tgt] = value]                                   \* :406
  ELSE IF shape.mkind = "grp" THEN [c EXCEPT !.m = GrpV(Put(c.m.ia, "p", value))]             \* not a subclass type: :406
  ELSE IF c.m.k = "list" /\ \E n \in DOMAIN c.m.v : "p" \in DOMAIN c.m.v[n].ia               \* :398
       THEN [c EXCEPT !.m = ListV([n \in DOMAIN c.m.v |-> IF "p" \in DOMAIN c.m.v[n].ia       \* :399-402
                                                          THEN ClsV(c.m.v[n].c, Put(c.m.v[n].ia, "p", value)) ELSE c.m.v[n]])]
  ELSE IF ~(c.m.k = "cls" /\ "p" \in DOMAIN c.m.ia) THEN c                                    \* :403-405 "ignored since target not found"
  ELSE [c EXCEPT !.m = ClsV(c.m.c, Put(c.m.ia, "p", value))]                                  \* :406
\* apply_parsing_links:283-324, the links in the order they were created
RECURSIVE ApplyParsingLinks(_, _, _)
ApplyParsingLinks(shape, c, i) ==
  IF i > Len(shape.links) THEN c
  ELSE LET l == shape.links[i]
           args == [j \in DOMAIN l.srcs |-> SrcVal(c, l.srcs[j])]                            \* :286-297
       IN ApplyParsingLinks(shape, SetTargetValue(shape, c, l, FnApply(l.fn, args)), i + 1)   \* :301-323
\* validate / check_required (_core.py:1097-1106): the plain targets were removed from required_args, and they have a value by now
Validate(shape, c) == Ok(c)

\* _parse_common:377-384 after the sources were merged (a sub-command parser applies its own links, :278-280)
AlgParse(shape, items) ==
  LET r == Fold(shape, Ok(Defaults(shape)), items, 1) IN
  IF ~r.ok THEN Err ELSE Validate(shape, ApplyParsingLinks(shape, r.c, 1))

\* strip_link_target_keys:450-472 (called by dump, _core.py:787-788)
\*   :459-460  link actions that replaced a plain action: pop the key (a parent left empty is deleted, :456-457)
\*   :463-465  linked_targets of class arguments: pop <dest>.init_args.p -- on a LIST value Namespace.pop finds nothing:
\*             the recorded deviation ListItemsKeepTarget (finding C15 dump-keeps-target:list-item)
StripLink(shape, c, l) ==
  IF l.tgt \in {"t", "d"} THEN [c EXCEPT ![l.tgt] = Absent]
  ELSE IF c.m.k = "grp" THEN [c EXCEPT !.m = GrpV(Drop(c.m.ia, "p"))]
  ELSE IF c.m.k = "cls" THEN [c EXCEPT !.m = ClsV(c.m.c, Drop(c.m.ia, "p"))]
  ELSE c
RECURSIVE StripLinkTargets(_, _, _)
StripLinkTargets(shape, c, i) == IF i > Len(shape.links) THEN c ELSE StripLinkTargets(shape, StripLink(shape, c, shape.links[i]), i + 1)
AlgDump(shape, c) == StripLinkTargets(shape, c, 1)
ListItemsKeepTarget(shape, c) == HasM(shape) /\ c.m.k = "list" /\ \E n \in DOMAIN c.m.v : "p" \in DOMAIN c.m.v[n].ia

\* re-parsing the dump: every key of the dump is a config item
DumpItems(shape, dump) ==
  LET Cfg(key, val) == [chan |-> "cfg", key |-> key, val |-> val]
      SpecOf(cv) == [k |-> "spec", c |-> cv.c, given |-> cv.ia]
  IN <<Cfg("a", dump.a), Cfg("b", dump.b), Cfg("gx", dump.gx), Cfg("gy", dump.gy)>>
     \o (IF dump.m.k = "cls" THEN <<Cfg("m", SpecOf(dump.m))>>
         ELSE IF dump.m.k = "list" THEN <<Cfg("m", [k |-> "specs", v |-> [n \in DOMAIN dump.m.v |-> SpecOf(dump.m.v[n])]])>>
         ELSE IF dump.m.k = "grp" THEN <<Cfg("m", [k |-> "spec", c |-> "Base", given |-> dump.m.ia])>>
         ELSE << >>)
AlgReparse(shape, dump) == AlgParse(shape, DumpItems(shape, dump))

\* link creation, _initial_input_checks:243-255 (apply_on = "parse")
AlgLinkAllowed(created, new) ==
  LET existing_targets == {created[i].tgt : i \in DOMAIN created}                                       \* :246
      existing_sources == UNION {{created[i].srcs[j] : j \in DOMAIN created[i].srcs} : i \in DOMAIN created}   \* :253
  IN /\ new.tgt \notin existing_targets                                                                 \* :247-248
     /\ \A j \in DOMAIN new.srcs : new.srcs[j] \notin existing_targets                                  \* :249-251
     /\ new.tgt \notin existing_sources                                                                 \* :254-255
=============================================================================
