---------------------------- MODULE MC_ValLinks ----------------------------
(* Bounded instance of ValLinks.tla: parser variants (class argument declared as class group / add_subclass_arguments / *)
(* add_argument(type=); links applied on parse or on instantiate; link targets: a required plain option, a required     *)
(* parameter of the class, a required parameter BELOW the required class-typed parameter encoder; any subset) x classes  *)
(* (Model / BigModel, Encoder / BigEncoder with the nested Norm) x the valid configuration x ONE omission at every       *)
(* position (a key or a whole subtree removed, a key set to null).                                                        *)
EXTENDS ValLinks, Json, SequencesExt
CONSTANTS Emit, Thorough

Variants == {v \in [kind : {"group", "cls"}, how : {"group", "sub", "arg"}, on : {"parse", "instantiate"}, ldim : BOOLEAN, lenc : BOOLEAN, ltgt : BOOLEAN,
                    M : {"Model", "BigModel"}, E : {"Encoder", "BigEncoder"}] :
               /\ (v.kind = "group") = (v.how = "group")
               /\ (v.kind = "group" => v.M = "Model")
               \* the quick tier keeps every how x link x apply_on combination but not their full product
               /\ (~Thorough => (v.M = "Model" /\ (v.ldim \/ v.lenc) /\ (v.ltgt = (v.on = "parse"))
                                 /\ ((v.ldim /\ v.lenc) => v.how = "sub") /\ (v.on = "instantiate" => v.E = "BigEncoder")))}
E(p, v) == [p |-> p, v |-> v]
Full(v) == {E(<<"other">>, "1"), E(<<"tgt">>, "1"), IF v.on = "parse" THEN E(<<"src">>, "1") ELSE E(<<"data", "size">>, "1")}
      \cup (IF v.kind = "cls" THEN {E(<<"model", "class_path">>, v.M)} ELSE {})
      \cup {E(Pre(v) \o <<"dim">>, "1"), E(Pre(v) \o <<"encoder", "class_path">>, v.E), E(Pre(v) \o <<"encoder", "init_args", "dim">>, "1")}
      \cup (IF v.M = "BigModel" THEN {E(Pre(v) \o <<"extra">>, "1")} ELSE {})
      \cup (IF v.E = "BigEncoder" THEN {E(Pre(v) \o <<"encoder", "init_args", "width">>, "1"), E(Pre(v) \o <<"encoder", "init_args", "norm", "class_path">>, "Norm"),
                                        E(Pre(v) \o <<"encoder", "init_args", "norm", "init_args", "eps">>, "1")} ELSE {})
\* the computed keys are not written by the user
Valid(v) == {e \in Full(v) : e.p \notin Links(v)}

Cuts(cfg) == {q \in UNION {{SubSeq(e.p, 1, i) : i \in 1..Len(e.p)} : e \in cfg} : Last(q) # "class_path"}
ClsNodes(cfg) == {Parent(e.p) : e \in {x \in cfg : Last(x.p) = "class_path"}}
Nullable(cfg) == {e.p : e \in {x \in cfg : Last(x.p) # "class_path"}} \cup ClsNodes(cfg)
Mut(kind, p) == [kind |-> kind, p |-> p, n |-> << >>, val |-> ""]
\* a foreign key at every container position of the class tree: root, class group, class spec, init_args -- three classes
\* deep -- and below scalars; spelled zz (any value), zz.q, a sibling with a suffix, a parameter of the OTHER class
Positions(v) == {<< >>, <<"model">>, <<"other">>, Pre(v), Pre(v) \o <<"encoder">>, Pre(v) \o <<"encoder", "init_args">>, Pre(v) \o <<"dim">>}
                \cup (IF v.E = "BigEncoder" THEN {Pre(v) \o <<"encoder", "init_args", "norm">>, Pre(v) \o <<"encoder", "init_args", "norm", "init_args">>,
                                                  Pre(v) \o <<"encoder", "init_args", "norm", "init_args", "eps">>} ELSE {})
                \cup (IF v.on = "instantiate" THEN {<<"data">>} ELSE {})
FMut(pos, n, val) == [kind |-> "foreign", p |-> pos, n |-> n, val |-> val]
ForeignMuts(v) == IF v.ldim \/ (~Thorough /\ v.on # "parse") THEN {} ELSE
     {m \in UNION {{FMut(pos, <<"zz">>, "1"), FMut(pos, <<"zz">>, "null"), FMut(pos, <<"zz">>, "emptymap"), FMut(pos, <<"zz">>, "emptylist"),
                    FMut(pos, <<"zz", "q">>, IF Thorough THEN "1" ELSE "emptymap"), FMut(pos, <<"zz", "q">>, "emptymap"), FMut(pos, <<"dimx">>, "1"),
                    FMut(pos, <<"width">>, "1"), FMut(pos, <<"extra">>, "1"), FMut(pos, <<"eps">>, "1")} : pos \in Positions(v)} :
        \* the parameter of another class only where it IS foreign
        /\ (m.n \in {<<"width">>, <<"extra">>, <<"eps">>} => Walk(Decl(v), Valid(v), m.p \o m.n) # "ok")
        \* below a scalar one spelling is enough
        /\ (Walk(Decl(v), Valid(v), m.p \o m.n) = "scalar" => (m.n = <<"zz">> /\ m.val \in {"1", "emptymap"}))}
Mutations(v) == ForeignMuts(v) \cup {Mut("none", << >>)} \cup {Mut("remove", q) : q \in Cuts(Valid(v))} \cup {Mut("null", q) : q \in Nullable(Valid(v))}
Apply(cfg, m) ==
  CASE m.kind = "none" -> cfg
    [] m.kind = "remove" -> {e \in cfg : ~IsPrefix(m.p, e.p)}
    [] m.kind = "null" -> {e \in cfg : ~IsPrefix(m.p, e.p)} \cup {E(m.p, "null")}
    [] m.kind = "foreign" -> cfg \cup {E(m.p \o m.n, m.val)}

VARIABLES v, mut
vars == <<v, mut>>
Init == v \in Variants /\ mut \in Mutations(v)
Next == UNCHANGED vars
Spec == Init /\ [][Next]_vars
Cfg == Apply(Valid(v), mut)

\* the code's bookkeeping with linked_targets computes exactly "required minus the targets"
AlgLIsRef == AlgLMissing(Decl(v), Links(v), Cfg) = LMissing(Decl(v), Links(v), Cfg)
\* the configuration that gives everything except the computed keys is valid; WITHOUT the links it is not
ValidIsOk == mut.kind = "none" => (LOutcome(Decl(v), Links(v), Cfg) = "ok" /\ (Links(v) # {} => LOutcome(Decl(v), {}, Cfg) = "err"))
\* cutting a key that is required and is not a link target is an error: in particular the class argument itself, the
\* class-typed parameter above a deep target, the source, the other parameters of the target's class
CutMatters == (mut.kind \in {"remove", "null"} /\ \E r \in ReqKeys(Decl(v), Valid(v)) : r.p = mut.p /\ r.p \notin Links(v)) => LOutcome(Decl(v), Links(v), Cfg) = "err"
\* a link never makes anything but its target optional: what is missing with the links is missing without them
OnlyTarget == LMissing(Decl(v), Links(v), Cfg) = {r \in LMissing(Decl(v), {}, Cfg) : r.p \notin Links(v)}

\* foreign keys: the insertion is foreign; the walk of the parsers reports it unless it is the recorded deviation, which is
\* exactly "an undeclared name among parameters whose value is an empty mapping"
ForeignIsForeign == mut.kind = "foreign" => (\E e \in LForeign(Decl(v), Cfg) : e.p = mut.p \o mut.n) /\ FOutcome(Decl(v), Links(v), Cfg) = "err"
AlgFIsRef == ~FDev(Decl(v), Links(v), Cfg) => AlgFOutcome(Decl(v), Links(v), Cfg) = FOutcome(Decl(v), Links(v), Cfg)
FDevShape == FDev(Decl(v), Links(v), Cfg) => (mut.kind = "foreign" /\ mut.val = "emptymap" /\ Walk(Decl(v), Cfg, mut.p \o mut.n) = "params")
NoForeignOtherwise == mut.kind # "foreign" => LForeign(Decl(v), Cfg) = {}

AsSeq(S) == LET q == SetToSeq(S) IN [j \in 1..Len(q) |-> q[j]]
EmitCase == Emit => PrintT(ToJson([v |-> v, mut |-> mut, cfg |-> AsSeq(Cfg), links |-> AsSeq(Links(v)), ref |-> FOutcome(Decl(v), Links(v), Cfg), dev |-> FDev(Decl(v), Links(v), Cfg), misnamed |-> (mut.kind = "foreign" /\ Misnamed(Decl(v), Cfg, E(mut.p \o mut.n, mut.val))), where |-> (IF mut.kind = "foreign" THEN Walk(Decl(v), Cfg, mut.p \o mut.n) ELSE "ok"),
                                   alg |-> AlgFOutcome(Decl(v), Links(v), Cfg), missing |-> AsSeq({r.p : r \in LMissing(Decl(v), Links(v), Cfg)})]))
=============================================================================
