SPECIFICATION Spec
CONSTANTS
  CopyOnEntry = TRUE
  Depth = 2
  Emit = TRUE
INVARIANT CopyingOpsFrame
INVARIANT OnlyBelowTuple
INVARIANT AdaptedIsSafe
INVARIANT DumpRewritesOnlySerialised
INVARIANT ParseObjectDictShape
INVARIANT CloneLaws
INVARIANT FailureSameRoutes
INVARIANT Idempotent
INVARIANT EmitCase
CHECK_DEADLOCK FALSE
