SPECIFICATION Spec
CONSTANTS
  Focus = {"l"}
  NDcf = 2
  MaxArgv = 2
  Repeat = TRUE
  Emit = TRUE
INVARIANT DocumentedOrder
INVARIANT StagesAgree
INVARIANT NoPendingAppend
INVARIANT LastOptWins
INVARIANT EmitCase
CHECK_DEADLOCK FALSE
