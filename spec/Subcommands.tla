---------------------------- MODULE Subcommands ----------------------------
(***************************************************************************)
(* Exactly one sub-command is selected and only its settings survive       *)
(* (property C17).                                                         *)
(*                                                                         *)
(* A sub-command tree is a function from paths (sequences of sub-command   *)
(* names, << >> = the root parser) to [req, ch]: is a sub-command required *)
(* below this parser, and the names of its sub-commands in declaration     *)
(* order (<< >> for a leaf).  Every parser has one option "x" and the key  *)
(* "subcommand".  Values of x are source tags: 0 default, 1 environment,   *)
(* 2 config / object, 3 command line.                                      *)
(*                                                                         *)
(* An input:                                                               *)
(*   argv   Seq(name)       sub-commands named on the command line         *)
(*   aopt   SUBSET 0..Len(argv)   levels whose --x is given on the command line *)
(*   csel   path -> name|"-"      explicit "subcommand" key in the config  *)
(*   csec   SUBSET paths          sections (with x) present in the config; << >> = top-level x *)
(*   env    BOOLEAN               is the environment consulted             *)
(*   esel   path -> name|"-"      *_SUBCOMMAND variables                   *)
(*   eopt   SUBSET paths          *_X variables                            *)
(*   strict BOOLEAN               the config is the call's own input (parse_object/parse_string) rather than --cfg *)
(*   icfg   SUBSET 1..Len(argv)   levels whose OWN config argument is given on the command line (after the      *)
(*                                sub-command's name, before its --x): value tag 4                               *)
(*   dcf    BOOLEAN               the config is a DEFAULT CONFIG FILE of the root parser: in the documented order  *)
(*                                it comes before the environment, which therefore overrides it                    *)
(*                                                                         *)
(* Ref  Select: the documented choice and the surviving key set.           *)
(* Alg  the decision procedure of _ActionSubCommands.get_subcommands       *)
(*      (_actions.py:692-745) run level by level as handle_subcommands     *)
(*      (:764-798) does, on the namespace the earlier stages produce.      *)
(***************************************************************************)
EXTENDS Naturals, Sequences, FiniteSets, TLC

None == "-"
IsPrefix(q, p) == Len(q) <= Len(p) /\ \A i \in 1..Len(q) : q[i] = p[i]
Min(S) == CHOOSE m \in S : \A n \in S : m <= n
Level(x, chosen, sections) == [x |-> x, chosen |-> chosen, sections |-> sections]

\* value of option x of the parser at path p: the last source in documented order that provides it
XVal(in, p) == IF IsPrefix(p, in.argv) /\ Len(p) \in in.aopt THEN 3
               ELSE IF IsPrefix(p, in.argv) /\ Len(p) \in in.icfg THEN 4        \* the sub-command's own --cfg, given at its position
               ELSE IF ~in.dcf /\ p \in in.csec THEN 2
               ELSE IF in.env /\ p \in in.eopt THEN 1
               ELSE IF in.dcf /\ p \in in.csec THEN 2
               ELSE 0

(***************************************************************************)
(* Ref                                                                     *)
(***************************************************************************)
\* which sub-command of the parser at p is chosen: the one named on the command line, else the one named in the
\* config, else the one named in the environment, else the first (declaration order) for which settings were given
RefChosen(T, in, p) ==
  IF Len(in.argv) > Len(p) /\ IsPrefix(p, in.argv) THEN in.argv[Len(p) + 1]
  ELSE IF ~in.dcf /\ in.csel[p] # None THEN in.csel[p]
  ELSE IF in.env /\ in.esel[p] # None THEN in.esel[p]
  ELSE IF in.dcf /\ in.csel[p] # None THEN in.csel[p]
  ELSE LET given == {j \in 1..Len(T[p].ch) : (p \o <<T[p].ch[j]>>) \in in.csec}
       IN IF given # {} THEN T[p].ch[Min(given)] ELSE None

\* the result along the selected path: one Level per parser visited; err when a required choice cannot be made.
\* Each level holds exactly one section: the chosen one.
RECURSIVE RefWalk(_, _, _)
RefWalk(T, in, p) ==
  IF T[p].ch = << >> THEN [err |-> FALSE, levels |-> <<Level(XVal(in, p), None, {})>>]
  ELSE LET c == RefChosen(T, in, p) IN
       IF c = None THEN (IF T[p].req THEN [err |-> TRUE, levels |-> << >>]
                         ELSE [err |-> FALSE, levels |-> <<Level(XVal(in, p), None, {})>>])
       ELSE LET rest == RefWalk(T, in, p \o <<c>>) IN
            IF rest.err THEN rest
            ELSE [err |-> FALSE, levels |-> <<Level(XVal(in, p), c, {c})>> \o rest.levels]
Select(T, in) == RefWalk(T, in, << >>)

(***************************************************************************)
(* Alg                                                                     *)
(***************************************************************************)
\* The namespace a level of handle_subcommands sees: the dest key (set by _ActionSubCommands.__call__:661-674 for a
\* name on the command line, else by the config, else by _load_env_vars:530-538) and which choices have a section.
\* A section exists if the config gave one, or the command line / environment path created one for the named choice.
AlgDest(in, p) ==
  IF Len(in.argv) > Len(p) /\ IsPrefix(p, in.argv) THEN in.argv[Len(p) + 1]
  ELSE IF ~in.dcf /\ in.csel[p] # None THEN in.csel[p]
  ELSE IF in.env /\ in.esel[p] # None THEN in.esel[p]
  ELSE IF in.dcf /\ in.csel[p] # None THEN in.csel[p]
  ELSE None
AlgSectionKeys(T, in, p) ==   \* indices of choices whose value is a Namespace, in declaration order
  {j \in 1..Len(T[p].ch) :
      \/ (p \o <<T[p].ch[j]>>) \in in.csec
      \/ (Len(in.argv) > Len(p) /\ IsPrefix(p, in.argv) /\ in.argv[Len(p) + 1] = T[p].ch[j])
      \/ (in.env /\ in.esel[p] = T[p].ch[j])}

\* get_subcommands:692-745 at the end of the parse (fail_no_subcommand = TRUE in _parse_common)
AlgGet(T, in, p) ==
  LET keys == AlgSectionKeys(T, in, p)
      dest == AlgDest(in, p)
      sub  == IF dest # None THEN dest                                   \* :711-712
              ELSE IF keys # {} THEN T[p].ch[Min(keys)]                  \* :713-719  subcommand_keys[0]
              ELSE None
  IN [sub |-> sub,
      err |-> sub = None /\ T[p].req,                                    \* :729-743
      kept |-> IF sub = None THEN {} ELSE {sub}]                         \* :721-727 other sections are deleted
\* The named deviation of this tree (finding C17 cfgkey-names-other:settings-dropped).  A config is parsed on its own
\* when it is loaded (ActionConfigFile.apply_config:191-212 -> parse_string -> handle_subcommands); if it carries an
\* explicit "subcommand" key, get_subcommands:721-724 deletes the sections of the OTHER sub-commands right there.
\* When the command line then names one of those others, the settings the config gave for it are already gone.
\* (:722 only when MORE THAN ONE sibling section is present)
SibSecs(in, p) == {q \in in.csec : Len(q) = Len(p) + 1 /\ IsPrefix(p, q)}
Dropped(in, q) == \E p \in DOMAIN in.csel : /\ in.csel[p] # None /\ Len(q) > Len(p) /\ IsPrefix(p, q) /\ q[Len(p) + 1] # in.csel[p]
                                             /\ Cardinality(SibSecs(in, p)) > 1
AsLoaded(in) == [in EXCEPT !.csec = {q \in in.csec : ~Dropped(in, q)},
                           !.csel = [p \in DOMAIN in.csel |-> IF Dropped(in, p) THEN None ELSE in.csel[p]]]
CfgKeyNamesOther(in) == \E p \in DOMAIN in.csel :
                          /\ in.csel[p] # None /\ Len(in.argv) > Len(p) /\ IsPrefix(p, in.argv)
                          /\ in.argv[Len(p) + 1] # in.csel[p] /\ (p \o <<in.argv[Len(p) + 1]>>) \in in.csec
                          /\ Cardinality(SibSecs(in, p)) > 1

\* A second recorded finding (C17 dcf:subcommand-settings): a DEFAULT CONFIG FILE that carries sub-command content (an
\* explicit "subcommand" key or sections).  get_defaults parses the file on its own with the sub-command machinery in
\* its strict form (_core.py:1029-1036: _parse_common with fail_no_subcommand = TRUE), so partial settings fail
\* ("Problem in default config file ... expected subcommand"), an inner explicit key can escape as AttributeError, and
\* the environment does not override the file's choice.  The input class is the finding; it is not modelled further.
DcfSubSettings(in) == in.dcf /\ ((\E p \in DOMAIN in.csel : in.csel[p] # None) \/ (\E q \in in.csec : q # << >>))

RECURSIVE AlgWalk(_, _, _)
AlgWalk(T, in, p) ==
  IF T[p].ch = << >> THEN [err |-> FALSE, levels |-> <<Level(XVal(in, p), None, {})>>]
  ELSE LET g == AlgGet(T, in, p) IN
       IF g.err THEN [err |-> TRUE, levels |-> << >>]
       ELSE IF g.sub = None THEN [err |-> FALSE, levels |-> <<Level(XVal(in, p), None, {})>>]
       ELSE LET rest == AlgWalk(T, in, p \o <<g.sub>>) IN
            IF rest.err THEN rest ELSE [err |-> FALSE, levels |-> <<Level(XVal(in, p), g.sub, g.kept)>> \o rest.levels]
AlgSelect(T, in) == AlgWalk(T, AsLoaded(in), << >>)

\* The default config file on the real route.  get_defaults (_core.py:1036-1054) parses the file ON ITS OWN
\* (_parse_common with defaults = FALSE, fail_no_subcommand = FALSE): handle_subcommands -> get_subcommands:711-727 runs on
\* the file's content alone, level by level along the path it chooses there -- the explicit key if the file has one, else
\* the FIRST declared sub-command that has a section -- and deletes the sibling sections when more than one is present.
\* What survives is what every later stage sees (finding C17 dcf:first-section-only; the explicit-key half is the
\* CfgKeyNamesOther deviation again).
RECURSIVE DcfKept(_, _, _)
Below(in, q) == {r \in in.csec : IsPrefix(q, r)}
DcfKept(T, in, p) ==
  IF T[p].ch = << >> THEN {}
  ELSE LET sibs == {j \in 1..Len(T[p].ch) : (p \o <<T[p].ch[j]>>) \in in.csec}
           sub  == IF in.csel[p] # None THEN in.csel[p] ELSE IF sibs # {} THEN T[p].ch[Min(sibs)] ELSE None
           kept == IF Cardinality(sibs) > 1 THEN {j \in sibs : T[p].ch[j] = sub} ELSE sibs
       IN UNION {IF T[p].ch[j] = sub THEN {p \o <<sub>>} \cup DcfKept(T, in, p \o <<sub>>) ELSE Below(in, p \o <<T[p].ch[j]>>) : j \in kept}
DcfLoaded(T, in) == LET keep == DcfKept(T, in, << >>) \cup (in.csec \cap {<< >>}) IN
                    [in EXCEPT !.csec = keep,
                               !.csel = [p \in DOMAIN in.csel |-> IF p = << >> \/ p \in keep THEN in.csel[p] ELSE None]]
DcfFirstSectionOnly(T, in) == in.dcf /\ DcfLoaded(T, in).csec # AsLoaded(in).csec
\* the file loses something when it is loaded (either half of the pruning)
DcfPrunes(T, in) == in.dcf /\ (DcfLoaded(T, in).csec # in.csec \/ DcfLoaded(T, in).csel # in.csel)
\* Where the class is NOT transcribed further (finding C17 dcf:subcommand-settings is THIS input class):
\*  - the environment is on (sub-parsers parse the environment with their own defaults, look their parent's file up again ...);
\*  - the pruning removes content two or more levels deep: handle_subcommands:796-803 makes the chosen sub-parser look its
\*    PARENT's file up again (parent_parsers_context -> _get_default_config_files:975-978 -> _load_config_parser_mode:725-726
\*    takes the section under the sub-command's name from the raw document), which brings part of it back.
DcfDeepLoss(T, in) == LET L == DcfLoaded(T, in) IN
                        \/ \E q \in in.csec \ L.csec : Len(q) >= 2
                        \/ \E p \in DOMAIN in.csel : p # << >> /\ in.csel[p] # None /\ L.csel[p] = None
DcfOpaque(T, in) == DcfSubSettings(in) /\ (in.env \/ DcfDeepLoss(T, in))
AlgSelectDcf(T, in) == AlgWalk(T, DcfLoaded(T, in), << >>)
=============================================================================
