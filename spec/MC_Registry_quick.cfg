SPECIFICATION Spec
CONSTANTS
  Depth = 3
  Emit = TRUE
  DepthA = 4
  Aliased = FALSE
INVARIANT HandlersRefine
INVARIANT CreateRefines
INVARIANT CreateStateAgrees
INVARIANT AliasRefines
INVARIANT CreateFlagsExclusive
INVARIANT EmitBehaviour
CHECK_DEADLOCK FALSE
