SPECIFICATION Spec
CONSTANTS
  ShtabBreaksDefaults = {"A", "B"}
  ClearOnError = TRUE
  Full = TRUE
  Help = FALSE
  Emit = TRUE
INVARIANT Balanced
INVARIANT FramesExplainCtx
INVARIANT NoStaleRead
INVARIANT AlgIsRefOnFresh
INVARIANT HistoryIndependent
INVARIANT DeviationShape
INVARIANT ShtabShape
INVARIANT HelpSkipShape
INVARIANT HelpSkipWrittenByHelpOnly
INVARIANT RepairClears
INVARIANT PendingIsLocal
INVARIANT EmitState
CHECK_DEADLOCK FALSE
