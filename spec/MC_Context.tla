----------------------------- MODULE MC_Context -----------------------------
(* Bounded instance of Context.tla: two root parsers in one process,                                  *)
(*   A  exit_on_error=False, --cfg/--print_config, sub-commands a (own --cfg/--print_config) and b,   *)
(*      a class-typed argument with a link, list defaults with nested containers / nested class specs *)
(*   B  exit_on_error=True,  --cfg/--print_config, no sub-commands, a class-typed argument w/o default *)
(* and a finite universe of public calls on them (every method of the property in its successful,     *)
(* failing, help-printing and config-printing variants).  The residual state is finite, so TLC        *)
(* explores histories of ANY length.                                                                  *)
EXTENDS Context, Json, SequencesExt

CONSTANTS Full,       \* TRUE: the whole call universe (thorough); FALSE: the quick subset
          Emit,       \* TRUE: print every quiescent state with its outgoing transitions as JSON
          Help        \* TRUE: the separate HELP universe (help requests for callable-typed arguments, then values of those
                      \* types through every entry point); Full then selects its larger variant

Roots == {"A", "B"}
Names == {"A", "A.a", "A.b", "B"}
DefKW == "env=None,defaults=True"
NoDefKW == "env=None,defaults=False"
DumpDK == "skip_none=True,skip_validation=False"

O(id, m, p, kw, tag, items, sub, sitems, pre, sel, dumpf, late, ser) ==
  [id |-> id, m |-> m, p |-> p, eoe |-> (p = "B"), kw |-> kw, tag |-> tag, stag |-> tag, items |-> items, sub |-> sub, sitems |-> sitems,
   pre |-> pre, sel |-> sel, dumpf |-> dumpf, late |-> late, ser |-> ser, dkv |-> DumpDK, spec |-> "none", file |-> "-", hscope |-> "shared", hset |-> "-", hkey |-> "any"]
PA(id, p, kw, items, sub, sitems) ==      \* parse_args; tag: coarse code of the argv (one code: finer codes only multiply Alg-level states; the traces use the real argv text)
  O(id, "parse_args", p, kw, "r", items, sub, sitems, "ok", sub, "none", "ok", FALSE)
PO(id, m, p, pre, sel, dumpf, late) == O(id, m, p, "-", "-", << >>, "none", << >>, pre, sel, dumpf, late, FALSE)
\* parse_string / parse_path of a class spec for the class-typed key `cls` (both parsers have one; A's has a default class,
\* B's has none, so the short form - init_args without class_path - is rejected by a fresh B and, its init_args not fitting
\* the default class, by a fresh A)
SP(id, m, p, spec) == [PO(id, m, p, IF spec = "short" THEN "fail" ELSE "ok", "none", "none", "ok") EXCEPT !.spec = spec]
NP(id, m, p, pre, ser) == O(id, m, p, "-", "-", << >>, "none", << >>, pre, "none", "none", "ok", ser)
\* a step of the environment: the default config file of parser p is written (v1), edited (v2) or removed (absent)
EV(p, f) == [NP(p \o ":file=" \o f, "environment", p, "ok", FALSE) EXCEPT !.file = f]

QuickOps == {
  [PO("A:obj-dcn", "parse_object", "A", "ok", "none", "none", "ok") EXCEPT !.spec = "dcn"],   \*   through parse_object,
  [PO("A:str-dc1", "parse_string", "A", "ok", "none", "none", "ok") EXCEPT !.spec = "dc1"],   \*   through parse_string
  PA("B:dgn",             "B", DefKW, <<"dgn">>, "none", << >>),                 \* plain --d: Data added with add_argument
  PA("B:dg1",             "B", DefKW, <<"dg1">>, "none", << >>),
  NP("A:format_help",     "format_help", "A", "ok", FALSE),
  NP("B:format_help",     "format_help", "B", "ok", FALSE),
  PA("B:help",            "B", DefKW, <<"help">>, "none", << >>),
  PA("B:[]",              "B", DefKW, << >>, "none", << >>),
  NP("B:defaults",        "get_defaults", "B", "ok", FALSE),
  [PA("A:a/ok,pc|nodef", "A", NoDefKW, << >>, "a", <<"ok", "pc">>) EXCEPT !.late = "fail"],   \* prints a's configuration WITHOUT defaults: shows which parse kwargs the sub-command parse really got
  PA("A:a/pc",            "A", DefKW, << >>, "a", <<"pc">>),
  PA("A:pc,help",         "A", DefKW, <<"pc", "help">>, "none", << >>),
  PO("A:str",             "parse_string", "A", "ok", "none", "none", "ok"),
  PO("A:env",             "parse_env", "A", "ok", "none", "none", "ok"),
  NP("A:defaults",        "get_defaults", "A", "ok", FALSE),
  NP("A:instantiate",     "instantiate_classes", "A", "ok", FALSE),
  PA("A:bad,pc",          "A", DefKW, <<"bad", "pc">>, "none", << >>),
  PO("A:obj-bad",         "parse_object", "A", "fail", "none", "none", "ok"),
  PA("A:unk",             "A", DefKW, <<"unk">>, "none", << >>),
  PA("A:pc,cfg",          "A", DefKW, <<"pc", "cfg">>, "none", << >>),
  PA("A:cfgbad",          "A", DefKW, <<"cfgbad">>, "none", << >>),
  NP("A:validate",        "validate", "A", "ok", FALSE),
  NP("A:dump-bad",        "dump", "A", "fail", FALSE),
  PA("B:pc",              "B", DefKW, <<"pc">>, "none", << >>),
  PA("B:bad",             "B", DefKW, <<"bad">>, "none", << >>),
  PA("A:sel,cfgbad",      "A", DefKW, <<"sel", "cfgbad">>, "none", << >>),        \* a config that fails INSIDE apply_config, after a class was selected
  PA("A:sel,pc,cfg",      "A", DefKW, <<"sel", "pc", "cfg">>, "none", << >>),     \* --print_config before --cfg: SystemExit(0) leaves apply_config
  PA("B:sel,cfgbad",      "B", DefKW, <<"sel", "cfgbad">>, "none", << >>),        \* exit_on_error=True: SystemExit(2) leaves apply_config
  SP("A:str-spec",        "parse_string", "A", "full"),
  SP("A:str-short",       "parse_string", "A", "short"),
  SP("B:str-spec",        "parse_string", "B", "full"),
  SP("B:str-short",       "parse_string", "B", "short"),
  SP("A:path-spec",       "parse_path", "A", "full"),
  SP("B:path-short",      "parse_path", "B", "short"),
  [PA("A:a/ok|nodef", "A", NoDefKW, << >>, "a", <<"ok">>) EXCEPT !.late = "fail"],     \* no --x: the link finds no source,
  PA("A:clshelp",         "A", DefKW, <<"clshelp">>, "none", << >>),
  PA("A:[]",              "A", DefKW, << >>, "none", << >>),
  PA("A:ok",              "A", DefKW, <<"ok">>, "none", << >>),
  PA("A:bad",             "A", DefKW, <<"bad">>, "none", << >>),
  PA("A:help",            "A", DefKW, <<"help">>, "none", << >>),
  PA("A:pc",              "A", DefKW, <<"pc">>, "none", << >>),
  PA("A:pc,bad",          "A", DefKW, <<"pc", "bad">>, "none", << >>),
  PA("A:cfg",             "A", DefKW, <<"cfg">>, "none", << >>),
  PA("A:a/ok",            "A", DefKW, << >>, "a", <<"ok">>),
  PA("A:a/pc,bad",        "A", DefKW, << >>, "a", <<"pc", "bad">>),
  PO("A:obj",             "parse_object", "A", "ok", "none", "none", "ok"),
  PO("A:obj-unknown",     "parse_object", "A", "ok", "none", "error", "fail"),
  PO("A:obj-a",           "parse_object", "A", "ok", "a", "none", "ok"),
  NP("A:dump",            "dump", "A", "ok", TRUE),
  NP("A:validate-bad",    "validate", "A", "fail", FALSE),
  PA("B:ok",              "B", DefKW, <<"ok">>, "none", << >>),
  PA("B:pc,bad",          "B", DefKW, <<"pc", "bad">>, "none", << >>)
}
MoreOps == {
  PA("A:dc1",             "A", DefKW, <<"dc1">>, "none", << >>),                 \* dataclass-typed argument (Optional[Data] of a function signature): one nested field,
  PA("A:dcn",             "A", DefKW, <<"dcn">>, "none", << >>),                 \*   several nested fields,
  PA("A:dcd",             "A", DefKW, <<"dcd">>, "none", << >>),                 \* the whole dataclass group as a dict
  PA("A:cfgdc",           "A", DefKW, <<"cfgdc">>, "none", << >>),               \* ... through --cfg
  [PO("A:env-dcn", "parse_env", "A", "ok", "none", "none", "ok") EXCEPT !.spec = "dcn"],
  [PO("B:obj-dc1", "parse_object", "B", "ok", "none", "none", "ok") EXCEPT !.spec = "dc1"],
  PA("A:shtab",           "A", DefKW, <<"shtab">>, "none", << >>),                \* leaves the ShtabResidue behind
  EV("A", "v1"), EV("A", "absent"),                                             \* the default config file of A appears / disappears between calls
  PA("A:b/ok",            "A", DefKW, << >>, "b", <<"ok">>),
  PA("A:a/bad",           "A", DefKW, << >>, "a", <<"bad">>),
  PA("A:ok|nodef",        "A", NoDefKW, <<"ok">>, "none", << >>),
  PA("A:ncls",            "A", DefKW, <<"ncls">>, "none", << >>),
  PA("A:pc,unk",          "A", DefKW, <<"pc", "unk">>, "none", << >>),
  PA("A:pcflag",          "A", DefKW, <<"pcflag">>, "none", << >>),
  PA("A:pc/a/ok",         "A", DefKW, <<"pc">>, "a", <<"ok">>),
  PA("A:ok/a/unk",        "A", DefKW, <<"ok">>, "a", <<"unk">>),
  PA("A:a/pc,help",       "A", DefKW, << >>, "a", <<"pc", "help">>),
  PA("A:b/bad",           "A", DefKW, << >>, "b", <<"bad">>),
  [PA("A:ok|late", "A", DefKW, <<"ok">>, "none", << >>) EXCEPT !.late = "fail"],
  [PA("A:envbad", "A", "env=True,defaults=True", << >>, "none", << >>) EXCEPT !.pre = "fail"],
  PO("A:obj-b",           "parse_object", "A", "ok", "b", "none", "ok"),
  PO("A:str-bad",         "parse_string", "A", "fail", "none", "none", "ok"),
  PO("A:env-bad",         "parse_env", "A", "fail", "none", "none", "ok"),
  NP("A:instantiate-bad", "instantiate_classes", "A", "fail", FALSE),
  PO("B:obj-unknown",     "parse_object", "B", "ok", "none", "error", "fail")
}
\* ---- the HELP universe: parser B owns --cb: Callable[[int], Base], --cbe: Callable[..., Base],
\* --cbo: Optional[Callable[[int, float], Base]] (added with add_argument: their help actions use the CLASS-level dict) and the
\* class group `hold` whose parameters mk: Callable[[int], Base] and opt: Optional[Callable[[int, float], Base]] have help
\* actions with a dict of their own; --cls.help (both parsers) is a class-typed help that uses the class-level dict
HP(id, p, hscope, hset, hkey) == [PA(id, p, DefKW, <<"clshelp">>, "none", << >>) EXCEPT !.hscope = hscope, !.hset = hset, !.hkey = hkey]
HelpOps == {
  HP("B:help-cb",         "B", "shared", "1", "any"),                             \* --cb.help <Class> / --cbe.help <Class>
  HP("B:help-cbo",        "B", "shared", "2", "cbo"),                             \* --cbo.help <Class>: two parameters supplied by the caller
  HP("B:help-mk",         "B", "own1", "1", "hold.mk"),                           \* --hold.mk.help <Class>: a class parameter
  HP("B:help-cls",        "B", "shared", "-", "cls"),                             \* --cls.help <Class>: reads what the others left (HelpSkipResidue)
  PA("B:cbv",             "B", DefKW, <<"cbv">>, "none", << >>),                  \* a value of a callable type (class_path / init_args / nested keys)
  PA("B:cbv,pc",          "B", DefKW, <<"cbv", "pc">>, "none", << >>),            \* --print_config after the value: the dump of the parse
  [PA("B:cbv-cb-maker", "B", DefKW, <<"cbv">>, "none", << >>) EXCEPT !.hkey = "cb:maker"],         \* the value is a class whose INSTANCES are callable: the caller supplies
  [PA("B:cbv-mk-maker", "B", DefKW, <<"cbv">>, "none", << >>) EXCEPT !.hkey = "hold.mk:maker"],   \*   none of its parameters, nothing may be skipped (argument / class parameter)
  [PO("B:obj-cb", "parse_object", "B", "ok", "none", "none", "ok") EXCEPT !.spec = "cb"],
  [PO("B:str-cb", "parse_string", "B", "ok", "none", "none", "ok") EXCEPT !.spec = "cb"],
  [NP("B:dump",           "dump", "B", "ok", TRUE) EXCEPT !.spec = "cb"],         \* dump / instantiate_classes of a configuration that holds such values
  [NP("B:instantiate",    "instantiate_classes", "B", "ok", FALSE) EXCEPT !.spec = "cb"],
  NP("B:defaults",        "get_defaults", "B", "ok", FALSE)
}
HelpMoreOps == {
  HP("B:help-opt",        "B", "own2", "2", "hold.opt"),
  HP("A:clshelp",         "A", "shared", "-", "cls"),                             \* the class-level dict is process-wide: another parser's class help
  [PO("B:env-cb", "parse_env", "B", "ok", "none", "none", "ok") EXCEPT !.spec = "cb"],
  [PA("B:cbv,help-cb", "B", DefKW, <<"cbv", "clshelp">>, "none", << >>) EXCEPT !.hscope = "shared", !.hset = "1", !.hkey = "cb"],   \* a value, then the help request
  NP("B:format_help",     "format_help", "B", "ok", FALSE),
  PA("B:[]",              "B", DefKW, << >>, "none", << >>),
  PA("A:ok",              "A", DefKW, <<"ok">>, "none", << >>)
}
Ops == IF Help THEN (IF Full THEN HelpOps \cup HelpMoreOps ELSE HelpOps)
       ELSE IF Full THEN QuickOps \cup MoreOps ELSE QuickOps

VARIABLE st
Init == st = Idle(Res0(Roots, Names))
Begin  == st.mode = "idle" /\ \E o \in Ops : st' = Start(o, st.res)
Step   == st.mode \in {"run", "unwind"} /\ st' = StepFn(st)
Finish == st.mode = "done" /\ st' = Idle(st.res)
Next == Begin \/ Step \/ Finish
Spec == Init /\ [][Next]_st

Quiescent == st.mode = "idle"
--------------------------------------------------------------------------------
\* every try/finally manager has restored what it changed whenever a call is over, by return, error or exit
Balanced == st.mode \in {"idle", "done"} => (st.frames = << >> /\ st.ctx = Ctx0)
\* while a call runs the stack of open managers explains every difference from the initial managed state
FramesExplainCtx == \A v \in ManagedVars : st.ctx[v] # Ctx0[v] => \E k \in 1..Len(st.frames) : st.frames[k].k = "ctx" /\ st.frames[k].v = v
\* no call ever reads a set-without-reset variable (or parser.args) that it did not write itself earlier in the same call
NoStaleRead == ~st.stale
\* the Alg program of every call, run on a fresh process, gives the Ref answer (the two layers agree where no history exists)
AlgIsRefOnFresh == Quiescent => \A o \in Ops : AlgOutcome(o, Res0(Roots, Names)) = RefOutcome(o)
\* C09, design level.  On the pinned tree it holds outside the named deviation; with the repair it holds everywhere.
HistoryIndependent ==
  Quiescent => \A o \in Ops : ((ClearOnError \/ ~PendingResidue(o, st.res)) /\ ~ShtabResidue(o, st.res) /\ ~HelpSkipResidue(o, st.res))
                                   => (AlgOutcome(o, st.res) = RefOutcome(o) /\ ~AlgRun(o, st.res).dev)
\* the third named deviation is exactly this wide: a class help of a CLASS-typed argument whose help action uses a dict in which
\* an earlier help request for a callable type left skip = {k}; the answer class stays "help printed, exit 0"; the residue is never
\* read by anything else (a help request for a callable type overwrites it first; parse / dump / instantiate use the argument's own dict)
HelpSkipShape ==
  Quiescent => \A o \in Ops : LET r == AlgRun(o, st.res) IN
                 /\ r.dev <=> (HelpSkipResidue(o, st.res) /\ ~ShtabResidue(o, st.res))
                 /\ r.dev => (r.out = RefOutcome(o) /\ r.res.hskip = st.res.hskip)
\* what a help request leaves is a function of the help requests made so far alone, never of parses, dumps ... (only they write it)
HelpSkipWrittenByHelpOnly ==
  Quiescent => \A o \in Ops : (AlgRun(o, st.res).res.hskip # st.res.hskip) => (ReachesClsHelp(o) /\ o.hset # "-")
\* the second named deviation is exactly this wide: after --print_shtab=<shell> every parse_args on that root parser fails
\* (and, on a parser with a class-typed default, every call that computes the defaults); no other parser is affected
ShtabShape ==
  Quiescent => \A o \in Ops : ShtabResidue(o, st.res) => (AlgOutcome(o, st.res) \in {"error", "exit2", "raise"} /\ AlgRun(o, st.res).res.shtab = st.res.shtab)
\* the property itself, without the exception: violated on the pinned tree (MC_Context_strict.cfg; TLC's counterexample is the finding)
HistoryIndependentStrict == Quiescent => \A o \in Ops : AlgOutcome(o, st.res) = RefOutcome(o)
\* ... and the deviation is exactly as wide as recorded: a pending request changes the answer of precisely the calls that
\* reach a print point (every parse method that gets past its early failures), never of the others
DeviationShape ==
  Quiescent => \A o \in Ops : PendingResidue(o, st.res) /\ AlgOutcome(o, st.res) # RefOutcome(o) => o.m \in ParseMethods /\ o.pre = "ok"
\* with the repair no request ever survives a call
RepairClears == (ClearOnError /\ Quiescent) => \A p \in Roots : st.res.pending[p] = "none"
\* residue on one root parser never comes from calls on the other
PendingIsLocal == \A p \in Roots : st.res.pending[p] # "none" => st.res.args[p] # "unset"

--------------------------------------------------------------------------------
NameSeq == <<"A", "A.a", "A.b", "B">>
ResKey(r) == r.hskip["shared"] \o "," \o r.hskip["own1"] \o "," \o r.hskip["own2"] \o "|" \o r.pending["A"] \o "|" \o r.pending["B"] \o "|" \o r.args["A"] \o r.args["A.a"] \o r.args["A.b"] \o r.args["B"]
             \o "|" \o r.shtab["A"] \o "," \o r.shtab["B"] \o "|" \o r.dcf["A"] \o "," \o r.dcf["B"] \o "|" \o r.pk \o "|" \o r.sap \o "|" \o r.dk
OpSeq == SetToSeq(Ops)
EmitState ==
  (Emit /\ Quiescent) =>
    PrintT(ToJson([key |-> ResKey(st.res), res |-> st.res,
                   t |-> [i \in 1..Len(OpSeq) |-> LET r == AlgRun(OpSeq[i], st.res) IN
                            <<OpSeq[i].id, ResKey(r.res), r.out, RefOutcome(OpSeq[i]), IF r.dev THEN "dev" ELSE "-">>]]))
ASSUME Emit => PrintT(ToJson([ops |-> OpSeq]))
=============================================================================
