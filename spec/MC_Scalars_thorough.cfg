SPECIFICATION Spec
CONSTANTS
  MaxLen = 5
  Alphabet <- ThoroughAlphabet
  WordGrow = TRUE
  Emit = TRUE
INVARIANT InvStrRoundTripModuloKnown
INVARIANT InvDeviationsAreReal
INVARIANT InvJsonStrModuloKnown
INVARIANT InvJsonStrDeviationsReal
INVARIANT InvOnlyFloatDiffers
INVARIANT InvRepairedFamiliesQuoted
INVARIANT InvTimestampSafe
INVARIANT InvIntRoundTrip
INVARIANT InvYamlFloat
INVARIANT InvJsonFloatModuloKnown
INVARIANT InvJsonDeviationReal
INVARIANT InvFind
INVARIANT InvBasicReport
INVARIANT EmitText
INVARIANT EmitFloat
CHECK_DEADLOCK FALSE
