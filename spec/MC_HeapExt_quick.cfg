SPECIFICATION Spec
CONSTANTS
  CopyOnEntry = TRUE
  Big = FALSE
  Emit = TRUE
INVARIANT ProcRestored
INVARIANT LoadsAtPath
INVARIANT EntryIrrelevant
INVARIANT FramesBalanced
INVARIANT SpecIsDerived
INVARIANT ClassLookupLoses
INVARIANT EmitCase
CHECK_DEADLOCK FALSE
