------------------------------ MODULE Failures ------------------------------
(***************************************************************************)
(* Every parse failure surfaces as ArgumentError or exit status 2, nothing *)
(* else (property C03).                                                    *)
(*                                                                         *)
(* Ref   ChannelOK: what may come out of a parse method, given the mode     *)
(*       (exit_on_error) and whether the input asks for --help /           *)
(*       --print_config / --version.                                        *)
(* Alg   the HANDLER LATTICE of the parse methods: a failure originates at  *)
(*       a stage (a place in the code) with an exception class; it passes   *)
(*       the enclosing frames from the inside out; each frame is one        *)
(*       `except` clause transcribed from the code: the classes it catches  *)
(*       and what it turns them into (another class that keeps travelling,  *)
(*       or ArgumentParser.error, which is the documented channel).         *)
(*       Propagate computes what finally comes out.  The lattice predicts   *)
(*       which (stage, class) pairs are protected; the conformance harness  *)
(*       injects each pair into the real code and fuzzes for natural ones.  *)
(***************************************************************************)
EXTENDS Naturals, Sequences, FiniteSets, TLC

(***************************************************************************)
(* Ref                                                                     *)
(***************************************************************************)
\* out: "return" | "ArgumentError" | "exit0" | "exit2" | "exit:<n>" | "escape:<Class>" | "timeout"
\* usage: stderr carried a usage text and an "error:" line;  asked0: the input asks for help / print_config / version
ChannelOK(eoe, asked0, out, usage) ==
  \/ out = "return"
  \/ out = "exit0" /\ asked0
  \/ ~eoe /\ out = "ArgumentError"
  \/ eoe /\ out = "exit2" /\ usage

(***************************************************************************)
(* Alg: frames                                                             *)
(***************************************************************************)
\* exception classes; "Loader" = get_loader_exceptions() of the parser mode (_loaders_dumpers.py:148-160),
\* "PathError" is a TypeError subclass, "NSKeyError" a KeyError subclass, "ArgparseError" = argparse.ArgumentError
\* "UnicodeError" is a ValueError subclass (UnicodeDecodeError), "OverflowError" and "InvalidOperation"
\* (decimal.InvalidOperation) are ArithmeticError subclasses
Classes == {"TypeError", "PathError", "KeyError", "NSKeyError", "ValueError", "UnicodeError", "ArgparseError", "Loader", "AttributeError", "ImportError",
            "RecursionError", "OSError", "IndexError", "AssertionError", "ArithmeticError", "OverflowError", "InvalidOperation", "SystemExit", "Other"}
IsA(cls, base) == cls = base \/ (cls = "PathError" /\ base = "TypeError") \/ (base = "Exception" /\ cls # "SystemExit")
                  \/ (cls = "NSKeyError" /\ base = "KeyError") \/ (cls = "UnicodeError" /\ base = "ValueError")
                  \/ (cls \in {"OverflowError", "InvalidOperation"} /\ base = "ArithmeticError")
Catches(frame, cls) == \E b \in frame.catch : IsA(cls, b)
Fr(name, catch, to) == [name |-> name, catch |-> catch, to |-> to]     \* to: a class that travels on, or "error" (ArgumentParser.error)

\* the frames, each one `except` clause
F_parse_method  == Fr("parse_*: except (TypeError, KeyError) -> self.error  [_core.py:468,521,594,687]", {"TypeError", "KeyError"}, "error")
F_known_args    == Fr("parse_known_args: except argparse.ArgumentError -> self.error  [_core.py:307]", {"ArgparseError"}, "error")
F_check_type    == Fr("ActionTypeHint._check_type: except (TypeError, ValueError) -> TypeError with the key  [_typehints.py:604-610]", {"TypeError", "ValueError"}, "TypeError")
F_union_loop    == Fr("adapt_typehints Union member loop: except Exception (collected, then ValueError)  [_typehints.py:832-847]", {"Exception"}, "ValueError")
F_load_config   == Fr("_load_config_parser_mode: except get_loader_exceptions() -> TypeError  [_core.py:713]", {"Loader"}, "TypeError")
F_apply_config  == Fr("ActionConfigFile.apply_config: except (TypeError, ValueError)+loader -> TypeError  [_actions.py:196-205]", {"TypeError", "ValueError", "Loader"}, "TypeError")
F_cfg_path      == Fr("ActionConfigFile.apply_config: except TypeError around Path(value) -> the value is tried as a config string, a path error is re-raised there as TypeError  [_actions.py:197-205]", {"TypeError"}, "TypeError")
F_config_load_a == Fr("_ActionConfigLoad._load_config: except (TypeError,)+loader -> TypeError  [_actions.py:333-335]", {"TypeError", "Loader"}, "TypeError")
F_links         == Fr("_parse_common: except Exception around apply_parsing_links -> self.error  [_core.py:380]", {"Exception"}, "error")
F_validate      == Fr("validate: except (TypeError, KeyError) -> same class with prefix  [_core.py:1157]", {"TypeError", "KeyError"}, "same")
F_default_cfg   == Fr("get_defaults: except (TypeError, KeyError, argparse.ArgumentError) -> ArgumentError  [_core.py:1044]", {"TypeError", "KeyError", "ArgparseError"}, "ArgparseError")
F_value_key     == Fr("_check_value_key (plain type=): except (TypeError, ValueError) -> TypeError  [_core.py:1439]", {"TypeError", "ValueError"}, "TypeError")
F_path_resolve  == Fr("parse_path: except TypeError around Path(cfg_path) -> self.error  [_core.py:620-623, fix 3bf3b7b]", {"TypeError"}, "error")
F_path_read     == Fr("parse_path: except (OSError, UnicodeError) around fpath.get_content() -> self.error  [_core.py:629-632, fix 00b82b0]", {"OSError", "UnicodeError"}, "error")
F_float_conv    == Fr("adapt_typehints leaf: except OverflowError around float(val) -> ValueError  [_typehints.py:785-788, fix 02016da]", {"OverflowError"}, "ValueError")
F_registered    == Fr("RegisteredType.deserializer: except self.deserializer_exceptions (default ValueError, TypeError, AttributeError) -> ValueError  [typing.py:285-292]", {"ValueError", "TypeError", "AttributeError"}, "ValueError")
F_registered_dec == Fr("RegisteredType.deserializer of decimal.Decimal: except (ValueError, TypeError, AttributeError, ArithmeticError) -> ValueError  [typing.py:387-389, fix 4bbf74f]", {"ValueError", "TypeError", "AttributeError", "ArithmeticError"}, "ValueError")
F_defaults      == Fr("_parse_defaults_and_environ: except argparse.ArgumentError around get_defaults -> self.error  [_core.py:400-404, fix 5bebf56]", {"ArgparseError"}, "error")
F_env_list      == Fr("_load_env_vars: except get_loader_exceptions() (list value kept as text)  [_core.py:551]", {"Loader"}, "swallowed")

\* stages: where a failure originates, with the frames around it from the INSIDE out, per parse method
Methods == {"parse_args", "parse_object", "parse_string", "parse_path", "parse_env"}
Stage(name, frames, ant) == [name |-> name, frames |-> frames, ant |-> ant]    \* ant: the classes the code at this stage raises for bad input
StagesOf(m) ==
  CASE m = "parse_args" ->
        {Stage("adapt a command line value (adapt_typehints under _check_type)", <<F_check_type, F_parse_method>>, {"TypeError", "ValueError", "PathError"}),
         Stage("adapt a Union member", <<F_union_loop, F_check_type, F_parse_method>>, {"TypeError", "ValueError", "KeyError", "PathError", "ImportError", "AttributeError", "Other"}),
         Stage("convert an int to float (float(val) in the leaf branch)", <<F_float_conv, F_check_type, F_parse_method>>, {"OverflowError"}),       \* before fix 02016da: <<F_check_type, F_parse_method>>
         Stage("deserialise a registered type", <<F_registered, F_check_type, F_parse_method>>, {"ValueError", "TypeError", "AttributeError"}),
         Stage("deserialise a decimal.Decimal", <<F_registered_dec, F_check_type, F_parse_method>>, {"ValueError", "TypeError", "InvalidOperation"}),  \* before fix 4bbf74f: F_registered
         Stage("read the file of --cfg (Path.get_content in parse_path)", <<F_path_read, F_parse_method>>, {"OSError", "UnicodeError"}),               \* apply_config calls parse_path in the `else:` of its try (:206-207), outside its own handlers; before fix 00b82b0: <<F_parse_method>>, which does not catch a ValueError
         Stage("select the sub-command named in a config (get_subcommands)", <<F_parse_method>>, {"NSKeyError"}),                                      \* before fix 4f4bba8 an unknown name gave AttributeError later on
         Stage("an action's __call__ outside _check_type (argparse machinery)", <<F_known_args, F_parse_method>>, {"ArgparseError", "TypeError", "KeyError"}),
         Stage("load the text of --cfg (load_value in _load_config_parser_mode)", <<F_load_config, F_apply_config, F_parse_method>>, {"Loader"}),
         Stage("resolve the path of --cfg (Path in apply_config)", <<F_cfg_path, F_parse_method>>, {"PathError", "TypeError"}),
         Stage("apply actions to the content of --cfg", <<F_check_type, F_apply_config, F_parse_method>>, {"TypeError", "ValueError"}),
         Stage("whole-group value (_ActionConfigLoad._load_config)", <<F_config_load_a, F_parse_method>>, {"TypeError", "Loader"}),
         Stage("default config file", <<F_default_cfg, F_defaults, F_parse_method>>, {"TypeError", "KeyError", "ArgparseError"}),   \* get_defaults is called from _parse_defaults_and_environ, BEFORE parse_known_args; before fix 5bebf56: <<F_default_cfg, F_parse_method>>, an ArgumentError that exit_on_error=True does not turn into exit 2
         Stage("settings of a sub-command that are not a mapping (_subcommand_settings, _check_value_key)", <<F_parse_method>>, {"TypeError"}),   \* before fix 7c4a568: AttributeError ('int' object has no attribute 'clone')
         Stage("apply parsing links", <<F_links, F_parse_method>>, {"TypeError", "KeyError", "ValueError", "AttributeError", "Other"}),
         Stage("validate", <<F_validate, F_parse_method>>, {"TypeError", "KeyError"}),
         Stage("defaults and environment, sub-commands, leftovers", <<F_parse_method>>, {"TypeError", "KeyError"})}
    [] m = "parse_object" ->
        {Stage("turn the object into a namespace (_apply_actions: Namespace(cfg))", <<F_parse_method>>, {"TypeError", "KeyError"}),
         Stage("adapt a value of the object", <<F_check_type, F_parse_method>>, {"TypeError", "ValueError"}),
         Stage("convert an int to float (float(val) in the leaf branch)", <<F_float_conv, F_check_type, F_parse_method>>, {"OverflowError"}),
         Stage("deserialise a registered type", <<F_registered, F_check_type, F_parse_method>>, {"ValueError", "TypeError", "AttributeError"}),
         Stage("deserialise a decimal.Decimal", <<F_registered_dec, F_check_type, F_parse_method>>, {"ValueError", "TypeError", "InvalidOperation"}),
         Stage("select the sub-command named in a config (get_subcommands)", <<F_parse_method>>, {"NSKeyError"}),
         Stage("apply parsing links", <<F_links, F_parse_method>>, {"TypeError", "KeyError", "ValueError", "AttributeError", "Other"}),
         Stage("default config file", <<F_default_cfg, F_defaults, F_parse_method>>, {"TypeError", "KeyError", "ArgparseError"}),
         Stage("settings of a sub-command that are not a mapping (_subcommand_settings, _check_value_key)", <<F_parse_method>>, {"TypeError"}),
         Stage("validate", <<F_validate, F_parse_method>>, {"TypeError", "KeyError"})}
    [] m = "parse_string" ->
        {Stage("load the text (load_value in _load_config_parser_mode)", <<F_load_config, F_parse_method>>, {"Loader"}),
         Stage("adapt a value of the document", <<F_check_type, F_parse_method>>, {"TypeError", "ValueError"}),
         Stage("convert an int to float (float(val) in the leaf branch)", <<F_float_conv, F_check_type, F_parse_method>>, {"OverflowError"}),
         Stage("deserialise a registered type", <<F_registered, F_check_type, F_parse_method>>, {"ValueError", "TypeError", "AttributeError"}),
         Stage("deserialise a decimal.Decimal", <<F_registered_dec, F_check_type, F_parse_method>>, {"ValueError", "TypeError", "InvalidOperation"}),
         Stage("select the sub-command named in a config (get_subcommands)", <<F_parse_method>>, {"NSKeyError"}),
         Stage("apply parsing links", <<F_links, F_parse_method>>, {"TypeError", "KeyError", "ValueError", "AttributeError", "Other"}),
         Stage("default config file", <<F_default_cfg, F_defaults, F_parse_method>>, {"TypeError", "KeyError", "ArgparseError"}),
         Stage("settings of a sub-command that are not a mapping (_subcommand_settings, _check_value_key)", <<F_parse_method>>, {"TypeError"}),
         Stage("validate", <<F_validate, F_parse_method>>, {"TypeError", "KeyError"})}
    [] m = "parse_path" ->
        {Stage("resolve the path (Path(cfg_path) in parse_path)", <<F_path_resolve>>, {"PathError"}),        \* before fix 3bf3b7b: << >>, outside every handler
         Stage("read the file (Path.get_content in parse_path)", <<F_path_read>>, {"OSError", "UnicodeError"}),   \* before fix 00b82b0: << >>, outside every handler
         Stage("load the text (load_value in _load_config_parser_mode)", <<F_load_config, F_parse_method>>, {"Loader"}),
         Stage("adapt a value of the document", <<F_check_type, F_parse_method>>, {"TypeError", "ValueError"}),
         Stage("validate", <<F_validate, F_parse_method>>, {"TypeError", "KeyError"})}
    [] m = "parse_env" ->
        {Stage("adapt the value of a variable", <<F_check_type, F_parse_method>>, {"TypeError", "ValueError"}),
         Stage("deserialise a registered type", <<F_registered, F_check_type, F_parse_method>>, {"ValueError", "TypeError", "AttributeError"}),
         Stage("deserialise a decimal.Decimal", <<F_registered_dec, F_check_type, F_parse_method>>, {"ValueError", "TypeError", "InvalidOperation"}),
         Stage("load a list-valued variable", <<F_env_list, F_parse_method>>, {"Loader"}),
         Stage("load the config variable", <<F_load_config, F_apply_config, F_parse_method>>, {"Loader"}),
         Stage("default config file", <<F_default_cfg, F_defaults, F_parse_method>>, {"TypeError", "KeyError", "ArgparseError"}),
         Stage("settings of a sub-command that are not a mapping (_subcommand_settings, _check_value_key)", <<F_parse_method>>, {"TypeError"}),
         Stage("validate", <<F_validate, F_parse_method>>, {"TypeError", "KeyError"})}

\* what comes out when `cls` is raised inside the given frames: "error" (the documented channel), "swallowed", or the
\* class that escapes
RECURSIVE Propagate(_, _, _)
Propagate(cls, frames, i) ==
  IF i > Len(frames) THEN cls
  ELSE IF Catches(frames[i], cls) THEN
         (IF frames[i].to \in {"error", "swallowed"} THEN frames[i].to
          ELSE Propagate(IF frames[i].to = "same" THEN cls ELSE frames[i].to, frames, i + 1))
  ELSE Propagate(cls, frames, i + 1)
Comes(stage, cls) == Propagate(cls, stage.frames, 1)
\* jsonargparse.ArgumentError IS argparse.ArgumentError: with exit_on_error = FALSE an escaping ArgparseError is the
\* documented channel itself (with exit_on_error = TRUE it would not be; parse_known_args:307 converts it there)
Protected(stage, cls) == Comes(stage, cls) \in {"error", "swallowed", "ArgparseError"}

=============================================================================
