------------------------------ MODULE MC_GroupsX ------------------------------
(* Bounded instance of GroupsX.tla.  Three families of field lists:                                                   *)
(*   D  group defaults: fields with / without declared default x group default absent / a value / None                *)
(*   R  required components: a required subclass-typed member, required options two levels deep (h.x)                  *)
(*   V  fields named like Namespace methods whose type needs conversion, next to an ordinary float field               *)
(* x inputs of up to MaxItems items (set, whole group inline, whole group as a file; valid and ill-typed) x channels.  *)
EXTENDS GroupsX, Json, SequencesExt
CONSTANTS MaxItems, Wide, Emit

Fd(n, k, d, g) == [name |-> n, kind |-> k, hasdef |-> d, gdef |-> g]
\* ---- D
DCore == <<Fd("name", "ostr", TRUE, "none"), Fd("limit", "oint", TRUE, "none"), Fd("limit", "oint", TRUE, "val")>>
DRest == <<Fd("lim", "oint", TRUE, "absent"), Fd("k", "int", TRUE, "val"), Fd("k", "int", TRUE, "absent"), Fd("a", "int", FALSE, "val"),
           Fd("a", "int", FALSE, "absent"), Fd("o", "oint", FALSE, "val"), Fd("o", "oint", FALSE, "none"), Fd("l", "list", TRUE, "val"),
           Fd("x", "float", TRUE, "val"), Fd("t", "tuple", TRUE, "val"), Fd("e", "enum", TRUE, "val")>>
DAll == DCore \o DRest
DPartners == {1, 2, 3, 5, 7, 8, 10}                                              \* quick: the partners of a core field
DLists == {<<DAll[i]>> : i \in {j \in 1..Len(DAll) : DAll[j].gdef # "absent"}}
          \cup {p \in {<<DAll[i], DAll[j]>> : i \in (IF Wide THEN 1..Len(DAll) ELSE 1..Len(DCore)), j \in (IF Wide THEN 1..Len(DAll) ELSE DPartners)} :
                  /\ p[1].name # p[2].name /\ (p[1].gdef # "absent" \/ p[2].gdef # "absent")
                  /\ \E i, j \in 1..Len(DAll) : i < j /\ p = <<DAll[i], DAll[j]>>}
\* ---- R
Model == Fd("model", "sub", FALSE, "absent")  K7 == Fd("k", "int", TRUE, "absent")  HX == Fd("h.x", "int", FALSE, "absent")  HY == Fd("h.y", "int", TRUE, "absent")
RLists == {<<Model>>, <<Model, K7>>, <<HX>>, <<HX, K7>>, <<HX, HY>>, <<Model, HX>>} \cup (IF Wide THEN {<<Model, HX, K7>>, <<HX, HY, K7>>} ELSE {})
\* ---- V
N7 == Fd("n", "float", TRUE, "absent")
MethodNames == <<"values", "keys", "items", "get", "update">>
ConvKinds == <<"float", "tuple", "oint", "enum">>
VF(n, k, d) == <<Fd(n, k, d, "absent"), N7>>
VLists == IF Wide
          THEN {VF(MethodNames[i], ConvKinds[j], FALSE) : i \in 1..5, j \in 1..4} \cup {VF("values", ConvKinds[j], TRUE) : j \in {1, 2, 4}}
               \cup {VF("m", ConvKinds[j], FALSE) : j \in 1..4}                          \* an ordinary name, for comparison
          ELSE {VF("values", ConvKinds[j], FALSE) : j \in 1..4} \cup {VF("keys", "tuple", FALSE), VF("items", "float", FALSE), VF("get", "enum", FALSE),
                VF("update", "oint", FALSE), VF("values", "tuple", TRUE), VF("m", "tuple", FALSE)}
FieldLists == DLists \cup RLists \cup VLists

It(op, f, raw, gv) == [op |-> op, f |-> f, raw |-> raw, gv |-> gv]
\* the valid raw forms of a kind (tag makes values of different items different), and one ill-typed form
Raws(kind, tag) ==
  CASE kind \in {"int", "float"} -> {<<21, tag>>}
    [] kind \in {"str"} -> {<<27, tag>>}
    [] kind \in {"list", "tuple"} -> {<<23, tag, tag + 1>>}
    [] kind = "enum" -> {<<24, IF (tag \div 10) \in {1, 3, 5} THEN 2 ELSE 1>>}
    [] kind = "oint" -> {<<21, tag>>, <<22, tag>>, <<29>>}
    [] kind = "ostr" -> {<<27, tag>>, <<29>>}
    [] kind = "sub" -> {<<25, 1>>, <<25, 2>>, <<26, 2, tag>>}
BadRaws(kind) == IF kind \in {"str", "ostr"} THEN {} ELSE {<<28>>}             \* every text is a valid str
First(S) == CHOOSE x \in S : \A y \in S : x = y \/ x[1] < y[1] \/ (x[1] = y[1] /\ Len(x) <= Len(y))
ItemsFor(fields, tag) ==
  UNION {LET fd == fields[j] IN
           {It("set", fd.name, r, << >>) : r \in Raws(fd.kind, tag) \cup BadRaws(fd.kind)}
           \cup {It("group", fd.name, << >>, << <<fd.name, r>> >>) : r \in Raws(fd.kind, tag)}
         : j \in 1..Len(fields)}
  \cup (IF Len(fields) >= 2
        THEN {It(op, fields[1].name, << >>, << <<fields[1].name, r>>, <<fields[2].name, First(Raws(fields[2].kind, tag))>> >>) : op \in {"group", "gfile"}, r \in Raws(fields[1].kind, tag)}
             \cup {It("group", fields[1].name, << >>, << <<fields[1].name, r>>, <<fields[2].name, First(Raws(fields[2].kind, tag))>> >>) : r \in BadRaws(fields[1].kind)}
        ELSE {})
RECURSIVE Seqs(_, _, _)
Seqs(fields, n, from) == IF n = 0 THEN {<< >>} ELSE {<<it>> \o r : it \in ItemsFor(fields, 10 * from), r \in Seqs(fields, n - 1, from + 1)}
FieldsOf(it) == IF IsGroupOp(it) THEN {it.gv[k][1] : k \in 1..Len(it.gv)} ELSE {it.f}
Distinct(items) == \A i, j \in 1..Len(items) : i # j => FieldsOf(items[i]) \cap FieldsOf(items[j]) = {}
\* only the command line orders its items; a file is given to --g on the command line only; there is one APP_G variable
OkFor(ch, its) == \/ ch = "argv"
                  \/ ch = "defaults" /\ its = << >>
                  \/ /\ ch \in {"cfg", "env", "obj"} /\ Distinct(its)
                     /\ \A j \in 1..Len(its) : its[j].op # "gfile"
                     /\ (ch = "env" => Cardinality({j \in 1..Len(its) : its[j].op = "group"}) <= 1)

VARIABLES fields, chan, items, st
vars == <<fields, chan, items, st>>
Init == fields \in FieldLists /\ chan = "argv" /\ items = << >> /\ st = 0
Pick == st = 0 /\ st' = 1 /\ UNCHANGED fields
        /\ \E c \in {"argv", "cfg", "env", "obj", "defaults"} : chan' = c
        /\ \E n \in 0..MaxItems : \E q \in Seqs(fields, n, 1) : items' = q
Next == Pick
Spec == Init /\ [][Next]_vars
Done == st = 1 /\ OkFor(chan, items)

\* C07: every style yields the one outcome -- except the recorded deviation of the dotted style
XStylesAgree == Done => \A sty \in Styles : ~XDottedNoWholeGroup(sty, chan, items) => XAlgOutcome(sty, chan, fields, items) = XOutcome(chan, fields, items)
\* the group default decides, None included: with no input every field given a group default holds exactly that
NoneStaysNone == (Done /\ items = << >> /\ XOutcome(chan, fields, items).ok) =>
                   \A j \in 1..Len(fields) : (fields[j].gdef = "none" => XOutcome(chan, fields, items).cfg[fields[j].name] = NoneV)
                                             /\ (fields[j].gdef = "val" => XOutcome(chan, fields, items).cfg[fields[j].name] = GVal(fields[j].kind))
\* a required member (no declared default, no group default, not Optional) that no item gives => rejected, through every channel
Mentioned(its) == UNION {FieldsOf(its[j]) : j \in 1..Len(its)}
RequiredEnforced == (Done /\ chan # "defaults") =>
                      \A j \in 1..Len(fields) : (~fields[j].hasdef /\ fields[j].gdef = "absent" /\ ~IsOptional(fields[j].kind) /\ fields[j].name \notin Mentioned(items))
                                                  => ~XOutcome(chan, fields, items).ok
\* every spelling of the whole group is the same input: replacing "gfile" by "group" does not change the outcome
SpellingFree == Done => XOutcome(chan, fields, items) = XOutcome(chan, fields, [j \in 1..Len(items) |-> [items[j] EXCEPT !.op = IF @ = "gfile" THEN "group" ELSE @]])
EmitCase == (Emit /\ Done) => PrintT(ToJson([fields |-> fields, chan |-> chan, items |-> items, ref |-> XOutcome(chan, fields, items),
                                             dotted |-> XAlgOutcome("dotted", chan, fields, items), dev |-> XDottedNoWholeGroup("dotted", chan, items)]))
=============================================================================
