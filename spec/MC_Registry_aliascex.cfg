SPECIFICATION Spec
CONSTANTS
  Depth = 3
  Emit = FALSE
  DepthA = 4
  Aliased = TRUE
INVARIANT HandlersRefine
INVARIANT CreateRefines
INVARIANT CreateStateAgrees
INVARIANT AliasRefines
INVARIANT CreateFlagsExclusive
INVARIANT EmitBehaviour
CHECK_DEADLOCK FALSE
