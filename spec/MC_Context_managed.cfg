SPECIFICATION Spec
CONSTANTS
  ClearOnError = FALSE
  Full = FALSE
  Emit = FALSE
INVARIANT Balanced
INVARIANT FramesExplainCtx
INVARIANT NoStaleRead
CHECK_DEADLOCK FALSE
