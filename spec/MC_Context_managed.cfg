SPECIFICATION Spec
CONSTANTS
  ShtabBreaksDefaults = {"A", "B"}
  ClearOnError = TRUE
  Full = FALSE
  Help = FALSE
  Emit = FALSE
INVARIANT Balanced
INVARIANT FramesExplainCtx
INVARIANT NoStaleRead
CHECK_DEADLOCK FALSE
