SPECIFICATION Spec
CONSTANTS
  ShtabBreaksDefaults = {"A"}
  ClearOnError = TRUE
  Full = FALSE
  Emit = FALSE
INVARIANT Balanced
INVARIANT FramesExplainCtx
INVARIANT NoStaleRead
CHECK_DEADLOCK FALSE
