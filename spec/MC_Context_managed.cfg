SPECIFICATION Spec
CONSTANTS
  ClearOnError = TRUE
  Full = FALSE
  Emit = FALSE
INVARIANT Balanced
INVARIANT FramesExplainCtx
INVARIANT NoStaleRead
CHECK_DEADLOCK FALSE
