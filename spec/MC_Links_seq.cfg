INIT InitSeq
NEXT NextSeq
CONSTANTS
  N = 3
  SelfLoops = FALSE
  Emit = TRUE
  SeqMode = TRUE
INVARIANT AlgRefinesRef
INVARIANT AlgRefinesRefOp
INVARIANT GraphRepresents
INVARIANT RefLaws
INVARIANT EmitCase
CHECK_DEADLOCK FALSE
