SPECIFICATION Spec
CONSTANTS
  Tier = "thorough"
  Emit = "accepted"
INVARIANT InvRefLaws
INVARIANT InvRefPermInvariant
INVARIANT InvAlg
CHECK_DEADLOCK FALSE
