SPECIFICATION Spec
CONSTANTS
  Tier = "thorough"
  Emit = "accepted"
  Laws = "all"
INVARIANT InvCase
CHECK_DEADLOCK FALSE
