SPECIFICATION Spec
CONSTANTS
  Tier = "thorough"
  Emit = "accepted"
  Laws = "c10"
INVARIANT InvAlg
CHECK_DEADLOCK FALSE
