INIT Init
NEXT Next
