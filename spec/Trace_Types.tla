---------------------------- MODULE Trace_Types ----------------------------
(* Validation of observations recorded from the real type-hint adapter (code -> spec), C02 and C10.       *)
(* TRACE_FILE holds [obs |-> << ... >>]; an observation is one of                                         *)
(*   [kind |-> "parse", t, d, x, ok, v]   one parse of one key of type t (default d) with input x through *)
(*        parse_object({key: x}) or parse_args(["--key=" + text]): accepted?, and the resulting value;    *)
(*   [kind |-> "fix", t, d, absent, norm, x, first, vok, sok, second, draised, rok, dsame, ser, ser2,      *)
(*    jdraised, jrok, jdsame, jser, jser2]   `first` is the accepted result for input x (a value, or a    *)
(*        FileV: the name of a config file given to an enable_path argument), or, with absent, for the   *)
(*        key not given (norm: Alg says this way of parsing normalises defaults).  What happened to it:   *)
(*        parser.validate passed (vok);                                                                    *)
(*        parse_object of the result succeeded (sok) and returned `second`; dump raised (draised), the    *)
(*        dump re-parsed (rok) and the second dump was byte-identical (dsame); ser / ser2 are the first   *)
(*        and the second dump read back by the stock YAML loader; j...: the same for format="json".       *)
(* Sets arrive as arrays and dicts as arrays of pairs; V / T rebuild the spec's values and type terms.     *)
(* Each observation is checked on its own; a failing clause is printed as <<"R", kind, index, clause>>:    *)
(*   ref...   the real code disagrees with the Ref layer (verdict); the suffix says whether it behaves     *)
(*            exactly as the Alg layer's named deviation ("ref/as-alg/<names>") or in another way          *)
(*   alg...   the real code agrees with Ref but not with the Alg transcription (drift)                     *)
EXTENDS Types, Json, IOUtils
TrFieldOrder == [k |-> "tag", v |-> "payload"]     \* first record of the root module: fixes TLC's field order

Data == JsonDeserialize(IOEnv.TRACE_FILE)
Obs  == Data.obs
N    == Len(Obs)

RECURSIVE V(_)
V(j) == CASE j.k \in {"list", "tuple"} -> [k |-> j.k, v |-> [n \in 1..Len(j.v) |-> V(j.v[n])]]
          [] j.k = "set"  -> SetV({V(j.v[n]) : n \in 1..Len(j.v)})
          [] j.k = "bag"  -> BagV(BagOf([n \in 1..Len(j.v) |-> V(j.v[n])]))
          [] j.k = "dict" -> DictV([n \in 1..Len(j.v) |-> <<V(j.v[n][1]), V(j.v[n][2])>>])
          [] j.k = "float" -> FloatV(j.v[1], j.v[2])
          [] j.k = "enum" -> EnumV(j.v[1], j.v[2])
          [] j.k = "file" -> FileV(j.v[1], V(j.v[2]))
          [] j.k = "ns"   -> [k |-> "ns", v |-> [n \in 1..Len(j.v) |-> <<V(j.v[n][1]), V(j.v[n][2])>>]]     \* a Namespace (opaque values)
          [] OTHER -> j
RECURSIVE T(_)
T(j) == CASE j.k = "literal" -> LitT([n \in 1..Len(j.v) |-> V(j.v[n])])
          [] j.k = "enum" -> EnumT(j.v[1].v)
          [] j.k \in {"rstr", "rnum", "reg"} -> [k |-> j.k, v |-> NameOf(j.v[1].v)]
          [] OTHER -> [k |-> j.k, v |-> [n \in 1..Len(j.v) |-> T(j.v[n])]]

VARIABLE i
Init == i \in 1..N
Next == UNCHANGED i

Say(kind, idx, clause) == PrintT(<<"R", kind, idx, clause>>)
DevStr(d) == (IF "origNested" \in d THEN "+origNested" ELSE "")
             \o (IF "inPlace" \in d THEN "+inPlace" ELSE "") \o (IF "setListing" \in d THEN "+setListing" ELSE "")
             \o (IF "validateLeak" \in d THEN "+validateLeak" ELSE "") \o (IF "dumpLeak" \in d THEN "+dumpLeak" ELSE "") \o (IF "rawDefault" \in d THEN "+rawDefault" ELSE "")
             \o (IF "litEq" \in d THEN "+litEq" ELSE "") \o (IF "dictKey" \in d THEN "+dictKey" ELSE "")
             \o (IF "serCollision" \in d THEN "+serCollision" ELSE "") \o (IF "yamlFloatStr" \in d THEN "+yamlFloatStr" ELSE "")
             \o (IF "serLenient" \in d THEN "+serLenient" ELSE "") \o (IF "jsonKeyCollision" \in d THEN "+jsonKeyCollision" ELSE "") \o (IF "leftObject" \in d THEN "+leftObject" ELSE "") \o (IF "leftSet" \in d THEN "+leftSet" ELSE "")
             \o (IF "leftTuple" \in d THEN "+leftTuple" ELSE "") \o (IF "firstMatch" \in d THEN "+firstMatch" ELSE "")

CheckParse(n) ==
  LET o   == Obs[n]
      ty  == T(o.t)
      inp == V(o.x)
      out == V(o.v)
      a   == AlgParse(ty, inp, V(o.d))                                              \* d: the default of the argument
      refOK == o.ok = Accepts(ty, inp) /\ (o.ok => (Canon(out) \in {Canon(r) : r \in TopResults(ty, inp)} /\ ConformsTop(ty, out)))
      algOK == "setListing" \in a.dev                                                \* a set was listed where the order shows: any order, any outcome
               \/ (o.ok = a.ok /\ (o.ok => Canon(out) = Canon(a.v)))
  IN /\ refOK \/ Say("parse", n, IF algOK /\ Devs(a) # {} THEN "ref/as-alg/" \o DevStr(Devs(a)) ELSE "ref/other/" \o DevStr(a.dev))
     /\ algOK \/ Say("parse", n, "alg")

\* the dumped value against the predicted representation; a set is written in no particular order
RECURSIVE SerMatch(_, _)
SerMatch(sp, ob) ==
  CASE sp.k = "bag"  -> ob.k = "list" /\ Len(ob.v) = Len(AsSeq(sp))                       \* as multisets
                        /\ \A e \in DOMAIN sp.v : IF e.k = "anystr" THEN Cardinality({n \in 1..Len(ob.v) : ob.v[n].k = "str"}) >= sp.v[e]
                                                  ELSE Cardinality({n \in 1..Len(ob.v) : SerMatch(e, ob.v[n])}) = sp.v[e]
    [] sp.k \in {"list", "tuple"} -> ob.k = "list" /\ Len(ob.v) = Len(sp.v) /\ \A n \in 1..Len(sp.v) : SerMatch(sp.v[n], ob.v[n])   \* a tuple is written as a list
    [] sp.k = "dict" -> ob.k = "dict" /\ Len(ob.v) = Len(sp.v)                           \* (json writes every key as a string)
                        /\ \A p \in Range(sp.v) : \E q \in Range(ob.v) : (p[1] = q[1] \/ StrOfInt(p[1]) = q[1]) /\ SerMatch(p[2], q[2])
    [] sp.k = "anystr" -> ob.k = "str"                                                    \* str() of something the model does not spell
    [] OTHER -> sp = ob

\* the configuration after a dump against the predicted one: what was serialised in place is a list in no particular
\* order where it was a set; everything else is the value it was
RECURSIVE LeakMatch(_, _)
LeakMatch(sp, ob) ==
  CASE sp.k = "bag"  -> ob.k = "list" /\ Len(ob.v) = Len(AsSeq(sp))
                        /\ \A e \in DOMAIN sp.v : IF e.k = "anystr" THEN Cardinality({n \in 1..Len(ob.v) : ob.v[n].k = "str"}) >= sp.v[e]
                                                  ELSE Cardinality({n \in 1..Len(ob.v) : LeakMatch(e, ob.v[n])}) = sp.v[e]
    [] sp.k \in {"list", "tuple"} -> ob.k = sp.k /\ Len(ob.v) = Len(sp.v) /\ \A n \in 1..Len(sp.v) : LeakMatch(sp.v[n], ob.v[n])
    [] sp.k = "dict" -> ob.k = "dict" /\ Len(ob.v) = Len(sp.v) /\ \A p \in Range(sp.v) : \E q \in Range(ob.v) : p[1] = q[1] /\ LeakMatch(p[2], q[2])
    [] sp.k = "anystr" -> ob.k = "str"
    [] OTHER -> Canon(sp) = Canon(ob)

\* the tree has a set with two or more members: dump writes them in the order in which Python happens to list the set
RECURSIVE MultiBag(_)
MultiBag(sp) == CASE sp.k = "bag" -> Cardinality(DOMAIN sp.v) > 1
                  [] sp.k = "set" -> Cardinality(sp.v) > 1                      \* a set that was left as it is (yaml: !!set)
                  [] sp.k \in {"list", "tuple"} -> \E n \in 1..Len(sp.v) : MultiBag(sp.v[n])
                  [] sp.k = "dict" -> \E n \in 1..Len(sp.v) : MultiBag(sp.v[n][2])
                  [] OTHER -> FALSE

\* deviations of a re-parse that change its outcome (litEq / dictKey return the value they were given; litEq is
\* offered as a reason only when nothing else is, see d2 below)
Causal == {"inPlace", "origNested", "setListing", "firstMatch", "validateLeak"}
CheckFix(n) ==
  LET o   == Obs[n]
      ty  == T(o.t)
      fst == V(o.first)
      dd  == V(o.d)                                                                  \* the default of the argument
      b   == AlgParse(ty, fst, dd)
      s   == IF fst = NoneV THEN Ok(NoneV, {}, NoneV) ELSE AlgDump(ty, fst)
      \* how `first` came about, when the key was not given (o.absent) or given as x (o.given): what Alg predicts for it,
      \* and the deviation of that first parse which is a reason for what follows (a default that was filled in as it is)
      \* (for a value that is given C02 compares the first parse; here only the file channel is looked at again)
      a0  == IF o.absent THEN AlgParseAbsent(ty, dd, o.norm) ELSE IF o.x.k = "file" THEN AlgParse(ty, V(o.x), dd) ELSE Ok(fst, {}, fst)
      firstAsAlg == a0.ok /\ Canon(a0.v) = Canon(fst)
      fd  == IF firstAsAlg THEN a0.dev \cap {"rawDefault"} ELSE {}
      \* the tree that is parsed again is the one that was really written
      back == IF o.ser.k = "other" THEN Unbag(s.v) ELSE V(o.ser)
      rd  == fd \cup (IF s.ok THEN AlgParse(ty, back, dd).dev \cap Causal ELSE {})
      \* both dumps are the predicted tree and differ only in the order of the members of a set
      reorder(ok, s1, s2) == ok /\ s.ok /\ MultiBag(s.v) /\ SerMatch(s.v, V(s1)) /\ SerMatch(s.v, V(s2))
      \* what the Alg layer offers as the reason: the dumper raised / the order of a set / something on the way dump -> parse
      \* dump changed the configuration exactly as AfterDump says (dumpLeak)
      leaked == Canon(V(o.after)) # Canon(fst) /\ MutableBelowTuple(fst, FALSE) /\ LeakMatch(AfterDump(ty, fst), V(o.after))
      inst == {V(o.inst[m]) : m \in 1..Len(o.inst)}          \* the numbers / texts of the result that are instances of a restricted class
      why(raised, cannotWrite, notThisFormat, ok, s1, s2) ==
        IF raised THEN (IF s.dev \cap cannotWrite # {} THEN "/as-alg/" \o DevStr(s.dev \cap cannotWrite)
                        ELSE IF "yamlFloatStr" \in notThisFormat THEN "/other"                               \* (json writes such an instance)
                        ELSE IF Lefts(ty, StripMeta(fst)) \cap inst # {} THEN "/as-alg/+leftInstance"
                        ELSE "/other")
        ELSE IF fst = NoneV /\ dd # NoneV THEN "/as-alg/+noneOverDefault"                 \* dump leaves None out, the re-parse fills in the default
        ELSE IF reorder(ok, s1, s2) THEN "/as-alg/+setOrder"
        ELSE IF "setListing" \in s.dev \cup rd THEN "/as-alg/+setListing"               \* a set is listed where the order shows: any outcome
        ELSE LET d == ((s.dev \ {"leftObject"}) \cup rd) \ notThisFormat              \* (a set of lists written as !!set does not load)
                 d2 == IF s.ok THEN AlgParse(ty, back, dd).dev \cap {"litEq"} ELSE {}   \* lets an earlier Union member take the value
                 \* the written tree is read back as ANOTHER value (by an earlier Union member) exactly as Alg predicts, second dump included
                 r  == AlgParse(ty, back, dd)
                 \* (or refused, exactly as Alg predicts)
                 shift == s.ok /\ r.ok = ok /\ (ok => (Canon(r.v) # Canon(fst) /\ AlgDump(ty, r.v).ok /\ SerMatch(AlgDump(ty, r.v).v, V(s2))))
             IN IF d # {} THEN "/as-alg/" \o DevStr(d) ELSE IF d2 # {} THEN "/as-alg/" \o DevStr(d2)
                ELSE IF shift THEN "/as-alg/+reparseShift" ELSE "/other"
  IN /\ o.vok \/ Say("fix", n, "ref/validate")                                            \* a result passes validation
     /\ (o.sok /\ Canon(V(o.second)) = Canon(fst))                                        \* parsing it again changes nothing
          \/ Say("fix", n, IF "setListing" \in b.dev THEN "ref/second/as-alg/+setListing"       \* any order, any outcome
                           ELSE IF (b.dev \cup fd) # {} /\ b.ok = o.sok /\ (b.ok => Canon(b.v) = Canon(V(o.second))) THEN "ref/second/as-alg/" \o DevStr(b.dev \cup fd)
                           ELSE "ref/second/other")
     \* ... and the same again on the SAME object after validate(cfg) and dump(cfg): dump must not touch the configuration
     \* it is given, and the result is still a fixed point afterwards (values are normalised exactly once)
     /\ Canon(V(o.after)) = Canon(fst)
          \/ Say("fix", n, IF leaked THEN "ref/after-dump/as-alg/+dumpLeak" ELSE "ref/after-dump/other")
     /\ (o.tok /\ Canon(V(o.third)) = Canon(fst))
          \/ Say("fix", n, IF "setListing" \in b.dev THEN "ref/third/as-alg/+setListing"
                           \* what dump left in the configuration (dumpLeak) is what is parsed now
                           ELSE IF leaked /\ LET r3 == AlgParse(ty, V(o.after), dd)
                                             IN "setListing" \in r3.dev \/ (r3.ok = o.tok /\ (o.tok => Canon(r3.v) = Canon(V(o.third)))) THEN "ref/third/as-alg/+dumpLeak"
                           ELSE IF (b.dev \cup fd) # {} /\ b.ok = o.tok /\ (b.ok => Canon(b.v) = Canon(V(o.third))) THEN "ref/third/as-alg/" \o DevStr(b.dev \cup fd)
                           ELSE "ref/third/other")
     /\ (o.rok /\ o.dsame) \/ Say("fix", n, "ref/dump" \o why(o.draised, {"leftObject"}, {"jsonKeyCollision"}, o.rok, o.ser, o.ser2))
     /\ (o.jrok /\ o.jdsame) \/ Say("fix", n, "ref/dumpjson" \o why(o.jdraised, {"leftObject", "leftSet"}, {"yamlFloatStr"}, o.jrok, o.jser, o.jser2))
     /\ ("setListing" \in b.dev \/ ~(o.sok /\ Canon(V(o.second)) = Canon(fst)) \/ (b.ok /\ Canon(b.v) = Canon(fst)))
          \/ Say("fix", n, "alg/second")                                                 \* ... and the transcription agrees
     /\ (firstAsAlg \/ "setListing" \in a0.dev) \/ Say("fix", n, "alg/first")
     /\ ("setListing" \in s.dev \/ o.draised \/ (s.ok /\ SerMatch(s.v, V(o.ser)))) \/ Say("fix", n, "alg/ser")

\* kind "opq": a value whose type the Alg layer does not model (class-typed options: List[Base], Dict[str, List[Base]] with
\* sub-class specs whose init_args hold Enum / timedelta / nested values -- Classes are C14's).  Only the laws themselves, on
\* the recorded values: validate passes; second = first; after validate(cfg) and dump(cfg) on the same object cfg is unchanged
\* and still a fixed point; the dumps re-parse and are byte-identical.
CheckOpaque(n) ==
  LET o == Obs[n]
      fst == V(o.first)
  IN /\ o.vok \/ Say("opq", n, "ref/validate")
     /\ (o.sok /\ V(o.second) = fst) \/ Say("opq", n, "ref/second/other")
     /\ V(o.after) = fst \/ Say("opq", n, "ref/after-dump")
     /\ (o.tok /\ V(o.third) = fst) \/ Say("opq", n, "ref/third/other")
     /\ (o.rok /\ o.dsame) \/ Say("opq", n, "ref/dump/other")
     /\ (o.jrok /\ o.jdsame) \/ Say("opq", n, "ref/dumpjson/other")

\* kind "opqc" (C10 round 4): a class spec reached through a CALLABLE type (Callable[..., Base], Callable[[int], Base],
\* Optional[Callable[[int], Base]]) whose init_args are not plain scalars once parsed (Enum, Tuple, Set, pathlib.Path, timedelta,
\* nested dataclass).  The laws of CheckOpaque, and: the dumped tree (yaml: ser, json: jser) is SerForm(first) -- the serialised form
\* of every init arg -- and the route through the plain class type (pfirst / pser / pjser: the same class and init_args given to
\* `--m: Base`, plus the parameter `skip` that a Callable[[int], .] leaves to the caller) gives the same value and the same tree.
CheckCallableSpec(n) ==
  LET o == Obs[n]
      fst == V(o.first)
      pf == V(o.pfirst)
  IN /\ o.vok \/ Say("opqc", n, "ref/validate")
     /\ (o.sok /\ V(o.second) = fst) \/ Say("opqc", n, "ref/second/other")
     /\ V(o.after) = fst \/ Say("opqc", n, "ref/after-dump")
     /\ (o.tok /\ V(o.third) = fst) \/ Say("opqc", n, "ref/third/other")
     /\ (o.rok /\ o.dsame) \/ Say("opqc", n, "ref/dump/other")
     /\ (o.jrok /\ o.jdsame) \/ Say("opqc", n, "ref/dumpjson/other")
     /\ (o.draised \/ (Serialised(V(o.ser)) /\ SerMatch(SerForm(fst), V(o.ser)))) \/ Say("opqc", n, "ref/serialised/yaml")
     /\ (o.jdraised \/ (Serialised(V(o.jser)) /\ SerMatch(SerForm(fst), V(o.jser)))) \/ Say("opqc", n, "ref/serialised/json")
     /\ SpecEq(DropArg(pf, o.skip), fst) \/ Say("opqc", n, "ref/route/first")
     /\ (o.draised \/ (SerMatch(SerForm(pf), V(o.pser)) /\ SerMatch(DropArg(SerForm(pf), o.skip), V(o.ser)))) \/ Say("opqc", n, "ref/route/dump")
     /\ (o.jdraised \/ (SerMatch(SerForm(pf), V(o.pjser)) /\ SerMatch(DropArg(SerForm(pf), o.skip), V(o.jser)))) \/ Say("opqc", n, "ref/route/dumpjson")

Check == IF Obs[i].kind = "parse" THEN CheckParse(i) ELSE IF Obs[i].kind = "opq" THEN CheckOpaque(i) ELSE IF Obs[i].kind = "opqc" THEN CheckCallableSpec(i) ELSE CheckFix(i)
Inv == Check \/ TRUE
=============================================================================
