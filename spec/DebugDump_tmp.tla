---- MODULE DebugDump_tmp ----
EXTENDS Trace_Dump
K == atoi(IOEnv.DBG_K)
o == Cfgs[K]
shape == Shapes[o.sh]
ASSUME PrintT(<<"TREE", DumpTree(shape, o.cfg, Fl(o, FALSE))>>)
ASSUME PrintT(<<"BACK", ThroughText(o.fmt, DumpTree(shape, o.cfg, Fl(o, FALSE)), FALSE)>>)
ASSUME PrintT(<<"ALG", ReparseCfg(shape, o.cfg, o.fmt, Fl(o, FALSE))>>)
ASSUME PrintT(<<"WANT", Expected(shape, o.cfg, Fl(o, FALSE))>>)
ASSUME PrintT(<<"DEVS", CfgDeviations(shape, o.cfg, o.fmt, Fl(o, FALSE))>>)
ASSUME PrintT(<<"SHAPE", shape>>)
====
