INIT InitExt
NEXT NextExt
CONSTANTS
  MaxFlat = 3
  FullPermsUpTo = 3
  AllKindsUpTo = 2
  MaxDeepLinks = 2
  DeepFull = FALSE
  Emit = TRUE
  XLevel = 1
INVARIANT XAddRefinesRef
INVARIANT XOwnerTargetedExact
INVARIANT XAlgRefinesRef
INVARIANT XLeafExact
INVARIANT DeviationExact
INVARIANT PlanSane
INVARIANT TargetNodeIsObject
INVARIANT XShapeSane
INVARIANT EmitExt
CHECK_DEADLOCK FALSE
