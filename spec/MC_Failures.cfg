SPECIFICATION Spec
CONSTANTS
  Emit = TRUE
INVARIANT AnticipatedProtected
INVARIANT ConversionsLand
INVARIANT ExitPasses
INVARIANT OuterFrame
INVARIANT EmitRow
CHECK_DEADLOCK FALSE
