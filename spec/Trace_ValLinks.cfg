INIT Init
NEXT Next
INVARIANT Inv
CHECK_DEADLOCK FALSE
