SPECIFICATION Spec
CONSTANTS
  Focus = {"n"}
  NDcf = 2
  MaxArgv = 2
  Repeat = FALSE
  Emit = TRUE
INVARIANT DocumentedOrder
INVARIANT StagesAgree
INVARIANT NoPendingAppend
INVARIANT LastOptWins
INVARIANT EmitCase
CHECK_DEADLOCK FALSE
