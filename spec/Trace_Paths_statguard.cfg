CONSTANTS
  CwdVariant = "code"
  StatGuard = TRUE
INIT Init
NEXT Next
INVARIANT Inv
CHECK_DEADLOCK FALSE
