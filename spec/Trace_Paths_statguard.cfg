CONSTANTS
  CwdVariant = "code"
  StatGuard = TRUE
  CcStopsAtExisting = TRUE
INIT Init
NEXT Next
INVARIANT Inv
CHECK_DEADLOCK FALSE
