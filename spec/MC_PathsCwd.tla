---------------------------- MODULE MC_PathsCwd ----------------------------
(* Bounded instance of Paths.tla, part (b): every chain of <= MaxDepth config files over the directories Dirs,     *)
(* every order of value / nested reference inside each file, two process working directories, both ways of        *)
(* reaching the first file, a failure at every level (a path value that points to nothing; a nested file that is   *)
(* not there; a file that cannot be loaded) -- every step of the cwd machine on each.                                                           *)
EXTENDS Paths, Json, SequencesExt
CONSTANTS MaxDepth, Emit,
          Universe      \* "chain" (rounds 1-3: regular files named plainly, decoys everywhere, planted failures) | "link" / "linkfull" (round 4)

Dirs   == {"A", "B", "C"}
Starts == {"P", "A"}                  \* the process cwd: a directory of its own, or the directory of a config file
Fails(n) == {<<"none", 0>>} \cup {<<"badpath", k>> : k \in 1..n} \cup {<<"missingfile", k>> : k \in 2..n} \cup {<<"badyaml", k>> : k \in 1..n}
\* (the last file holds no nested reference, so the order inside it does not matter: first[n] = TRUE)
ChainBase == UNION {{q \in [dirs : [1..n -> Dirs], first : [1..n -> BOOLEAN], start : Starts, entry : {"file", "sub"}, fail : Fails(n)] : q.first[n]} : n \in 1..(IF Universe = "chain" THEN MaxDepth ELSE 0)}
ChainPrograms == {[dirs |-> q.dirs, tdirs |-> q.dirs, xdirs |-> q.dirs, place |-> [k \in DOMAIN q.dirs |-> "all"], first |-> q.first, start |-> q.start, entry |-> q.entry, fail |-> q.fail] : q \in ChainBase}
\* Round 4 -- symbolic links.  The file of level k is named in dirs[k]; it is a symbolic link to a file in tdirs[k] when
\* tdirs[k] # dirs[k]; it is spelled X/dl/../file through a symbolic link dl (in xdirs[k]) to a subdirectory of dirs[k] when
\* xdirs[k] # dirs[k].  The value's relative name exists next to the link only / next to the target only / only where the
\* textual reading points / in all three.  No failure is planted: a parse fails because of where the value's file is.
\* "link": the target lives in the next directory or in the same one, the textual reading is two further or the same
\* (12 shapes per level); "linkfull": all 27 shapes.
NextDir(d) == CASE d = "A" -> "B" [] d = "B" -> "C" [] d = "C" -> "A"
Shapes == IF Universe = "linkfull" THEN {<<d, t, x>> : d \in Dirs, t \in Dirs, x \in Dirs}
          ELSE {sh \in Dirs \X Dirs \X Dirs : sh[2] \in {sh[1], NextDir(sh[1])} /\ sh[3] \in {sh[1], NextDir(NextDir(sh[1]))}}
Places == {"named", "target", "textual", "three"}
LinkStarts == IF Universe = "linkfull" THEN Starts ELSE {"P"}
LinkDepth == IF Universe = "chain" THEN 0 ELSE MaxDepth
LinkProgram(n, sh, pl, f, st, en) == [dirs |-> [k \in 1..n |-> sh[k][1]], tdirs |-> [k \in 1..n |-> sh[k][2]], xdirs |-> [k \in 1..n |-> sh[k][3]], place |-> pl,
                                      first |-> [k \in 1..n |-> k = n \/ f], start |-> st, entry |-> en, fail |-> <<"none", 0>>]
\* (enumerated by nested quantifiers, not as one set: TLC's normalisation of a set of 93 312 records takes > 10 min)
LinkInit(q) == \E n \in 1..LinkDepth : \E sh \in [1..n -> Shapes], pl \in [1..n -> Places], f \in BOOLEAN, st \in LinkStarts, en \in {"file", "sub"} :
                 (n > 1 \/ f) /\ q = LinkProgram(n, sh, pl, f, st, en)

VARIABLES p, s
vars == <<p, s>>
Init == (IF Universe = "chain" THEN p \in ChainPrograms ELSE LinkInit(p)) /\ s = CStart(p)
\* one TLC action per phase of the machine (for -coverage)
A_Ref        == ~CQuiescent(s) /\ CTop(s)[2] = "ref" /\ s' = CStep(p, s) /\ UNCHANGED p
A_LoadEnter  == ~CQuiescent(s) /\ CTop(s)[2] = "load_enter" /\ s' = CStep(p, s) /\ UNCHANGED p
A_LoadExit   == ~CQuiescent(s) /\ CTop(s)[2] = "load_exit" /\ s' = CStep(p, s) /\ UNCHANGED p
A_ApplyEnter == ~CQuiescent(s) /\ CTop(s)[2] = "apply_enter" /\ s' = CStep(p, s) /\ UNCHANGED p
A_Item1      == ~CQuiescent(s) /\ CTop(s)[2] = "item1" /\ s' = CStep(p, s) /\ UNCHANGED p
A_Item2      == ~CQuiescent(s) /\ CTop(s)[2] = "item2" /\ s' = CStep(p, s) /\ UNCHANGED p
A_ApplyExit  == ~CQuiescent(s) /\ CTop(s)[2] = "apply_exit" /\ s' = CStep(p, s) /\ UNCHANGED p
A_Dead       == ~CQuiescent(s) /\ CTop(s)[2] = "dead" /\ s' = CStep(p, s) /\ UNCHANGED p
Next == A_Ref \/ A_LoadEnter \/ A_LoadExit \/ A_ApplyEnter \/ A_Item1 \/ A_Item2 \/ A_ApplyExit \/ A_Dead
Spec == Init /\ [][Next]_vars

\* ------------------------------------------------------------------ invariants
AllDirs == Dirs \cup Starts
CTypeOK == /\ s.cwd \in AllDirs /\ s.cpd \in AllDirs \cup {"none"}
           /\ \A j \in 1..Len(s.ctl) : s.ctl[j][1] \in 1..NLevels(p)
           /\ \A j \in 1..Len(s.frames) : s.frames[j][1] \in AllDirs
\* C19 (b): relative references follow the file that contains them -- in every state, also while an exception unwinds
\* (outside the named deviation DotDotTextual: a file spelled through "symlinked directory/..")
InvResolves == ~DotDotTextual(p) => ResolvesInFileDir(p, s.log)
\* C19 (b): the working directory (and current_path_dir) are restored on both exits
InvRestored == CwdRestored(p, s)
\* the discipline that makes both true: one open manager per control frame that is between Enter and Exit, and the
\* process sits in the directory of the innermost file being applied
InsideFrames == SelectSeq(s.ctl, LAMBDA c : Inside(c[2]))
InvStack == /\ Len(s.frames) = Len(InsideFrames)
            /\ s.cwd = (IF InsideFrames = << >> THEN p.start ELSE AlgDir(p, InsideFrames[Len(InsideFrames)][1]))
            /\ s.cpd = (IF InsideFrames = << >> THEN "none" ELSE AlgDir(p, InsideFrames[Len(InsideFrames)][1]))
\* the small-step machine and the recursive CRun of the trace specification are one machine
InvRunAgrees == CQuiescent(s) => CRun(p) = s
\* an exception is raised exactly when a failure was planted, and a level below a failure is never reached afterwards
InvOutcome == CQuiescent(s) => /\ ~DotDotTextual(p) => (s.exc <=> RefRaises(p))
                               /\ (Universe = "chain") => (s.exc <=> p.fail[1] # "none")
\* Round 4: where the link's TARGET lives matters only through where the value's file exists -- the run of a program whose
\* values do not live next to the target is the run of the same program with regular files (tdirs = dirs)
InvTargetIrrelevant == (CQuiescent(s) /\ \A k \in DOMAIN p.dirs : p.place[k] \in {"all", "named", "textual"}) => CRun([p EXCEPT !.tdirs = p.dirs]) = s

FnSeq(f) == [j \in 1..Len(f) |-> f[j]]
ProgJson == [dirs |-> FnSeq(p.dirs), tdirs |-> FnSeq(p.tdirs), xdirs |-> FnSeq(p.xdirs), place |-> FnSeq(p.place), first |-> FnSeq(p.first), start |-> p.start, entry |-> p.entry, fail |-> p.fail]
EmitBehaviour == (Emit /\ CQuiescent(s)) => PrintT(ToJson([p |-> ProgJson, exc |-> s.exc, log |-> s.log]))
=============================================================================
