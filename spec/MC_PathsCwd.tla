---------------------------- MODULE MC_PathsCwd ----------------------------
(* Bounded instance of Paths.tla, part (b): every chain of <= MaxDepth config files over the directories Dirs,     *)
(* every order of value / nested reference inside each file, two process working directories, both ways of        *)
(* reaching the first file, a failure at every level (a path value that points to nothing; a nested file that is   *)
(* not there; a file that cannot be loaded) -- every step of the cwd machine on each.                                                           *)
EXTENDS Paths, Json, SequencesExt
CONSTANTS MaxDepth, Emit

Dirs   == {"A", "B", "C"}
Starts == {"P", "A"}                  \* the process cwd: a directory of its own, or the directory of a config file
Fails(n) == {<<"none", 0>>} \cup {<<"badpath", k>> : k \in 1..n} \cup {<<"missingfile", k>> : k \in 2..n} \cup {<<"badyaml", k>> : k \in 1..n}
\* (the last file holds no nested reference, so the order inside it does not matter: first[n] = TRUE)
Programs == UNION {{q \in [dirs : [1..n -> Dirs], first : [1..n -> BOOLEAN], start : Starts, entry : {"file", "sub"}, fail : Fails(n)] : q.first[n]} : n \in 1..MaxDepth}

VARIABLES p, s
vars == <<p, s>>
Init == p \in Programs /\ s = CStart(p)
\* one TLC action per phase of the machine (for -coverage)
A_Ref        == ~CQuiescent(s) /\ CTop(s)[2] = "ref" /\ s' = CStep(p, s) /\ UNCHANGED p
A_LoadEnter  == ~CQuiescent(s) /\ CTop(s)[2] = "load_enter" /\ s' = CStep(p, s) /\ UNCHANGED p
A_LoadExit   == ~CQuiescent(s) /\ CTop(s)[2] = "load_exit" /\ s' = CStep(p, s) /\ UNCHANGED p
A_ApplyEnter == ~CQuiescent(s) /\ CTop(s)[2] = "apply_enter" /\ s' = CStep(p, s) /\ UNCHANGED p
A_Item1      == ~CQuiescent(s) /\ CTop(s)[2] = "item1" /\ s' = CStep(p, s) /\ UNCHANGED p
A_Item2      == ~CQuiescent(s) /\ CTop(s)[2] = "item2" /\ s' = CStep(p, s) /\ UNCHANGED p
A_ApplyExit  == ~CQuiescent(s) /\ CTop(s)[2] = "apply_exit" /\ s' = CStep(p, s) /\ UNCHANGED p
A_Dead       == ~CQuiescent(s) /\ CTop(s)[2] = "dead" /\ s' = CStep(p, s) /\ UNCHANGED p
Next == A_Ref \/ A_LoadEnter \/ A_LoadExit \/ A_ApplyEnter \/ A_Item1 \/ A_Item2 \/ A_ApplyExit \/ A_Dead
Spec == Init /\ [][Next]_vars

\* ------------------------------------------------------------------ invariants
AllDirs == Dirs \cup Starts
CTypeOK == /\ s.cwd \in AllDirs /\ s.cpd \in AllDirs \cup {"none"}
           /\ \A j \in 1..Len(s.ctl) : s.ctl[j][1] \in 1..NLevels(p)
           /\ \A j \in 1..Len(s.frames) : s.frames[j][1] \in AllDirs
\* C19 (b): relative references follow the file that contains them -- in every state, also while an exception unwinds
InvResolves == ResolvesInFileDir(p, s.log)
\* C19 (b): the working directory (and current_path_dir) are restored on both exits
InvRestored == CwdRestored(p, s)
\* the discipline that makes both true: one open manager per control frame that is between Enter and Exit, and the
\* process sits in the directory of the innermost file being applied
InsideFrames == SelectSeq(s.ctl, LAMBDA c : Inside(c[2]))
InvStack == /\ Len(s.frames) = Len(InsideFrames)
            /\ s.cwd = (IF InsideFrames = << >> THEN p.start ELSE p.dirs[InsideFrames[Len(InsideFrames)][1]])
            /\ s.cpd = (IF InsideFrames = << >> THEN "none" ELSE p.dirs[InsideFrames[Len(InsideFrames)][1]])
\* the small-step machine and the recursive CRun of the trace specification are one machine
InvRunAgrees == CQuiescent(s) => CRun(p) = s
\* an exception is raised exactly when a failure was planted, and a level below a failure is never reached afterwards
InvOutcome == CQuiescent(s) => (s.exc <=> p.fail[1] # "none")

FnSeq(f) == [j \in 1..Len(f) |-> f[j]]
ProgJson == [dirs |-> FnSeq(p.dirs), first |-> FnSeq(p.first), start |-> p.start, entry |-> p.entry, fail |-> p.fail]
EmitBehaviour == (Emit /\ CQuiescent(s)) => PrintT(ToJson([p |-> ProgJson, exc |-> s.exc, log |-> s.log]))
=============================================================================
