INIT Init
NEXT Next
CONSTANTS
  TGroups = 16
INVARIANT Inv
CHECK_DEADLOCK FALSE
