----------------------------- MODULE Restricted -----------------------------
(***************************************************************************)
(* Restricted number / string types and registered types of               *)
(* jsonargparse/typing.py (property C20).                                  *)
(*                                                                         *)
(*  Part 1  numbers (rationals, the specials of Python floats)             *)
(*  Part 2  text: a regular-expression engine over sequences of            *)
(*          one-character strings; the grammars of Python's int()/float()  *)
(*          on text                                                        *)
(*  Part 3  restricted NUMBER types   Ref*: the property                   *)
(*                                    Alg*: typing.py:60-176 step by step  *)
(*  Part 4  restricted STRING types   (match verdict = the engine of       *)
(*          part 2, independent of Python's `re`)                          *)
(*  Part 5  the channels through a parser (command line text, config       *)
(*          value): _typehints.py:554-611 and :799-805                     *)
(*  Part 6  what a written representation is read back as: PyYAML's        *)
(*          implicit resolvers (dumper side) against the resolvers of      *)
(*          jsonargparse's loader (_loaders_dumpers.py:44-84)              *)
(*  Part 7  registered types: the registration table (typing.py:385-493),  *)
(*          value spaces, serializers / deserializers, and the obligation  *)
(*          Deser(Read(Write(Ser(v)))) = v per channel; SecretStr          *)
(*                                                                         *)
(* Layers: Ref* operators say what the property states, Alg* operators     *)
(* are transcribed from the code (anchor = file:line in the comment).      *)
(* MC_Restricted checks Alg against Ref on a bounded instance and emits    *)
(* the cases; Trace_Restricted evaluates the same operators on             *)
(* observations recorded from the real code.                               *)
(***************************************************************************)
EXTENDS Integers, Sequences, FiniteSets, TLC

(***************************************************************************)
(* Part 1.  Numbers.  A number is [s, n]: s = "fin" with n = <<num, den>>  *)
(* (den > 0, not necessarily reduced; TLC ints are 32 bit so every         *)
(* comparison is by cross multiplication of small operands), or one of the *)
(* specials of Python: +inf, -inf, nan, and "huge" = an int beyond the     *)
(* range of float (10**400).  NoNum = "does not denote a number".          *)
(***************************************************************************)
Fin(n, d) == [s |-> "fin", n |-> <<n, d>>]
PInf      == [s |-> "pinf", n |-> <<0, 1>>]
NInf      == [s |-> "ninf", n |-> <<0, 1>>]
NaN       == [s |-> "nan",  n |-> <<0, 1>>]
Huge      == [s |-> "huge", n |-> <<0, 1>>]
NoNum     == [s |-> "none", n |-> <<0, 1>>]

RLt(a, b) == a[1] * b[2] < b[1] * a[2]
REq(a, b) == a[1] * b[2] = b[1] * a[2]
IsIntegral(r) == r[1] % r[2] = 0
Trunc(r) == IF r[1] >= 0 THEN r[1] \div r[2] ELSE 0 - ((0 - r[1]) \div r[2])     \* toward zero, like int(float)

\* Python's ordering of numbers (int/float mixed comparisons are exact; every comparison with nan is False)
NLt(a, b) ==
  IF a.s = "nan" \/ b.s = "nan" THEN FALSE
  ELSE IF a.s = "ninf" THEN b.s # "ninf"
  ELSE IF a.s = "fin"  THEN b.s \in {"pinf", "huge"} \/ (b.s = "fin" /\ RLt(a.n, b.n))
  ELSE IF a.s = "huge" THEN b.s = "pinf"
  ELSE FALSE
NEq(a, b) ==
  IF a.s = "nan" \/ b.s = "nan" THEN FALSE
  ELSE IF a.s = "fin" /\ b.s = "fin" THEN REq(a.n, b.n) ELSE a.s = b.s
\* the six comparisons of typing.py:45-53 (_operators1 / _operators2)
CmpOps == {">", ">=", "<", "<=", "==", "!="}
Cmp(op, a, b) ==
  CASE op = ">"  -> NLt(b, a)
    [] op = ">=" -> NLt(b, a) \/ NEq(a, b)
    [] op = "<"  -> NLt(a, b)
    [] op = "<=" -> NLt(a, b) \/ NEq(a, b)
    [] op = "==" -> NEq(a, b)
    [] op = "!=" -> ~NEq(a, b)
\* same abstract number (nan = nan here: identity of the abstract value, not Python's ==)
SameNum(a, b) == IF a.s = "fin" /\ b.s = "fin" THEN REq(a.n, b.n) ELSE a.s = b.s

(***************************************************************************)
(* Part 2.  Text.  A text is a sequence of one-character strings.          *)
(* "|" stands for the newline character in the texts of parts 3-5 (so that *)
(* every printed case stays on one line); the harness maps it.             *)
(***************************************************************************)
NL == "|"
WS == {" ", NL}
Digits == {"0", "1", "2", "3", "4", "5", "6", "7", "8", "9"}
DigitSeq == <<"0", "1", "2", "3", "4", "5", "6", "7", "8", "9">>
DigitVal(c) == (CHOOSE d \in 1..10 : DigitSeq[d] = c) - 1
RECURSIVE Pow(_, _)
Pow(b, k) == IF k = 0 THEN 1 ELSE b * Pow(b, k - 1)

\* --- regular expressions as data ---------------------------------------
\* chr: one character in (neg: not in) the set s;  cat / alt: sequence of sub-expressions;
\* star / plus / opt;  bol = ^ ;  eol = $ (end, or just before a final newline: Python without MULTILINE);
\* eos = \Z.  Ends(re, t, i) = the set of positions j such that re matches t[i .. j-1].
\* The verdict "some match exists" is independent of greediness and backtracking order, so the set of end
\* positions decides Pattern.match (prefix: Ends # {}) and Pattern.fullmatch (Len(t)+1 \in Ends) exactly for
\* this fragment (no back-references, look-around or possessive operators).
Chr(S)    == [k |-> "chr", s |-> S, neg |-> FALSE]
NotChr(S) == [k |-> "chr", s |-> S, neg |-> TRUE]
Dot       == NotChr({NL})
Cat(a)    == [k |-> "cat", a |-> a]
Alt(a)    == [k |-> "alt", a |-> a]
Star(r)   == [k |-> "star", r |-> r]
Plus(r)   == [k |-> "plus", r |-> r]
Opt(r)    == [k |-> "opt", r |-> r]
Bol       == [k |-> "bol"]
Eol       == [k |-> "eol"]
Eos       == [k |-> "eos"]
Word(w)   == Cat([i \in 1..Len(w) |-> Chr({w[i]})])          \* a literal word given as <<"a","b",...>>
\* (round 4) counted repetition r{lo,hi} (hi = -1: r{lo,}), a group under IGNORECASE (?i:r), and the anchors under
\* MULTILINE (?m:^) (?m:$).  Non-capturing groups need no term of their own: every cat / alt / repetition operand is
\* rendered as (?:...) by gamma.
Times(r, lo, hi) == [k |-> "rep", r |-> r, lo |-> lo, hi |-> hi]
NoCase(r) == [k |-> "ci", r |-> r]
MBol      == [k |-> "mbol"]
MEol      == [k |-> "meol"]
LowerSeq == <<"a","b","c","d","e","f","g","h","i","j","k","l","m","n","o","p","q","r","s","t","u","v","w","x","y","z">>
UpperSeq == <<"A","B","C","D","E","F","G","H","I","J","K","L","M","N","O","P","Q","R","S","T","U","V","W","X","Y","Z">>
SwapCase(c) == IF \E q \in 1..26 : LowerSeq[q] = c THEN UpperSeq[CHOOSE q \in 1..26 : LowerSeq[q] = c]
               ELSE IF \E q \in 1..26 : UpperSeq[q] = c THEN LowerSeq[CHOOSE q \in 1..26 : UpperSeq[q] = c] ELSE c
CaseClose(S) == S \cup {SwapCase(c) : c \in S}
\* the term that (?i:re) stands for on ASCII text: every character class closed under case (a negated class
\* [^a] under IGNORECASE excludes both cases: the closure is taken before the negation)
RECURSIVE Fold(_)
Fold(re) == CASE re.k = "chr" -> [k |-> "chr", s |-> CaseClose(re.s), neg |-> re.neg]
              [] re.k \in {"cat", "alt"} -> [k |-> re.k, a |-> [q \in 1..Len(re.a) |-> Fold(re.a[q])]]
              [] re.k \in {"star", "plus", "opt"} -> [k |-> re.k, r |-> Fold(re.r)]
              [] re.k = "rep" -> [k |-> "rep", r |-> Fold(re.r), lo |-> re.lo, hi |-> re.hi]
              [] re.k = "ci" -> Fold(re.r)
              [] OTHER -> re

RECURSIVE Ends(_, _, _), CatEnds(_, _, _, _), Closure(_, _, _, _), RepEnds(_, _, _, _, _, _)
Ends(re, t, i) ==
  CASE re.k = "chr"  -> IF i <= Len(t) /\ ((t[i] \in re.s) # re.neg) THEN {i + 1} ELSE {}
    [] re.k = "cat"  -> CatEnds(re.a, 1, t, {i})
    [] re.k = "alt"  -> UNION {Ends(re.a[n], t, i) : n \in 1..Len(re.a)}
    [] re.k = "opt"  -> {i} \cup Ends(re.r, t, i)
    [] re.k = "star" -> Closure(re.r, t, {i}, {i})
    [] re.k = "plus" -> LET f == Ends(re.r, t, i) IN Closure(re.r, t, f, f)
    [] re.k = "bol"  -> IF i = 1 THEN {i} ELSE {}
    [] re.k = "eol"  -> IF i = Len(t) + 1 \/ (i = Len(t) /\ t[i] = NL) THEN {i} ELSE {}
    [] re.k = "eos"  -> IF i = Len(t) + 1 THEN {i} ELSE {}
    [] re.k = "rep"  -> RepEnds(re.r, t, {i}, 0, re.lo, re.hi)
    [] re.k = "ci"   -> Ends(Fold(re.r), t, i)
    [] re.k = "mbol" -> IF i = 1 \/ t[i - 1] = NL THEN {i} ELSE {}                   \* MULTILINE ^ : at the start and after every newline
    [] re.k = "meol" -> IF i = Len(t) + 1 \/ t[i] = NL THEN {i} ELSE {}             \* MULTILINE $ : at the end and before every newline
\* P = the positions reached after exactly cnt iterations of r
RepEnds(r, t, P, cnt, lo, hi) ==
  IF P = {} THEN {}
  ELSE IF cnt < lo THEN RepEnds(r, t, UNION {Ends(r, t, p) : p \in P}, cnt + 1, lo, hi)
  ELSE IF hi < 0 THEN Closure(r, t, P, P)
  ELSE IF cnt >= hi THEN P
  ELSE P \cup RepEnds(r, t, UNION {Ends(r, t, p) : p \in P}, cnt + 1, lo, hi)
CatEnds(a, n, t, P) == IF n > Len(a) \/ P = {} THEN P ELSE CatEnds(a, n + 1, t, UNION {Ends(a[n], t, p) : p \in P})
Closure(r, t, frontier, acc) ==
  IF frontier = {} THEN acc
  ELSE LET nxt == (UNION {Ends(r, t, p) : p \in frontier}) \ acc IN Closure(r, t, nxt, acc \cup nxt)

PrefixMatch(re, t) == Ends(re, t, 1) # {}                    \* Pattern.match(t) is not None
FullMatch(re, t)   == (Len(t) + 1) \in Ends(re, t, 1)        \* Pattern.fullmatch(t) is not None

\* --- helpers on texts --------------------------------------------------
RECURSIVE LStrip(_), RStrip(_), Without(_, _), IndexIn(_, _, _), NatOf(_, _)
LStrip(t) == IF t # << >> /\ t[1] \in WS THEN LStrip(Tail(t)) ELSE t
RStrip(t) == IF t # << >> /\ t[Len(t)] \in WS THEN RStrip(SubSeq(t, 1, Len(t) - 1)) ELSE t
Strip(t)  == RStrip(LStrip(t))
Without(t, S) == IF t = << >> THEN << >> ELSE (IF t[1] \in S THEN << >> ELSE <<t[1]>>) \o Without(Tail(t), S)
IndexIn(t, S, i) == IF i > Len(t) THEN 0 ELSE IF t[i] \in S THEN i ELSE IndexIn(t, S, i + 1)     \* first position of a char of S, 0 if none
NatOf(t, acc) == IF t = << >> THEN acc ELSE NatOf(Tail(t), acc * 10 + DigitVal(t[1]))           \* t: digits only
StartsWith(t, w) == Len(t) >= Len(w) /\ SubSeq(t, 1, Len(w)) = w
EndsWith(t, w)   == Len(t) >= Len(w) /\ SubSeq(t, Len(t) - Len(w) + 1, Len(t)) = w
RECURSIVE NatText(_)
NatText(n) == IF n < 10 THEN <<DigitSeq[n + 1]>> ELSE NatText(n \div 10) \o <<DigitSeq[(n % 10) + 1]>>
IntText(n) == IF n < 0 THEN <<"-">> \o NatText(0 - n) ELSE NatText(n)
RECURSIVE Pad(_, _)
Pad(t, w) == IF Len(t) >= w THEN t ELSE Pad(<<"0">> \o t, w)                                      \* "%0wd"
\* first position >= i at which the word w occurs in t, 0 if none (no recursion: dumps are long texts)
Find(t, w, i) == LET S == {p \in i..(Len(t) - Len(w) + 1) : SubSeq(t, p, p + Len(w) - 1) = w}
                 IN IF S = {} THEN 0 ELSE CHOOSE p \in S : \A q \in S : p <= q

\* --- what Python's int(text) and float(text) accept, and the number they return ---------------------
\* (Python language reference "Integer literals" / float(): optional surrounding whitespace, optional sign,
\*  digitpart = digits with single underscores between digits; float: digitpart [. [digitpart]] | . digitpart,
\*  optional exponent (e|E) [sign] digitpart; or inf / infinity / nan in any case.)
\* The grammar is stated twice: as regular expressions (PyIntRe, PyFloatRe: the readable form) and as direct
\* predicates over the text (IsPyInt, IsPyFloat: what TLC evaluates fast); MC_Restricted checks that the two
\* formulations agree on every candidate text (GrammarFormsAgree).
DigitPart == Cat(<<Chr(Digits), Star(Cat(<<Opt(Chr({"_"})), Chr(Digits)>>))>>)
Sign      == Opt(Chr({"+", "-"}))
CI(w)     == Cat([i \in 1..Len(w) |-> Chr(w[i])])             \* case-insensitive word: sequence of 2-element sets
InfWord   == Cat(<<CI(<<{"i","I"},{"n","N"},{"f","F"}>>), Opt(CI(<<{"i","I"},{"n","N"},{"i","I"},{"t","T"},{"y","Y"}>>))>>)
NanWord   == CI(<<{"n","N"},{"a","A"},{"n","N"}>>)
PyIntRe   == Cat(<<Star(Chr(WS)), Sign, DigitPart, Star(Chr(WS))>>)
PyFloatRe == Cat(<<Star(Chr(WS)), Sign,
                   Alt(<<InfWord, NanWord,
                         Cat(<<Alt(<<Cat(<<DigitPart, Opt(Cat(<<Chr({"."}), Opt(DigitPart)>>))>>),
                                     Cat(<<Chr({"."}), DigitPart>>)>>),
                               Opt(Cat(<<Chr({"e", "E"}), Sign, DigitPart>>))>>)>>),
                   Star(Chr(WS))>>)

IsDigitPart(d) == /\ d # << >> /\ d[1] \in Digits /\ d[Len(d)] \in Digits
                  /\ \A k \in 1..Len(d) : d[k] \in Digits \/ (d[k] = "_" /\ d[k - 1] # "_")     \* k > 1 here: d[1] is a digit
Unsigned(u) == IF u # << >> /\ u[1] \in {"+", "-"} THEN Tail(u) ELSE u
IsPyInt(t) == IsDigitPart(Unsigned(Strip(t)))
LowerOf(c) == CASE c = "I" -> "i" [] c = "N" -> "n" [] c = "F" -> "f" [] c = "T" -> "t" [] c = "Y" -> "y" [] c = "A" -> "a" [] OTHER -> c
Lower(t) == [k \in 1..Len(t) |-> LowerOf(t[k])]
IsDecimalPart(m) ==                                        \* digitpart [. [digitpart]] | . digitpart
  LET dot == IndexIn(m, {"."}, 1) IN
  IF dot = 0 THEN IsDigitPart(m)
  ELSE LET ip == SubSeq(m, 1, dot - 1)  fp == SubSeq(m, dot + 1, Len(m)) IN
       (ip = << >> /\ IsDigitPart(fp)) \/ (IsDigitPart(ip) /\ (fp = << >> \/ IsDigitPart(fp)))
IsPyFloat(t) ==
  LET b == Unsigned(Strip(t)) IN
  \/ Lower(b) \in {<<"i","n","f">>, <<"i","n","f","i","n","i","t","y">>, <<"n","a","n">>}
  \/ LET ePos == IndexIn(b, {"e", "E"}, 1) IN
     IF ePos = 0 THEN IsDecimalPart(b)
     ELSE IsDecimalPart(SubSeq(b, 1, ePos - 1)) /\ IsDigitPart(Unsigned(SubSeq(b, ePos + 1, Len(b))))

Signed(neg, num) == IF neg THEN [s |-> num.s, n |-> <<0 - num.n[1], num.n[2]>>] ELSE num
\* int(text): NoNum when the text is not an integer literal (ValueError in Python)
PyIntText(t) ==
  IF ~IsPyInt(t) THEN NoNum
  ELSE LET u == Strip(t) IN Signed(u[1] = "-", Fin(NatOf(Without(Unsigned(u), {"_"}), 0), 1))
\* float(text)
PyFloatText(t) ==
  IF ~IsPyFloat(t) THEN NoNum
  ELSE LET u    == Strip(t)
           neg  == u[1] = "-"
           b    == Without(Unsigned(u), {"_"})
       IN IF b[1] \in {"i", "I"} THEN (IF neg THEN NInf ELSE PInf)
          ELSE IF b[1] \in {"n", "N"} THEN NaN
          ELSE LET ePos == IndexIn(b, {"e", "E"}, 1)
                   mant == IF ePos = 0 THEN b ELSE SubSeq(b, 1, ePos - 1)
                   expt == IF ePos = 0 THEN << >> ELSE SubSeq(b, ePos + 1, Len(b))
                   eneg == expt # << >> /\ expt[1] = "-"
                   ed   == Unsigned(expt)
                   e    == IF ed = << >> THEN 0 ELSE NatOf(ed, 0)
                   dot  == IndexIn(mant, {"."}, 1)
                   ip   == IF dot = 0 THEN mant ELSE SubSeq(mant, 1, dot - 1)
                   fp   == IF dot = 0 THEN << >> ELSE SubSeq(mant, dot + 1, Len(mant))
                   m    == NatOf(ip \o fp, 0)
                   sc   == Len(fp) + (IF eneg THEN e ELSE 0)            \* power of ten in the denominator
                   up   == IF eneg THEN 0 ELSE e                       \* power of ten in the numerator
               IN IF m = 0 THEN Signed(neg, Fin(0, 1))                  \* 0e999 is 0 (and no power of ten is computed)
                  ELSE Signed(neg, Fin(m * Pow(10, up), Pow(10, sc)))

(***************************************************************************)
(* Part 3.  Restricted number types.                                       *)
(*   type  T = [base, r, join]   base \in {"int","float"};                 *)
(*                               r = sequence of <<op, ref>>, ref a number *)
(*   value x = [k, v, t]         k = Python class of the candidate:        *)
(*          "int" "float" "bool" (v: the number)  "str" "bytes" (t: text)  *)
(*          "none" "list" "dict" (anything else)                           *)
(***************************************************************************)
\* A value also carries ni / nf: the numbers that int(x) / float(x) read from its TEXT (str, bytes), computed
\* once by the grammars of part 2 when the value is built (NoNum for every other kind and for non-numeric text).
Val(k, v, t) == [k |-> k, v |-> v, t |-> t, ni |-> NoNum, nf |-> NoNum]
IntV(n)      == Val("int", Fin(n, 1), << >>)
FloatV(n, d) == Val("float", Fin(n, d), << >>)
FloatS(sp)   == Val("float", sp, << >>)
BoolV(b)     == Val("bool", Fin(IF b THEN 1 ELSE 0, 1), << >>)
TextV(k, t)  == [k |-> k, v |-> NoNum, t |-> t, ni |-> PyIntText(t), nf |-> PyFloatText(t)]
StrV(t)      == TextV("str", t)
BytesV(t)    == TextV("bytes", t)
Other(k)     == Val(k, NoNum, << >>)
HugeInt      == Val("int", Huge, << >>)

NType(base, r, join) == [base |-> base, r |-> r, join |-> join]

\* ---- Ref: the property ---------------------------------------------------
\* the number a value denotes when it is to become a `base` (a bool is not a number; text is read by the
\* base type's own grammar; None and containers denote nothing)
NumberOf(base, x) ==
  CASE x.k \in {"int", "float"} -> x.v
    [] x.k \in {"str", "bytes"} -> IF base = "int" THEN x.ni ELSE x.nf        \* PyIntText(x.t) / PyFloatText(x.t)
    [] OTHER -> NoNum
\* ... and whether that number is a value of the base type (no loss: 2.5, inf, nan are not ints; an int
\* beyond the float range is not a float)
InBase(base, n) == IF base = "int" THEN n.s = "huge" \/ (n.s = "fin" /\ IsIntegral(n.n)) ELSE n.s \in {"fin", "pinf", "ninf", "nan"}
ConvertsToBase(base, x) == NumberOf(base, x).s # "none" /\ InBase(base, NumberOf(base, x))
Join(join, checks) == IF join = "and" THEN \A i \in DOMAIN checks : checks[i] ELSE \E i \in DOMAIN checks : checks[i]
Satisfies(T, n) == Join(T.join, [i \in 1..Len(T.r) |-> Cmp(T.r[i][1], n, T.r[i][2])])
RefAccepts(T, x) == ConvertsToBase(T.base, x) /\ Satisfies(T, NumberOf(T.base, x))
\* the accepted value: the input as base type, an instance of base (and of T)
RefResult(T, x) == Val(T.base, NumberOf(T.base, x), << >>)
Rejected == Val("rejected", NoNum, << >>)
RefOutcome(T, x) == IF RefAccepts(T, x) THEN RefResult(T, x) ELSE Rejected
SameVal(a, b) == a.k = b.k /\ SameNum(a.v, b.v) /\ a.t = b.t

\* a restriction specification is well formed (typing.py:125-139): base int/float, join and/or, every operator
\* one of the six, every reference a value of the base type
RefWellFormed(T) == /\ T.base \in {"int", "float"} /\ T.join \in {"and", "or"} /\ Len(T.r) >= 0
                    /\ \A i \in 1..Len(T.r) : T.r[i][1] \in CmpOps /\ T.r[i][2].s = "fin"
                                              /\ (T.base = "int" => IsIntegral(T.r[i][2].n))

\* ---- Alg: typing.py --------------------------------------------------------
Ok(v)      == [r |-> "ok", v |-> v, exc |-> ""]
Raise(exc) == [r |-> "raise", v |-> Rejected, exc |-> exc]

\* cls._type(v): Python's int(v) / float(v)
AlgCast(base, x) ==
  IF base = "int" THEN
    CASE x.k \in {"int", "bool"} -> Ok(x.v)
      [] x.k = "float" -> IF x.v.s = "fin" THEN Ok(Fin(Trunc(x.v.n), 1))
                          ELSE IF x.v.s = "nan" THEN Raise("ValueError") ELSE Raise("OverflowError")
      [] x.k \in {"str", "bytes"} -> IF x.ni.s = "none" THEN Raise("ValueError") ELSE Ok(x.ni)      \* int(text): PyIntText
      [] OTHER -> Raise("TypeError")
  ELSE
    CASE x.k \in {"int", "bool"} -> IF x.v.s = "huge" THEN Raise("OverflowError") ELSE Ok(x.v)
      [] x.k = "float" -> Ok(x.v)
      [] x.k \in {"str", "bytes"} -> IF x.nf.s = "none" THEN Raise("ValueError") ELSE Ok(x.nf)      \* float(text): PyFloatText
      [] OTHER -> Raise("TypeError")

FloatIsInteger(n) == n.s = "fin" /\ IsIntegral(n.n)                           \* float.is_integer: False for inf and nan

\* validation_fn of restricted_number_type, typing.py:159-167
AlgValidate(T, x) ==
  IF x.k = "bool" THEN Raise("ValueError")                                                       \* :160-161
  ELSE IF T.base = "int" /\ x.k = "float" /\ ~FloatIsInteger(x.v) THEN Raise("ValueError")       \* :162-163
  ELSE LET vv == AlgCast(T.base, x) IN                                                           \* :164
       IF vv.r = "raise" THEN vv
       ELSE LET check == [i \in 1..Len(T.r) |-> Cmp(T.r[i][1], vv.v, T.r[i][2])] IN              \* :165
            IF (T.join = "and" /\ ~(\A i \in DOMAIN check : check[i]))
               \/ (T.join = "or" /\ ~(\E i \in DOMAIN check : check[i]))                         \* :166
            THEN Raise("ValueError") ELSE Ok(vv.v)                                               \* :167
\* TypeCore.__new__, typing.py:92-94: validate, then super().__new__(cls, cls._type(v))
AlgNew(T, x) ==
  LET chk == AlgValidate(T, x) IN
  IF chk.r = "raise" THEN chk
  ELSE LET c == AlgCast(T.base, x) IN IF c.r = "raise" THEN c ELSE Ok(Val(T.base, c.v, << >>))
AlgOutcome(T, x) == AlgNew(T, x).v
\* which statement of validation_fn decided (emitted per case, so that a run can show that every branch was exercised)
AlgBranch(T, x) ==
  IF x.k = "bool" THEN "160-bool"
  ELSE IF T.base = "int" /\ x.k = "float" /\ ~FloatIsInteger(x.v) THEN "162-not-integer"
  ELSE IF AlgCast(T.base, x).r = "raise" THEN "164-cast-" \o AlgCast(T.base, x).exc
  ELSE IF AlgValidate(T, x).r = "raise" THEN "166-restriction" ELSE "94-accepted"

\* restricted_number_type up to the creation of the class, typing.py:125-139
AlgCreates(T) ==
  IF T.base \notin {"int", "float"} THEN FALSE                                                   \* :125-126
  ELSE IF T.join \notin {"or", "and"} THEN FALSE                                                 \* :127-128
  ELSE \A i \in 1..Len(T.r) : /\ T.r[i][1] \in CmpOps                                            \* :134 x[0] in _operators2
                              /\ T.r[i][2].s = "fin"
                              /\ (T.base = "int" => SameNum(T.r[i][2], Fin(Trunc(T.r[i][2].n), 1)))    \* x[1] == base_type(x[1])

(***************************************************************************)
(* Part 4.  Restricted string types.  S = a regular expression (part 2).   *)
(* The match verdict is computed by Ends, not by Python's re.              *)
(***************************************************************************)
\* Ref: a str matches the pattern (Pattern.match: anchored at the start only; the documentation says
\* "regular expression that the string must match"); only a str converts to the base type str
RefStrAccepts(re, x) == x.k = "str" /\ PrefixMatch(re, x.t)
RefStrOutcome(re, x) == IF RefStrAccepts(re, x) THEN x ELSE Rejected
\* Alg: validation_fn of restricted_string_type, typing.py:204-206, then __new__ :92-94 (str(v))
AlgStrNew(re, x) ==
  IF x.k # "str" THEN Raise("TypeError")                       \* cls._regex.match(v): "expected string or bytes-like object" / "cannot use a string pattern on a bytes-like object"
  ELSE IF ~PrefixMatch(re, x.t) THEN Raise("ValueError")       \* :205-206
  ELSE Ok(x)                                                   \* :94  str(v)
\* a pattern that ends with $ : match and fullmatch agree up to one final newline
Anchored(re) == re.k = "cat" /\ Len(re.a) >= 1 /\ re.a[Len(re.a)].k = "eol"

(***************************************************************************)
(* Part 5.  The channels through a parser.                                 *)
(*  "direct"  T(x)                                                         *)
(*  "object"  parse_object({"x": x}) : the value of a config file          *)
(*  "cli"     parse_args(["--x=" text])                                    *)
(* gen = the type as a function  x |-> Ok(value) | Raise(class)  (AlgNew / *)
(* AlgStrNew).  EVERY str value that reaches ActionTypeHint._check_type,   *)
(* from the command line or from a config, is first given to load_value    *)
(* (_typehints.py:563, _util.py:144-147); ld = what load_value does:       *)
(*   "text"  a scalar or a loader error: the original text is kept         *)
(*           (_loaders_dumpers.py:202-203, _typehints.py:564-565)          *)
(*   "none" "list" "dict"   the loaded value replaces the text             *)
(*   "crash" load_value raises TypeError / ValueError (part 6, LoaderCrash)*)
(***************************************************************************)
DeserExc == {"ValueError", "TypeError", "AttributeError"}        \* typing.py:298-302, deserializer_exceptions
\* RegisteredType.deserializer typing.py:284-291 : the listed exceptions become ValueError, others escape
AlgDeser(out) == IF out.r = "raise" /\ out.exc \in DeserExc THEN Raise("ValueError") ELSE out
\* ActionTypeHint._check_type _typehints.py:559-610 with adapt_typehints' registered branch :799-805:
\* load the text; first attempt on the loaded value; on ValueError, if the original is a str, second attempt on the
\* text; (TypeError, ValueError) become the parser's error (:604-610), anything else escapes as it is.
AlgParse(NewOp(_), x, ld) ==
  IF x.k = "str" /\ ld = "crash" THEN Raise("ValueError")                                         \* :563 raises, :604 catches
  ELSE LET first  == IF x.k = "str" /\ ld # "text" THEN AlgDeser(NewOp(Other(ld))) ELSE AlgDeser(NewOp(x))   \* :582
           second == IF first.r = "raise" /\ first.exc = "ValueError" /\ x.k = "str" THEN AlgDeser(NewOp(x)) ELSE first   \* :583-597
       IN second
\* which path of _check_type decided
AlgParseBranch(NewOp(_), x, ld) ==
  IF x.k = "str" /\ ld = "crash" THEN "563-loader-crash"
  ELSE LET first == IF x.k = "str" /\ ld # "text" THEN AlgDeser(NewOp(Other(ld))) ELSE AlgDeser(NewOp(x)) IN
       IF first.r = "ok" THEN "582-first-attempt"
       ELSE IF first.exc # "ValueError" THEN "escapes-" \o first.exc
       ELSE IF x.k # "str" THEN "596-rejected-not-text"
       ELSE IF AlgDeser(NewOp(x)).r = "ok" THEN "590-second-attempt" ELSE "596-rejected"
\* Ref: through a parser a value is accepted iff the type accepts it, with the same result (a command-line text is a
\* str): the Ref outcome of the channels "object" and "cli" is RefOutcome / RefStrOutcome itself.
\* (Not modelled: a value whose class already IS the type is passed through unchanged, _typehints.py:804.)

(***************************************************************************)
(* Part 6.  Reading back what was written.                                 *)
(* A representation is Str(text) or Flt(number).  dump writes it with      *)
(* yaml.safe_dump (stock resolvers decide whether a str must be quoted) or *)
(* json.dumps; the config is read back with jsonargparse's loader, whose   *)
(* float resolver was replaced and whose timestamp resolver was removed    *)
(* (_loaders_dumpers.py:44-84).  A str that is written plain and resolved  *)
(* to another tag by the loader does not come back as a str.               *)
(***************************************************************************)
D09 == Chr(Digits)
D09u == Chr(Digits \cup {"_"})
PM == Opt(Chr({"+", "-"}))
Exp(signOptional) == Cat(<<Chr({"e", "E"}), IF signOptional THEN PM ELSE Chr({"+", "-"}), Plus(D09)>>)
Sexa == Plus(Cat(<<Chr({":"}), Opt(Chr({"0", "1", "2", "3", "4", "5"})), D09>>))          \* (?::[0-5]?[0-9])+
InfAlt == Cat(<<PM, Chr({"."}), Alt(<<Word(<<"i","n","f">>), Word(<<"I","n","f">>), Word(<<"I","N","F">>)>>)>>)
NanAlt == Cat(<<Chr({"."}), Alt(<<Word(<<"n","a","n">>), Word(<<"N","a","N">>), Word(<<"N","A","N">>)>>)>>)
\* yaml/resolver.py (PyYAML 6): float
StockFloat == Alt(<<Cat(<<PM, D09, Star(D09u), Chr({"."}), Star(D09u), Opt(Exp(FALSE))>>),
                    Cat(<<Chr({"."}), D09, Star(D09u), Opt(Exp(FALSE))>>),
                    Cat(<<PM, D09, Star(D09u), Sexa, Chr({"."}), Star(D09u)>>),
                    InfAlt, NanAlt>>)
\* _loaders_dumpers.py:66-79 : the float resolver of jsonargparse's loader
LoaderFloat == Alt(<<Cat(<<PM, D09, Star(D09u), Chr({"."}), Star(D09u), Opt(Exp(TRUE))>>),     \* :70
                     Cat(<<PM, D09, Star(D09u), Exp(TRUE)>>),                                    \* :71
                     Cat(<<Chr({"."}), Plus(D09u), Opt(Exp(FALSE))>>),                           \* :72
                     Cat(<<PM, D09, Star(D09u), Sexa, Chr({"."}), Star(D09u)>>),                 \* :73
                     InfAlt, NanAlt>>)                                                           \* :74-75
StockInt == Alt(<<Cat(<<PM, Word(<<"0","b">>), Plus(Chr({"0", "1", "_"}))>>),
                  Cat(<<PM, Chr({"0"}), Plus(Chr({"0","1","2","3","4","5","6","7","_"}))>>),
                  Cat(<<PM, Alt(<<Chr({"0"}), Cat(<<Chr(Digits \ {"0"}), Star(D09u)>>)>>)>>),
                  Cat(<<PM, Word(<<"0","x">>), Plus(Chr(Digits \cup {"a","b","c","d","e","f","A","B","C","D","E","F","_"}))>>),
                  Cat(<<PM, Chr(Digits \ {"0"}), Star(D09u), Sexa>>)>>)
W3(a, b, c) == Alt(<<Word(a), Word(b), Word(c)>>)
StockBool == Alt(<<W3(<<"y","e","s">>, <<"Y","e","s">>, <<"Y","E","S">>), W3(<<"n","o">>, <<"N","o">>, <<"N","O">>),
                   W3(<<"t","r","u","e">>, <<"T","r","u","e">>, <<"T","R","U","E">>),
                   W3(<<"f","a","l","s","e">>, <<"F","a","l","s","e">>, <<"F","A","L","S","E">>),
                   W3(<<"o","n">>, <<"O","n">>, <<"O","N">>), W3(<<"o","f","f">>, <<"O","f","f">>, <<"O","F","F">>)>>)
StockNull == Alt(<<Word(<<"~">>), W3(<<"n","u","l","l">>, <<"N","u","l","l">>, <<"N","U","L","L">>), Cat(<< >>)>>)
D2 == Cat(<<D09, D09>>)
D12 == Cat(<<D09, Opt(D09)>>)
D4 == Cat(<<D09, D09, D09, D09>>)
Dash == Chr({"-"})
Colon == Chr({":"})
StockTimestamp == Alt(<<Cat(<<D4, Dash, D2, Dash, D2>>),
                        Cat(<<D4, Dash, D12, Dash, D12, Alt(<<Chr({"T", "t"}), Plus(Chr({" ", "\t"}))>>), D12, Colon, D2, Colon, D2,
                              Opt(Cat(<<Chr({"."}), Star(D09)>>)),
                              Opt(Cat(<<Star(Chr({" ", "\t"})), Alt(<<Chr({"Z"}), Cat(<<Chr({"+", "-"}), D12, Opt(Cat(<<Colon, D2>>))>>)>>)>>))>>)>>)
StockMerge == Word(<<"<", "<">>)
StockValue == Word(<<"=">>)

FirstChar(t) == IF t = << >> THEN "" ELSE t[1]
NumFirst == {"-", "+", "."} \cup Digits
\* the implicit resolvers in registration order: <<tag, first characters, pattern>> ; a pattern is tried only
\* when the first character of the scalar is listed (yaml/resolver.py: yaml_implicit_resolvers)
StockResolvers == << <<"bool", {"y","Y","n","N","t","T","f","F","o","O"}, StockBool>>,
                     <<"float", NumFirst, StockFloat>>,
                     <<"int", NumFirst \ {"."}, StockInt>>,
                     <<"merge", {"<"}, StockMerge>>,
                     <<"null", {"~", "n", "N", ""}, StockNull>>,
                     <<"timestamp", Digits, StockTimestamp>>,
                     <<"value", {"="}, StockValue>> >>
\* the loader: timestamp and float removed, the new float appended (_loaders_dumpers.py:62-82)
LoaderResolvers == << StockResolvers[1], StockResolvers[3], StockResolvers[4], StockResolvers[5], StockResolvers[7],
                      <<"float", NumFirst, LoaderFloat>> >>
RECURSIVE ResolveFrom(_, _, _)
ResolveFrom(rs, t, i) ==
  IF i > Len(rs) THEN "str"
  ELSE IF FirstChar(t) \in rs[i][2] /\ FullMatch(rs[i][3], t) THEN rs[i][1] ELSE ResolveFrom(rs, t, i + 1)
\* the dumper (get_yaml_default_dumper, since the repair f3cd0b1): the stock table with its float entry replaced by the
\* loader's pattern, appended; before the repair yaml_dump was yaml.safe_dump (StockResolvers), and a Path such as
\* '1e3' was written plain and read back as a float (the former named deviation yaml-str-as-float)
DumperResolvers == << StockResolvers[1], StockResolvers[3], StockResolvers[4], StockResolvers[5], StockResolvers[6], StockResolvers[7],
                      <<"float", NumFirst, LoaderFloat>> >>
DumperTag(t) == ResolveFrom(DumperResolvers, t, 1)      \* what jsonargparse's dumper thinks a plain t would mean
StockDumperTag(t) == ResolveFrom(StockResolvers, t, 1)  \* what yaml.safe_dump thinks (the trees before f3cd0b1)
LoaderTag(t) == ResolveFrom(LoaderResolvers, t, 1)      \* what jsonargparse's loader makes of a plain t

\* ---- texts on which load_value raises instead of returning (named deviation "loader-crash") ----
\* (a) yaml_load, _loaders_dumpers.py:85-97: a text that YAML reads as a one-key mapping with a null value ("key:" or
\*     "{key}") is meant to be kept as a string, but `stream.strip() == key + ":"` raises TypeError when the key was
\*     resolved to a bool / int / float / null
\* (b) PyYAML's constructors fail on a scalar that the resolver patterns accept but that has no digit:
\*     float("." ) for "._" (loader pattern :72), int("", 2|16) for "0b_" / "0x_"
NonStrKey(key) == LoaderTag(key) \in {"bool", "int", "float", "null"}
HasChar(t, c) == \E p \in 1..Len(t) : t[p] = c
FloatCtorCrash(u) == /\ LoaderTag(u) = "float" /\ ~HasChar(u, ":") /\ ~FullMatch(Alt(<<InfAlt, NanAlt>>), u)
                     /\ ~IsPyFloat(Without(u, {"_"}))
IntCtorCrash(u) == FullMatch(Cat(<<PM, Chr({"0"}), Chr({"b", "x"}), Plus(Chr({"_"}))>>), u)
KeyColonCrash(u) == Len(u) >= 2 /\ u[Len(u)] = ":" /\ NonStrKey(Strip(SubSeq(u, 1, Len(u) - 1)))          \* YAML strips the blanks around a plain key
FlowKeyCrash(u) == Len(u) >= 3 /\ u[1] = "{" /\ u[Len(u)] = "}" /\ NonStrKey(Strip(SubSeq(u, 2, Len(u) - 1)))
LoaderCrash(t) == LET u == Strip(t) IN
                  u # << >> /\ (FloatCtorCrash(u) \/ IntCtorCrash(u) \/ KeyColonCrash(u) \/ FlowKeyCrash(u)
                                \/ (Len(u) >= 2 /\ u[Len(u)] = ":" /\ LET key == Strip(SubSeq(u, 1, Len(u) - 1)) IN key # << >> /\ (FloatCtorCrash(key) \/ IntCtorCrash(key))))

Str(t) == [k |-> "str", t |-> t, n |-> NoNum]
Flt(n) == [k |-> "float", t |-> << >>, n |-> n]
Misread(tag) == [k |-> "misread", t |-> <<tag>>, n |-> NoNum]

\* Ref: a written representation is read back as itself
RefReadBack(rep) == rep
\* Alg, YAML file: a str is written plain only when the stock resolvers say it is a str (otherwise quoted and
\* read back as a str); a plain scalar is resolved by the loader.  (Texts on which the two resolver sets
\* disagree consist of digits, signs, dots, colons, underscores and letters: the emitter's analysis allows them plain.)
YamlPlainMisread(t) == DumperTag(t) = "str" /\ LoaderTag(t) # "str"
AlgReadBack(chan, rep) ==
  IF chan = "yaml" /\ rep.k = "str" /\ YamlPlainMisread(rep.t) THEN Misread(LoaderTag(rep.t)) ELSE rep
\* json.dumps always quotes a str; on the command line the text of a scalar is kept (load_value :202-203)

(***************************************************************************)
(* Part 7.  Registered types.                                              *)
(* The registration table, typing.py:385-493.  ser = kind of serializer:   *)
(*   "str"    str(value)            "float"  float(value)                  *)
(*   "b64"    base64 text           "range"  range_serializer              *)
(*   "mask"   SecretStr.__str__ : the constant **********                  *)
(***************************************************************************)
RegTable == [complex   |-> [ser |-> "str",   deser |-> "ctor",      check |-> "class"],       \* :386
             Decimal   |-> [ser |-> "float", deser |-> "ctor",      check |-> "class"],       \* :387
             UUID      |-> [ser |-> "str",   deser |-> "ctor",      check |-> "class"],       \* :388
             Path      |-> [ser |-> "str",   deser |-> "ctor",      check |-> "isinstance"],  \* :390-391
             timedelta |-> [ser |-> "str",   deser |-> "timedelta", check |-> "class"],       \* :412
             bytes     |-> [ser |-> "b64",   deser |-> "b64",       check |-> "class"],       \* :433
             bytearray |-> [ser |-> "b64",   deser |-> "b64",       check |-> "class"],       \* :434
             range     |-> [ser |-> "range", deser |-> "range",     check |-> "class"],       \* :466
             SecretStr |-> [ser |-> "mask",  deser |-> "ctor",      check |-> "class"]]       \* :492
RegTypes == DOMAIN RegTable
RoundTripTypes == RegTypes \ {"SecretStr"}
Mask == <<"*","*","*","*","*","*","*","*","*","*">>

\* ---- value spaces and their serializers ---------------------------------
\* A registered value is [ty, f] with f a type-specific record:
\*   range      f = <<start, stop, step>>
\*   timedelta  f = <<days, seconds, microseconds>>   normalised as datetime does: 0 <= s < 86400, 0 <= us < 10^6
\*   bytes / bytearray   f = sequence of 0..255
\*   Decimal    f = <<sign, coefficient, exponent>> : (-1)^sign * coefficient * 10^exponent   (finite)
\*   Path / UUID / complex   f = the text str(value): the constructor is trusted to be the inverse of str
\*   SecretStr  f = the secret text
RV(ty, f) == [ty |-> ty, f |-> f]

\* range_serializer, typing.py:437-442
RangeSer(f) ==
  IF f[3] = 1 THEN (IF f[1] = 0 THEN <<"r","a","n","g","e","(">> \o IntText(f[2]) \o <<")">>
                    ELSE <<"r","a","n","g","e","(">> \o IntText(f[1]) \o <<",", " ">> \o IntText(f[2]) \o <<")">>)
  ELSE <<"r","a","n","g","e","(">> \o IntText(f[1]) \o <<",", " ">> \o IntText(f[2]) \o <<",", " ">> \o IntText(f[3]) \o <<")">>
\* range_deserializer, typing.py:445-463
IntLit == Cat(<<Opt(Chr({"-"})), Plus(D09)>>)                                    \* -?\d+
IntOf(t) == IF t[1] = "-" THEN 0 - NatOf(Tail(t), 0) ELSE NatOf(t, 0)
RECURSIVE SplitOn(_, _)
SplitOn(t, c) == LET i == IndexIn(t, {c}, 1) IN IF i = 0 THEN <<t>> ELSE <<SubSeq(t, 1, i - 1)>> \o SplitOn(SubSeq(t, i + 1, Len(t)), c)
Fail   == [ok |-> FALSE, f |-> << >>]            \* the deserializer raised
Got(f) == [ok |-> TRUE, f |-> f]
RangeDeser(t0) ==
  LET t == Strip(t0) IN                                                                         \* :451
  IF ~(StartsWith(t, <<"r","a","n","g","e","(">>) /\ EndsWith(t, <<")">>)) THEN Fail             \* :452
  ELSE LET body  == Without(SubSeq(t, 7, Len(t) - 1), {" "})                                     \* :453
           parts == SplitOn(body, ",")
       IN IF Len(parts) \in 1..3 /\ \A i \in 1..Len(parts) : FullMatch(IntLit, parts[i])        \* :445-447 the three patterns
          THEN (IF Len(parts) = 1 THEN Got(<<0, IntOf(parts[1]), 1>>)                              \* :454-456
                ELSE IF Len(parts) = 2 THEN Got(<<IntOf(parts[1]), IntOf(parts[2]), 1>>)           \* :457-459
                ELSE Got(<<IntOf(parts[1]), IntOf(parts[2]), IntOf(parts[3])>>))                   \* :460-462  (range() itself rejects step 0)
          ELSE Fail                                                                              \* :463
\* equality of ranges in Python: equal as sequences
RangeLen(f) == IF f[3] > 0 THEN (IF f[1] < f[2] THEN ((f[2] - f[1] - 1) \div f[3]) + 1 ELSE 0)
               ELSE (IF f[1] > f[2] THEN ((f[1] - f[2] - 1) \div (0 - f[3])) + 1 ELSE 0)
RangeEq(f, g) == RangeLen(f) = RangeLen(g)
                 /\ (RangeLen(f) = 0 \/ (f[1] = g[1] /\ (RangeLen(f) = 1 \/ f[3] = g[3])))

\* str(timedelta) (CPython datetime.timedelta.__str__): "[D day[s], ]H:MM:SS[.ffffff]"
TdSer(f) ==
  LET hh == f[2] \div 3600  mm == (f[2] % 3600) \div 60  ss == f[2] % 60
      plural == IF f[1] = 1 \/ f[1] = 0 - 1 THEN << >> ELSE <<"s">>
  IN (IF f[1] # 0 THEN IntText(f[1]) \o <<" ","d","a","y">> \o plural \o <<",", " ">> ELSE << >>)
     \o NatText(hh) \o <<":">> \o Pad(NatText(mm), 2) \o <<":">> \o Pad(NatText(ss), 2)
     \o (IF f[3] # 0 THEN <<".">> \o Pad(NatText(f[3]), 6) ELSE << >>)
\* timedelta_deserializer, typing.py:394-409 (re.match: a prefix match; float() of every group; timedelta(**kwargs))
TdClock == Cat(<<Plus(D09), Colon, Plus(D09), Colon, D09, Star(Chr(Digits \cup {".", "+"}))>>)   \* :400  \d+:\d+:\d[\.\d+]*
TdDays  == Cat(<<Plus(Chr(Digits \cup {"-"})), Word(<<" ","d","a","y">>), Star(Chr({"s"})), Word(<<",", " ">>)>>)   \* :402
TdDeser(t) ==
  LET hasDay == Find(t, <<"d","a","y">>, 1) # 0                                                  \* :401
      pat    == IF hasDay THEN Cat(<<TdDays, TdClock>>) ELSE TdClock
  IN IF ~PrefixMatch(pat, t) THEN Fail                                                           \* :403-405
     ELSE LET sp    == IF hasDay THEN IndexIn(t, {" "}, 1) ELSE 0
              dtxt  == IF hasDay THEN SubSeq(t, 1, sp - 1) ELSE <<"0">>
              rest  == IF hasDay THEN SubSeq(t, Find(t, <<",", " ">>, 1) + 2, Len(t)) ELSE t
              p     == SplitOn(rest, ":")
              stxt  == p[3]
              dot   == IndexIn(stxt, {"."}, 1)
              whole == IF dot = 0 THEN stxt ELSE SubSeq(stxt, 1, dot - 1)
              frac  == IF dot = 0 THEN << >> ELSE SubSeq(stxt, dot + 1, Len(stxt))
          IN IF ~FullMatch(IntLit, dtxt) \/ ~FullMatch(Star(D09), frac) \/ Len(frac) > 6 THEN Fail    \* float(val) would fail / outside the model
             ELSE LET days == IntOf(dtxt)
                      secs == NatOf(p[1], 0) * 3600 + NatOf(p[2], 0) * 60 + NatOf(whole, 0)
                      us   == IF frac = << >> THEN 0 ELSE NatOf(frac, 0) * Pow(10, 6 - Len(frac))
                  IN Got(<<days + (secs \div 86400), secs % 86400, us>>)                            \* :409 timedelta(**kwargs) normalises

\* base64 (RFC 4648 standard alphabet), typing.py:415-430
B64Alphabet == <<"A","B","C","D","E","F","G","H","I","J","K","L","M","N","O","P","Q","R","S","T","U","V","W","X","Y","Z",
                 "a","b","c","d","e","f","g","h","i","j","k","l","m","n","o","p","q","r","s","t","u","v","w","x","y","z",
                 "0","1","2","3","4","5","6","7","8","9","+","/">>
B64Chars == {B64Alphabet[i] : i \in 1..64}
B64Idx(c) == (CHOOSE i \in 1..64 : B64Alphabet[i] = c) - 1
RECURSIVE B64Enc(_), B64DecGroups(_)
B64Enc(b) ==
  IF b = << >> THEN << >>
  ELSE IF Len(b) = 1 THEN <<B64Alphabet[(b[1] \div 4) + 1], B64Alphabet[((b[1] % 4) * 16) + 1], "=", "=">>
  ELSE IF Len(b) = 2 THEN <<B64Alphabet[(b[1] \div 4) + 1], B64Alphabet[((b[1] % 4) * 16 + (b[2] \div 16)) + 1],
                            B64Alphabet[((b[2] % 16) * 4) + 1], "=">>
  ELSE <<B64Alphabet[(b[1] \div 4) + 1], B64Alphabet[((b[1] % 4) * 16 + (b[2] \div 16)) + 1],
         B64Alphabet[((b[2] % 16) * 4 + (b[3] \div 64)) + 1], B64Alphabet[(b[3] % 64) + 1]>> \o B64Enc(SubSeq(b, 4, Len(b)))
B64DecGroups(t) ==
  IF t = << >> THEN << >>
  ELSE LET a == B64Idx(t[1])  b == B64Idx(t[2]) IN
       IF t[3] = "=" THEN <<a * 4 + (b \div 16)>>
       ELSE LET c == B64Idx(t[3]) IN
            IF t[4] = "=" THEN <<a * 4 + (b \div 16), (b % 16) * 16 + (c \div 4)>>
            ELSE <<a * 4 + (b \div 16), (b % 16) * 16 + (c \div 4), (c % 4) * 64 + B64Idx(t[4])>> \o B64DecGroups(SubSeq(t, 5, Len(t)))
B64Canonical == Cat(<<Star(Cat(<<Chr(B64Chars), Chr(B64Chars), Chr(B64Chars), Chr(B64Chars)>>)),
                      Opt(Alt(<<Cat(<<Chr(B64Chars), Chr(B64Chars), Word(<<"=", "=">>)>>),
                                Cat(<<Chr(B64Chars), Chr(B64Chars), Chr(B64Chars), Chr({"="})>>)>>))>>)
B64Dec(t) == IF FullMatch(B64Canonical, t) THEN Got(B64DecGroups(t)) ELSE Fail     \* the model covers well-formed padded text only

\* Decimal -> float (typing.py:387): a finite decimal is a double exactly iff its reduced denominator is a power of
\* two (and it is within range / precision: the coefficient of the model is far below 2^53)
DecExact(f) == f[3] >= 0 \/ f[2] % Pow(5, 0 - f[3]) = 0
DecNum(f) == IF f[3] >= 0 THEN Fin((IF f[1] = 1 THEN 0 - f[2] ELSE f[2]) * Pow(10, f[3]), 1)
             ELSE Fin(IF f[1] = 1 THEN 0 - f[2] ELSE f[2], Pow(10, 0 - f[3]))

\* ---- the representation, and what comes back -------------------------------
Ser(v) ==
  CASE v.ty = "range"                -> Str(RangeSer(v.f))
    [] v.ty = "timedelta"            -> Str(TdSer(v.f))
    [] v.ty \in {"bytes", "bytearray"} -> Str(B64Enc(v.f))
    [] v.ty = "Decimal"              -> Flt(DecNum(v.f))        \* float(v): the nearest double; DecExact says whether it IS v
    [] v.ty = "SecretStr"            -> Str(Mask)               \* :475-476
    [] OTHER                         -> Str(v.f)                \* complex, UUID, Path: str(v)
\* outcome classes of one round trip
\*   "eq"         an equal value of the same type came back
\*   "via-float"  Decimal only: the value Decimal(float(v)) (file) / Decimal(repr(float(v))) (command line) came back, not equal to v
\*   "reject"     the representation was not accepted back
\*   "other"      something else came back
\* Deser of what was read, compared with v
DeserBack(v, back) ==
  IF back.k = "misread" THEN (IF v.ty = "complex" THEN "other" ELSE "reject")    \* a float where a str is expected: only complex(float) works
  ELSE CASE v.ty = "range"     -> LET d == RangeDeser(back.t) IN IF ~d.ok THEN "reject" ELSE IF RangeEq(d.f, v.f) THEN "eq" ELSE "other"
         [] v.ty = "timedelta" -> LET d == TdDeser(back.t) IN IF ~d.ok THEN "reject" ELSE IF d.f = v.f THEN "eq" ELSE "other"
         [] v.ty \in {"bytes", "bytearray"} -> LET d == B64Dec(back.t) IN IF ~d.ok THEN "reject" ELSE IF d.f = v.f THEN "eq" ELSE "other"
         [] v.ty = "Decimal"   -> "eq"                                             \* refined below
         [] OTHER              -> IF back.t = v.f THEN "eq" ELSE "other"           \* constructor = inverse of str (trusted)
\* Ref: the obligation of the property, for every channel
RefRoundTrip(v, chan) == "eq"
\* Alg: everything the transcription predicts about one value, computed once.  dcls: the number of significant digits
\* of a decimal: "le15" (the shortest repr of its double is the decimal itself: the command line gives it back),
\* "gt17" (repr has at most 17 digits: it cannot), "mid" (16-17 digits: either, outcome class "eq|via-float")
\*   rep      the representation Ser(v)
\*   mis      a str representation that safe_dump writes plain and the loader resolves to another tag
\*   alg      outcome class per channel <<yaml, json, cli>>
\*   dev      the named deviation per channel, by its CAUSE (not by its outcome)  (tools/findings.d/C20.json):
\*     "float-serializer"   a Decimal that is not a double (file), or whose repr as a double is not the decimal (cli)
\*     "yaml-str-as-float"  the representation is misread from a YAML file
\*     "loader-crash"       load_value raises on the representation (every channel)
RegFacts(v, dcls) ==
  LET rep   == Ser(v)
      crash == rep.k = "str" /\ LoaderCrash(rep.t)                  \* every channel hands the str to load_value again (part 5)
      mis   == rep.k = "str" /\ YamlPlainMisread(rep.t)
      plain == IF crash THEN "reject" ELSE DeserBack(v, rep)        \* json: always quoted; cli: the text of a scalar is kept
      yaml  == IF crash THEN "reject" ELSE IF mis THEN DeserBack(v, AlgReadBack("yaml", rep)) ELSE plain
      decf  == IF DecExact(v.f) THEN "eq" ELSE "via-float"
      decc  == CASE dcls = "le15" -> "eq" [] dcls = "gt17" -> "via-float" [] OTHER -> "eq|via-float"
  IN IF v.ty = "Decimal"
     THEN [rep |-> rep, mis |-> FALSE, crash |-> FALSE, alg |-> <<decf, decf, decc>>,
           dev |-> <<IF DecExact(v.f) THEN "none" ELSE "float-serializer", IF DecExact(v.f) THEN "none" ELSE "float-serializer",
                     IF dcls = "le15" THEN "none" ELSE "float-serializer">>]
     ELSE [rep |-> rep, mis |-> mis, crash |-> crash, alg |-> <<yaml, plain, plain>>,
           dev |-> IF crash THEN <<"loader-crash", "loader-crash", "loader-crash">>
                   ELSE <<IF mis THEN "yaml-str-as-float" ELSE "none", "none", "none">>]
ChanIdx(chan) == CASE chan = "yaml" -> 1 [] chan = "json" -> 2 [] chan = "cli" -> 3
AlgRoundTrip(v, chan, dcls) == RegFacts(v, dcls).alg[ChanIdx(chan)]
NamedDeviation(v, chan, dcls) == RegFacts(v, dcls).dev[ChanIdx(chan)]
AlgAllows(predicted, observed) == observed = predicted \/ (predicted = "eq|via-float" /\ observed \in {"eq", "via-float"})

\* SecretStr: the serializer is constant, so no dump that goes through it can contain the secret.
\* Contexts a value can sit in when a configuration is dumped (adapt_typehints, serialize=True):
\*   "bare" T   "optional" Optional[T]   "list" List[T]   "dict" Dict[str,T]   "tuple" Tuple[T,int]
\*   "union" Union[int,T]   "dataclass" a field of a dataclass   "default" only the default, never given
SecretContexts == {"bare", "optional", "list", "dict", "tuple", "union", "dataclass", "default"}
Occurs(w, t) == w # << >> /\ \E p \in 1..(Len(t) - Len(w) + 1) : SubSeq(t, p, p + Len(w) - 1) = w
\* Alg: every context reaches the registered branch (_typehints.py:800-803) for the SecretStr leaf
AlgDumpedLeaf(ctx, secret) == Ser(RV("SecretStr", secret)).t
\* Ref: the secret does not occur in the dump -- unless it also occurs in the dump of the same configuration holding a
\* DIFFERENT secret (then it is part of the scaffolding: a key, a comment, the mask itself)
RefNoLeak(secret, dumped, scaffold) == ~Occurs(secret, dumped) \/ Occurs(secret, scaffold)

(***************************************************************************)
(* Part 8 (round 4).  Parser modes other than YAML.                        *)
(* ArgumentParser(parser_mode = m) decides (a) the loader that load_value  *)
(* gives every str to (_loaders_dumpers.py:193-214, loaders[m]), (b) the   *)
(* exceptions of that loader that mean "keep the text"                     *)
(* (get_loader_exceptions, :165-177) and (c) the default dump format       *)
(* (dump_using_format :262-264: json -> compact JSON, jsonnet -> indented  *)
(* JSON, toml -> TOML).                                                    *)
(*   json    json.loads raises only JSONDecodeError: never a crash         *)
(*   toml    toml loads raises only its decode error: never a crash        *)
(*   jsonnet jsonnet_load (:131-143): the snippet is evaluated; when that  *)
(*           fails the text goes to yaml_load.  The TypeError of :90       *)
(*           (non-string key + ":") escapes as in YAML mode; the           *)
(*           ValueError of PyYAML's constructors ("._", "0x_") is one of   *)
(*           the mode's loader exceptions (:176 adds ValueError), so the   *)
(*           text is kept.  Texts with a non-string key and a null value   *)
(*           are no jsonnet expressions ("1:" and "{1}" do not evaluate).  *)
(* json.dumps / the TOML writer always quote a str, and their readers give *)
(* it back unchanged (trusted), so nothing is misread in these modes.      *)
(***************************************************************************)
Modes == {"yaml", "json", "jsonnet", "toml"}
CtorCrash(u) == FloatCtorCrash(u) \/ IntCtorCrash(u)
KeyOfColon(u) == Strip(SubSeq(u, 1, Len(u) - 1))
KeyOfFlow(u)  == Strip(SubSeq(u, 2, Len(u) - 1))
\* the TypeError of yaml_load :90 is reached: the constructors succeeded first
YamlKeyTypeError(u) == \/ (KeyColonCrash(u) /\ ~CtorCrash(KeyOfColon(u)))
                       \/ (FlowKeyCrash(u) /\ ~CtorCrash(KeyOfFlow(u)))
ModeLoaderCrash(mode, t) ==
  CASE mode = "yaml"    -> LoaderCrash(t)
    [] mode = "jsonnet" -> LET u == Strip(t) IN u # << >> /\ YamlKeyTypeError(u)
    [] OTHER            -> FALSE
\* Alg: one registered value through a parser of the given mode.  alg / dev = <<file, cli>>: the config file in the
\* mode's own dump format, and the command line.
RegFactsM(v, dcls, mode) ==
  LET rep   == Ser(v)
      crash == rep.k = "str" /\ ModeLoaderCrash(mode, rep.t)
      mis   == mode = "yaml" /\ rep.k = "str" /\ YamlPlainMisread(rep.t)
      plain == IF crash THEN "reject" ELSE DeserBack(v, rep)
      file  == IF crash THEN "reject" ELSE IF mis THEN DeserBack(v, AlgReadBack("yaml", rep)) ELSE plain
      decf  == IF DecExact(v.f) THEN "eq" ELSE "via-float"
      decc  == CASE dcls = "le15" -> "eq" [] dcls = "gt17" -> "via-float" [] OTHER -> "eq|via-float"
  IN IF v.ty = "Decimal"
     THEN [rep |-> rep, mis |-> FALSE, crash |-> FALSE, alg |-> <<decf, decc>>,
           dev |-> <<IF DecExact(v.f) THEN "none" ELSE "float-serializer", IF dcls = "le15" THEN "none" ELSE "float-serializer">>]
     ELSE [rep |-> rep, mis |-> mis, crash |-> crash, alg |-> <<file, plain>>,
           dev |-> IF crash THEN <<"loader-crash", "loader-crash">> ELSE <<IF mis THEN "yaml-str-as-float" ELSE "none", "none">>]
MChanIdx(chan) == IF chan = "file" THEN 1 ELSE 2

(***************************************************************************)
(* Part 9 (round 4).  Registered values inside containers, as dataclass    *)
(* fields and as defaults.                                                 *)
(*   "list" List[T]   "dict" Dict[str,T]   "optional" Optional[T]          *)
(*   "union" Union[T,int]   "dataclass" a field p: T of a dataclass        *)
(*   "default" the value is the argument's default (never given)           *)
(* Ref: the whole configuration comes back equal ("eq"), whatever the      *)
(* context.  Alg: the leaf is serialised and deserialised by the same      *)
(* registered pair (adapt_typehints recurses to the registered branch,     *)
(* _typehints.py:803-808); what differs is WHO hands a str to load_value:  *)
(* ActionTypeHint._check_type does it for the value of the argument itself *)
(* (_typehints.py:563) -- the top-level str of bare / Optional / Union /   *)
(* default, and of a dataclass field (which is an argument of its own) --  *)
(* but never for the items of a list or the values of a dict, which reach  *)
(* the deserializer as they were loaded.  So the named deviation           *)
(* loader-crash does not exist inside List / Dict.                         *)
(***************************************************************************)
RegContexts == {"list", "dict", "optional", "union", "dataclass", "default"}
LoadsLeafText(ctx) == ctx \notin {"list", "dict"}
\* texts that load_value turns into None: the null scalars, a comment, an anchor on nothing.  For Optional[T] the first
\* attempt (on the loaded value) then succeeds with None and the text is never tried (_typehints.py:582): a registered
\* value whose representation is such a text comes back as None.  Property C20 speaks about the types in isolation and
\* `--x=null` is the documented spelling of None, so Ref does not pin this outcome (RefRoundTripCtx allows both); the
\* Alg layer names it "null-text".
LoadsAsNull(t) == LET u == Strip(t) IN
                  u # << >> /\                                     \* a blank text is never given to load_value (_util.py:144)
                  (\/ LoaderTag(u) = "null"
                   \/ u[1] = "#"
                   \/ (Len(u) >= 2 /\ u[1] = "&" /\ ~HasChar(u, " ")))
RefRoundTripCtx(v, ctx, chan) == IF ctx = "optional" /\ Ser(v).k = "str" /\ LoadsAsNull(Ser(v).t) THEN "eq|other" ELSE "eq"
RefAllows(ref, observed) == observed = ref \/ (ref = "eq|other" /\ observed \in {"eq", "other"})
RegFactsCtx(v, dcls, ctx) ==
  LET F == RegFacts(v, dcls) IN
  IF v.ty = "Decimal" /\ ~LoadsLeafText(ctx)
  THEN \* the items of a list given on the command line are loaded by YAML: a float arrives, as from a file
       [rep |-> F.rep, mis |-> FALSE, crash |-> FALSE, alg |-> <<F.alg[1], F.alg[2], F.alg[1]>>, dev |-> <<F.dev[1], F.dev[2], F.dev[1]>>]
  ELSE IF F.crash /\ ~LoadsLeafText(ctx)
  THEN LET plain == DeserBack(v, F.rep)
           yaml  == IF F.mis THEN DeserBack(v, AlgReadBack("yaml", F.rep)) ELSE plain
       IN [rep |-> F.rep, mis |-> F.mis, crash |-> FALSE, alg |-> <<yaml, plain, plain>>,
           dev |-> <<IF F.mis THEN "yaml-str-as-float" ELSE "none", "none", "none">>]
  ELSE IF ctx = "optional" /\ F.rep.k = "str" /\ ~F.crash /\ LoadsAsNull(F.rep.t)
  THEN [rep |-> F.rep, mis |-> F.mis, crash |-> FALSE, alg |-> <<"other", "other", "other">>, dev |-> <<"null-text", "null-text", "null-text">>]
  ELSE F

\* os.PathLike is registered with serializer str and deserializer str (typing.py:385): the parsed value is the str
\* itself, and the deserializer accepts ANY loaded value.  _check_type gives the text to load_value first (part 5) and
\* the first attempt str(loaded value) always succeeds, so a text that YAML loads as None / a list / a mapping is
\* replaced by Python's str() of what was loaded ("null" -> "None", "a: b" -> "{'a': 'b'}"): named deviation
\* "loaded-value-stringified".  ld = what load_value makes of the text (as in part 5).  A crash text cannot even be
\* dumped (dump validates the configuration, which parses the str again).
PathLikeFacts(t, ld) ==
  LET out == CASE ld = "crash" -> "reject" [] ld = "text" -> "eq" [] OTHER -> "other"
      dv  == CASE ld = "crash" -> "loader-crash" [] ld = "text" -> "none" [] OTHER -> "loaded-value-stringified"
  IN [rep |-> Str(t), mis |-> FALSE, crash |-> ld = "crash", alg |-> <<out, out, out>>, dev |-> <<dv, dv, dv>>]
=============================================================================
