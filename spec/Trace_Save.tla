----------------------------- MODULE Trace_Save -----------------------------
(* Validation of executions of the real ArgumentParser.save recorded by harness/checks/c18.py (code -> spec).   *)
(* TRACE_FILE holds [obs |-> << o1, o2, ... >>]; one observation = one call of save() on a scratch directory:    *)
(*   sc      the scenario that was made real (same shape as MC_Save emits; any number of files and sub-files)    *)
(*   pre0    the directory as the harness found it just before the call (must be sc.pre)                         *)
(*   events  what the wrapped builtins.open saw, in order: <<"open"|"close", file, directory snapshot>>          *)
(*   out     "ok" | "raise";  fired  the injected OSError was raised;  fs  the directory after the call          *)
(*   extra   files outside the scenario that appeared or changed anywhere under the scratch root:                *)
(*           <<relative name, content before, content after>>                                                    *)
(*   reparses  (out = "ok") parsing the saved path with a fresh parser -- from another working directory, after  *)
(*           the directories the config was originally loaded from have been moved away -- gave the              *)
(*           configuration that was saved                                                                        *)
(*   refs    (out = "ok") what the saved documents say where each component is: <<key, file name>>, the name     *)
(*           being "?..." when it is not the bare name of a file of the output directory                         *)
(* Ref clauses decide the verdict, the Alg clause (the event sequence is the one Run(sc) predicts) only drift.   *)
(* A failing Ref clause is qualified: "...-as:<deviation>:<cause>" when the real code did exactly what the Alg   *)
(* layer predicts for one of the named deviations of Save.tla, "...-other" for anything else.                    *)
EXTENDS Save, Json, IOUtils, TLCExt

Data == JsonDeserialize(IOEnv.TRACE_FILE)
Obs  == Data.obs
N    == Len(Obs)

Fn(pairs) == [f \in {pairs[k][1] : k \in 1..Len(pairs)} |-> pairs[CHOOSE k \in 1..Len(pairs) : pairs[k][1] = f][2]]
ToSc(j) == [multifile |-> j.multifile, overwrite |-> j.overwrite, subs |-> j.subs, invalid |-> j.invalid, unser |-> j.unser,
            fault |-> [kind |-> j.fault[1], n |-> j.fault[2]], pre |-> Fn(j.pre), inplace |-> j.inplace,
            skipval |-> j.skipval, edited |-> j.edited, scheme |-> j.scheme]

VARIABLE i
Init == i \in 1..N
Next == UNCHANGED i

Say(idx, clause) == PrintT(<<"R", "obs", idx, clause>>)

KnownAtomicityDevs == {"single-open-before-dump", "multi-written-before-main-dump", "multi-written-before-sub-dump", "fsspec-open-before-dump"}

Check(k) ==
  LET o    == Obs[k]
      sc   == ToSc(o.sc)
      fin  == Fn(o.fs)
      r    == Run(sc)
      dev  == DevName(sc, r)
      same == fin = r.fs /\ o.out = (IF r.pc = "done" THEN "ok" ELSE "raise")      \* the real code ended where the Alg layer ends
      snaps == {Fn(o.events[j][3]) : j \in 1..Len(o.events)} \cup {fin}
      seen == [j \in 1..Len(o.events) |-> <<o.events[j][1], o.events[j][2], Fn(o.events[j][3])>>]
  IN /\ (Fn(o.pre0) = sc.pre /\ \A s \in snaps : DOMAIN s = DOMAIN sc.pre) \/ Say(k, "malformed")
     \* ---- Ref: the three clauses of C18, on every snapshot / on the final directory
     \* (round 4) qualified "-as:fsspec-no-overwrite-check:<replaced|emptied>" when the target is an fsspec one, the real code
     \* ended where the Alg layer ends and every snapshot differs from the directory before the call in the main file only
     /\ (\A s \in snaps : NoSilentOverwrite(sc, s))
          \/ Say(k, IF same /\ \A s \in snaps : (NoSilentOverwrite(sc, s) \/ DevFsspecNoOverwriteCheck(sc, s))
                    THEN "ref-nso-as:fsspec-no-overwrite-check:" \o (IF fin["main"] = "main" THEN "replaced" ELSE "emptied") ELSE "ref-nso")
     /\ (\A j \in 1..Len(o.extra) : o.extra[j][2] = "absent") \/ Say(k, "ref-frame")            \* a file nobody mentioned was changed
     /\ (AllOrNothing(sc, o.out, o.fired, fin) /\ ((o.out = "raise" /\ MustBeAtomic(sc, o.fired)) => o.extra = << >>))
          \/ Say(k, IF same /\ dev \in KnownAtomicityDevs /\ o.extra = << >> THEN "ref-aon-as:" \o dev \o ":" \o r.cause ELSE "ref-aon-other")
     \* (round 4: not demanded of a configuration that is invalid and was saved with skip_validation=True)
     /\ ((o.out = "ok" /\ ~(Invalid(sc) /\ sc.skipval)) => o.reparses)
          \/ Say(k, IF same /\ dev \in {"multi-name-collision", "inplace-content-emptied", "multi-orig-text-stale"} THEN "ref-reparse-as:" \o dev ELSE "ref-reparse-other")
     \* the model's own reading of "reparses" (file contents identified by the harness) agrees with the real re-parse
     \* the saved documents refer to every component's file by the bare name it was written under (read from the saved
     \* files by the harness; independent of where the component was originally loaded from)
     /\ ((o.out = "ok" /\ sc.multifile /\ ~Remote(sc) /\ ~Collision(sc)) => \A x \in Range(sc.subs) : RefersTo(o.refs, SubKey(x)) = {SubName(x)})
          \/ Say(k, "ref-reparse-refs")
     /\ ((o.out = "ok" /\ ~(Invalid(sc) /\ sc.skipval)) => (Reparses(sc, fin, o.refs) <=> o.reparses)) \/ Say(k, "alg-reparse-model")
     /\ ((o.out = "ok" /\ ~Collision(sc)) => o.refs = r.refs) \/ Say(k, "alg-refs")
     \* ---- Alg: same outcome, same final directory, same order of effects
     /\ same \/ Say(k, "alg-final")
     \* (an in-memory fsspec target is not opened through builtins.open: its effects are seen in the final state only)
     /\ ((sc.scheme = "memory" \/ seen = r.hist) /\ o.fired = r.fired) \/ Say(k, "alg-events")

Inv == Check(i) \/ TRUE
=============================================================================
