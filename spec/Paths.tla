------------------------------- MODULE Paths -------------------------------
(***************************************************************************)
(* jsonargparse.Path / path types and the working-directory discipline of  *)
(* nested config files (property C19).                                     *)
(*                                                                         *)
(* Part (a): which paths a mode accepts.                                   *)
(*   mode strings      sequences of one-character flags                    *)
(*   ValidModeRef      the mode language of the class docstring            *)
(*   CheckModeAlg      Path._check_mode, _util.py:741-755, check by check  *)
(*   a mode            [fl |-> set of flags, cc |-> "c" given twice]       *)
(*   facts F           what the operating system says about the path the   *)
(*                     spelling resolves to (an independent os.stat /      *)
(*                     os.access oracle supplies them in the harness)      *)
(*   RefOutcomes(m,F)  Ref: the set of outcomes the docstring allows       *)
(*   AlgCheck(m,F)     Alg: the check sequence of Path.__init__,           *)
(*                     _util.py:596-636, with os.stat PARTIAL (it raises   *)
(*                     on a path that cannot be stat'ed)                   *)
(*                                                                         *)
(* Part (b): the cwd machine of change_to_path_dir, _util.py:284-312, run  *)
(* over a chain of config files that refer to each other relatively.       *)
(***************************************************************************)
EXTENDS Naturals, Sequences, FiniteSets, TLC
CONSTANT CwdVariant,         \* "code" | "nofinally" (a sanity mutant of the model: the restore is not in a finally)
         StatGuard,          \* FALSE = the pinned tree; TRUE = after the repair a58026a (os.stat at :629 guarded)
         CcStopsAtExisting   \* FALSE = the pinned tree; TRUE = after the repair 93328c4 (the "cc" walk stops at the nearest ancestor that EXISTS)

(***************************************************************************)
(* (a.1) the mode language                                                 *)
(***************************************************************************)
LocalFlags == {"f", "d", "r", "w", "x", "c", "F", "D", "R", "W", "X"}
LegalFlags == LocalFlags \cup {"u", "s"}                 \* u = url, s = fsspec: legal, but outside this model
Count(s, ch) == Cardinality({j \in 1..Len(s) : s[j] = ch})
Has(s, ch)   == \E j \in 1..Len(s) : s[j] = ch
\* Ref -- docstring of Path / Path.__init__: flags among [fdrwxcusFDRWX], "c" once or twice, every other flag at most
\* once, a path cannot be required to be a file and a directory, a directory cannot be a url / fsspec path
ValidModeRef(s) ==
  /\ \A j \in 1..Len(s) : s[j] \in LegalFlags
  /\ \A ch \in LegalFlags : Count(s, ch) <= (IF ch = "c" THEN 2 ELSE 1)
  /\ ~(Has(s, "d") /\ (Has(s, "f") \/ Has(s, "u") \/ Has(s, "s")))
\* Alg -- _check_mode:741-755: the first check that raises ValueError, or "ok"
CheckModeAlg(s) ==
  IF \E j \in 1..Len(s) : s[j] \notin LegalFlags THEN "746"                                             \* :745-746
  ELSE IF \E ch \in LegalFlags : Count(s, ch) > (IF ch = "c" THEN 2 ELSE 1) THEN "749"                  \* :747-749
  ELSE IF Has(s, "f") /\ Has(s, "d") THEN "751"                                                          \* :750-751
  ELSE IF Has(s, "u") /\ Has(s, "d") THEN "753"                                                          \* :752-753
  ELSE IF Has(s, "s") /\ Has(s, "d") THEN "755"                                                          \* :754-755
  ELSE "ok"

ModeOf(s) == [fl |-> {s[j] : j \in 1..Len(s)}, cc |-> Count(s, "c") = 2]
In(m, fl) == fl \in m.fl

(***************************************************************************)
(* (a.2) facts about a path                                                *)
(*   stdio  the spelling is "-"                                            *)
(*   st     os.stat(abs_path): "ok" | "noent" | "notdir" | "acces"         *)
(*   kind   "file" | "dir" | "fifo" | "other" (socket, device) | "none"    *)
(*   r,w,x  os.access(abs_path, R_OK / W_OK / X_OK)                        *)
(*   pdir   the parent of the resolved path (os.path.realpath: symlinks    *)
(*          are followed BEFORE a following ".." is applied) is a directory*)
(*   pw     ... and os.access(parent, W_OK)                                *)
(*   nedir  the nearest EXISTING ancestor is a directory                   *)
(*   ndw    the nearest ancestor that IS a directory is writeable          *)
(***************************************************************************)
Exists(F)   == F.st = "ok"
FileLike(F) == F.kind \in {"file", "fifo"}      \* the code's symmetric rule for f / F: regular file or fifo
Consistent(F) ==
  /\ (F.st = "ok") <=> (F.kind # "none")
  /\ F.st # "ok" => (~F.r /\ ~F.w /\ ~F.x)
  /\ F.st = "ok" => F.pdir
  \* st = "notdir" (a regular file is in the way): x/file/below has no parent directory and no existing directory above
  \* it but the file; x/file/../y has -- the parent facts are those of os.path.realpath, which drops "file/.." textually:
  \* no constraint on pdir / nedir
  /\ F.st = "noent" => F.nedir
  /\ F.pdir => (F.nedir /\ F.ndw = F.pw)
  /\ ~F.pdir => ~F.pw
  /\ F.stdio => (F.st = "noent" /\ F.pdir /\ ~F.pw)   \* one canonical vector for "-"

(***************************************************************************)
(* (a.3) Ref: ModeSat -- each flag as the docstring words it               *)
(***************************************************************************)
\* "c": "If given once, the parent directory must exist and be writeable.  If given twice, the parent directory
\* does not have to exist, but should be allowed to create."
Creatable(m, F) == IF m.cc THEN F.nedir /\ F.ndw ELSE F.pdir /\ F.pw
\* verdict of one flag: "yes" | "no" | "open" (the documentation does not say)
FlagSat(fl, m, F) ==
  CASE fl = "f" -> IF In(m, "c")
                   THEN (IF ~Exists(F) \/ F.kind = "file" THEN "yes"        \* may be created, or is a file already
                         ELSE IF F.kind = "fifo" THEN "open"                \* an existing fifo under "fc": undocumented
                         ELSE "no")                                         \* something else is there
                   ELSE (IF Exists(F) /\ FileLike(F) THEN "yes" ELSE "no")
    [] fl = "d" -> IF In(m, "c") THEN (IF ~Exists(F) \/ F.kind = "dir" THEN "yes" ELSE "no")
                   ELSE (IF Exists(F) /\ F.kind = "dir" THEN "yes" ELSE "no")
    [] fl = "c" -> IF Creatable(m, F) THEN "yes" ELSE "no"
    [] fl = "r" -> IF F.r THEN "yes" ELSE "no"
    [] fl = "w" -> IF F.w THEN "yes" ELSE "no"
    [] fl = "x" -> IF F.x THEN "yes" ELSE "no"
    [] fl = "F" -> IF FileLike(F) THEN "no" ELSE "yes"                      \* not-file: a missing path is not a file
    [] fl = "D" -> IF F.kind = "dir" THEN "no" ELSE "yes"
    [] fl = "R" -> IF F.r THEN "no" ELSE "yes"
    [] fl = "W" -> IF F.w THEN "no" ELSE "yes"
    [] fl = "X" -> IF F.x THEN "no" ELSE "yes"
ModeSat(m, F)   == \A fl \in m.fl : FlagSat(fl, m, F) = "yes"
ModeUnsat(m, F) == \E fl \in m.fl : FlagSat(fl, m, F) = "no"
\* "-" stands for standard input / output and is not checked against the file system
RefOutcomes(m, F) ==
  IF F.stdio THEN {"accept"}
  ELSE IF ModeUnsat(m, F) THEN {"reject"}
  ELSE IF ModeSat(m, F) THEN {"accept"}
  ELSE {"accept", "reject"}

(***************************************************************************)
(* (a.4) Alg: Path.__init__, _util.py:596-636.  Result [res, at]:          *)
(*   "accept" | "patherror" (PathError raised at line `at`) | "oserror"    *)
(*   (an exception of os.stat escapes at line `at`)                        *)
(***************************************************************************)
IsFileA(F) == F.kind = "file"                    \* os.path.isfile: regular file, False when stat fails
IsDirA(F)  == F.kind = "dir"                     \* os.path.isdir
FOK(F)     == F.st = "ok"                        \* os.access(path, F_OK)
Res(r, at) == [res |-> r, at |-> at]
\* :599-604  pdir = realpath(abs_path/..); with "cc" walk up until a directory is found (the root always is one)
\* pinned tree: `while not os.path.isdir(pdir)` walks past a regular file that is in the way and always ends at a directory
\* (the root is one); since 93328c4 `while not os.path.lexists(pdir)`: it ends at the nearest ancestor that exists, and
\* :605 then demands that it is a directory
AlgDirFound(m, F) == F.pdir \/ (m.cc /\ (CcStopsAtExisting => F.nedir))
AlgDirW(m, F)     == IF F.pdir THEN F.pw ELSE F.ndw
AlgCheck(m, F) ==
  IF F.stdio THEN Res("accept", 596)                                                                  \* :596 not self._std_io
  ELSE IF In(m, "c") /\ ~AlgDirFound(m, F) THEN Res("patherror", 606)                                 \* :605-606
  ELSE IF In(m, "c") /\ ~AlgDirW(m, F) THEN Res("patherror", 608)                                     \* :607-608
  ELSE IF In(m, "c") /\ In(m, "d") /\ FOK(F) /\ ~IsDirA(F) THEN Res("patherror", 610)                 \* :609-610
  ELSE IF In(m, "c") /\ In(m, "f") /\ FOK(F) /\ ~IsFileA(F) THEN Res("patherror", 612)                \* :611-612
  ELSE IF ~In(m, "c") /\ (In(m, "d") \/ In(m, "f")) /\ ~FOK(F) THEN Res("patherror", 615)             \* :613-615
  ELSE IF ~In(m, "c") /\ In(m, "d") /\ ~IsDirA(F) THEN Res("patherror", 617)                          \* :616-617
  ELSE IF ~In(m, "c") /\ In(m, "f") /\ ~(IsFileA(F) \/ F.kind = "fifo") THEN Res("patherror", 619)    \* :618-619 (os.stat is safe: F_OK held)
  ELSE IF In(m, "r") /\ ~F.r THEN Res("patherror", 622)                                               \* :621-622
  ELSE IF In(m, "w") /\ ~F.w THEN Res("patherror", 624)                                               \* :623-624
  ELSE IF In(m, "x") /\ ~F.x THEN Res("patherror", 626)                                               \* :625-626
  ELSE IF In(m, "D") /\ IsDirA(F) THEN Res("patherror", 628)                                          \* :627-628
  ELSE IF In(m, "F") /\ IsFileA(F) THEN Res("patherror", 630)                                         \* :629 isfile(...) or
  ELSE IF In(m, "F") /\ F.st # "ok" /\ ~StatGuard THEN Res("oserror", 629)                            \* :629 os.stat(abs_path) RAISES (deviation StatPartial)
  ELSE IF In(m, "F") /\ F.kind = "fifo" THEN Res("patherror", 630)                                    \* :629-630 S_ISFIFO
  ELSE IF In(m, "R") /\ F.r THEN Res("patherror", 632)                                                \* :631-632
  ELSE IF In(m, "W") /\ F.w THEN Res("patherror", 634)                                                \* :633-634
  ELSE IF In(m, "X") /\ F.x THEN Res("patherror", 636)                                                \* :635-636
  ELSE Res("accept", 638)
AlgVerdict(m, F) == IF AlgCheck(m, F).res = "accept" THEN "accept" ELSE "reject"

\* the named deviations of the pinned tree
\* StatPartial: the not-file flag on a path that cannot be stat'ed (missing, through a file, unsearchable directory):
\* every earlier check passes, then os.stat's own exception escapes instead of PathError / acceptance
StatPartial(m, F) == AlgCheck(m, F).res = "oserror"
\* CcThroughFile: "cc" walks up past a regular file that is in the way and declares the path creatable
CcThroughFile(m, F) == m.cc /\ ~F.pdir /\ ~F.nedir /\ AlgCheck(m, F).res = "accept" /\ RefOutcomes(m, F) = {"reject"}
PathDevName(m, F) == IF StatPartial(m, F) THEN "stat-partial" ELSE IF CcThroughFile(m, F) THEN "cc-through-file" ELSE "none"

(***************************************************************************)
(* (b) the cwd machine.                                                    *)
(* A program is a chain of config files: level 1 is given to the parser    *)
(* from the process cwd `start`; the file of level k lives in directory    *)
(* dirs[k], holds one relative path value and (k < n) a relative reference *)
(* to the file of level k+1; first[k] says which of the two comes first.   *)
(* fail = <<"none",0>> | <<"badpath",k>> (the value of level k points to   *)
(* nothing) | <<"missingfile",k>> (k >= 2: the file of level k is not      *)
(* there) | <<"badyaml",k>> (the file of level k cannot be loaded: the     *)
(* exception is raised while the file is being read, inside the first      *)
(* manager).  entry = how level 1 is reached: "file" (parse_path :620-631,   *)
(* --cfg -> parse_path, default_config_files :1024: the file is entered    *)
(* once) or "sub" (level 1 is itself given to a sub-config option on the   *)
(* command line: loaded like a nested level).                              *)
(*                                                                         *)
(* Round 4 -- the directory of a config file has three readings:           *)
(*   dirs[k]   the directory of the path AS NAMED, as the kernel resolves   *)
(*             the spelling (the directory that holds the file or the       *)
(*             symbolic link) -- Ref: relative paths inside follow THIS one *)
(*   tdirs[k]  the directory of the file's realpath (the link's target);    *)
(*             = dirs[k] for a regular file                                 *)
(*   xdirs[k]  the directory a TEXTUAL normalisation of the spelling gives  *)
(*             (os.path.abspath, _util.py:304): differs from dirs[k] when   *)
(*             the file is named  X/dl/../file  and dl is a symbolic link   *)
(*             to a directory elsewhere                                     *)
(*   place[k]  where a file with the value's relative name exists: "all"    *)
(*             (every directory: decoys), "named" / "target" / "textual"    *)
(*             (only next to the link / next to the target / only where     *)
(*             the textual reading points), "three" (in all three, with     *)
(*             different content).                                          *)
(*                                                                         *)
(* State: cwd, cpd (current_path_dir), frames (open change_to_path_dir     *)
(* managers: <<saved cwd, saved cpd>>), ctl (control stack <<level,        *)
(* phase>>), exc (an exception is propagating), log of observable events.  *)
(***************************************************************************)
CStart(p) == [cwd |-> p.start, cpd |-> "none", frames |-> << >>, ctl |-> << <<1, "ref">> >>, exc |-> FALSE, log |-> << >>]
CTop(s)   == s.ctl[Len(s.ctl)]
CPop(s)   == SubSeq(s.ctl, 1, Len(s.ctl) - 1)
CSet(s, ph) == [s EXCEPT !.ctl = Append(CPop(s), <<CTop(s)[1], ph>>)]
CQuiescent(s) == s.ctl = << >>
NLevels(p) == Len(p.dirs)
Inside(ph) == ph \in {"load_exit", "item1", "item2", "apply_exit"}          \* phases between an Enter and its Exit
LoadsTwice(p, k) == k >= 2 \/ p.entry = "sub"

\* where a file with the relative name of the value of level k exists
Holds(p, k, d) == CASE p.place[k] = "all"     -> TRUE
                    [] p.place[k] = "named"   -> d = p.dirs[k]
                    [] p.place[k] = "target"  -> d = p.tdirs[k]
                    [] p.place[k] = "textual" -> d = p.xdirs[k]
                    [] p.place[k] = "three"   -> d \in {p.dirs[k], p.tdirs[k], p.xdirs[k]}
\* the reference to the file of level k (k >= 2) is spelled relative to the directory of the file of level k-1 as named;
\* all directories are siblings, so a spelling that starts in another directory (../X/...) means the same from everywhere
RefFoundFrom(p, k, c) == k = 1 \/ c = p.dirs[k - 1] \/ p.xdirs[k] # p.dirs[k - 1]
\* Alg: _util.py:295-304  path_dir = os.path.dirname(path.absolute) -- the path AS NAMED, no realpath (a symbolic link to a
\* file elsewhere does not move it) -- then os.path.abspath(path_dir): a TEXTUAL normalisation (named deviation
\* DotDotTextual: "dl/.." is dropped although dl is a symbolic link to a directory elsewhere).
\* CwdVariant = "realpath" is a sanity mutant of the model (the directory of the link's target is entered)
AlgDir(p, k) == IF CwdVariant = "realpath" THEN p.tdirs[k] ELSE p.xdirs[k]
DotDotTextual(p) == \E k \in 1..Len(p.dirs) : p.xdirs[k] # p.dirs[k]
CwdDevName(p) == IF DotDotTextual(p) THEN "dotdot-textual" ELSE "none"

\* _util.py:287-305  path_dir = dirname(path.absolute); token = current_path_dir.set(path_dir); saved = os.getcwd(); os.chdir(path_dir)
CEnter(s, d) == [s EXCEPT !.frames = Append(s.frames, <<s.cwd, s.cpd>>), !.cpd = d, !.cwd = d, !.log = Append(s.log, <<"chdir", 0, d>>)]
\* _util.py:309-312  finally: current_path_dir.reset(token); os.chdir(saved)
CExit(s) == LET fr == s.frames[Len(s.frames)] IN
            [s EXCEPT !.frames = SubSeq(s.frames, 1, Len(s.frames) - 1), !.cpd = fr[2], !.cwd = fr[1], !.log = Append(s.log, <<"chdir", 0, fr[1]>>)]

CItem(p, k, n) == IF (n = 1) = p.first[k] THEN "value" ELSE "nested"       \* first[k] = TRUE: the value comes first
CStep(p, s) ==
  LET k == CTop(s)[1]  ph == CTop(s)[2] IN
  IF s.exc /\ ~Inside(ph) THEN [s EXCEPT !.ctl = CPop(s)]                                         \* unwinding past a frame that holds no manager
  ELSE IF s.exc /\ CwdVariant = "nofinally" THEN [s EXCEPT !.ctl = CPop(s)]                      \* (sanity mutant: no finally)
  ELSE CASE
     \* Path(value, mode=fr) -- _util.py:570-572 resolves the reference against os.getcwd()
     ph = "ref" -> IF p.fail = <<"missingfile", k>> \/ ~RefFoundFrom(p, k, s.cwd) THEN [s EXCEPT !.exc = TRUE, !.log = Append(s.log, <<"ref", k, s.cwd>>)]
                   ELSE [CSet(s, IF LoadsTwice(p, k) THEN "load_enter" ELSE "apply_enter") EXCEPT !.log = Append(s.log, <<"ref", k, s.cwd>>)]
     \* parse_value_or_config, _util.py:141-142: with cfg_path.relative_path_context(): load_value(...)
  [] ph = "load_enter" -> [CSet(CEnter(s, AlgDir(p, k)), "load_exit") EXCEPT !.exc = (p.fail = <<"badyaml", k>>)]
  [] ph = "load_exit"  -> CSet(CExit(s), IF s.exc THEN "dead" ELSE "apply_enter")
     \* _actions.py:330 / _typehints.py:581 / _core.py:620 / _core.py:1024: with change_to_path_dir(cfg_path): apply the content
  [] ph = "apply_enter" -> [CSet(CEnter(s, AlgDir(p, k)), "item1") EXCEPT !.exc = (~LoadsTwice(p, k) /\ p.fail = <<"badyaml", k>>)]
  [] ph \in {"item1", "item2"} ->
       IF s.exc THEN CSet(s, "apply_exit")
       ELSE LET n == IF ph = "item1" THEN 1 ELSE 2
                nx == IF n = 1 THEN "item2" ELSE "apply_exit" IN
            IF CItem(p, k, n) = "value"
            THEN \* a relative path value: Path.__init__ :570-572 joins it with os.getcwd()
                 \* and checks the flags "fr" there: PathError when no such file exists in that directory
                 [CSet(s, nx) EXCEPT !.log = Append(s.log, <<"resolve", k, s.cwd>>), !.exc = (p.fail = <<"badpath", k>> \/ ~Holds(p, k, s.cwd))]
            ELSE IF k < NLevels(p) THEN [CSet(s, nx) EXCEPT !.ctl = Append(@, <<k + 1, "ref">>)]
            ELSE CSet(s, nx)
  [] ph = "apply_exit" -> [CExit(s) EXCEPT !.ctl = CPop(s)]
  [] ph = "dead" -> [s EXCEPT !.ctl = CPop(s)]

RECURSIVE CRunFrom(_, _)
CRunFrom(p, s) == IF CQuiescent(s) THEN s ELSE CRunFrom(p, CStep(p, s))
CRun(p) == CRunFrom(p, CStart(p))

\* Ref, part (b)
\* a relative path inside the file of level k is resolved against that file's directory; the reference to the file of
\* level k is resolved against the directory of the file that mentions it (the process cwd for level 1)
ResolvesInFileDir(p, log) ==
  \A j \in 1..Len(log) : /\ log[j][1] = "resolve" => log[j][3] = p.dirs[log[j][2]]
                         /\ log[j][1] = "ref" => log[j][3] = (IF log[j][2] = 1 THEN p.start ELSE p.dirs[log[j][2] - 1])
\* the parse fails exactly when a failure was planted or a value names a file that does not exist NEXT TO THE FILE AS NAMED
\* (a neighbour of the link is found; a same-named file next to the link's target only is not picked)
RefRaises(p) == p.fail[1] # "none" \/ \E k \in 1..Len(p.dirs) : ~Holds(p, k, p.dirs[k])
\* the values the Alg run resolved successfully: <<level, directory>>
Resolved(p, log) == {<<log[j][2], log[j][3]>> : j \in {i \in 1..Len(log) : log[i][1] = "resolve" /\ Holds(p, log[i][2], log[i][3]) /\ p.fail # <<"badpath", log[i][2]>>}}
\* when the call is over -- normally or by an exception -- the process is where it was
CwdRestored(p, s) == CQuiescent(s) => (s.cwd = p.start /\ s.cpd = "none" /\ s.frames = << >>)
\* the chdir calls alone (what a wrapped os.chdir sees)
Chdirs(log) == SelectSeq(log, LAMBDA e : e[1] = "chdir")
=============================================================================
