SPECIFICATION Spec
CONSTANTS
  MaxItems = 2
  Emit = TRUE
INVARIANT StylesAgree
INVARIANT OptionalNeverRequired
INVARIANT EmitCase
CHECK_DEADLOCK FALSE
