----------------------------- MODULE Trace_Heap -----------------------------
(* Validation of deep snapshots recorded around calls of the real jsonargparse (code -> spec), property C08.            *)
(* TRACE_FILE holds  [events |-> << ... >>] ; an event is one of                                                        *)
(*   [kind |-> "call", op, ok, cmpok, arg, keys, dkeys, dactive, dcf, sdef, pser, hpre, rpre, hpost, rpost]             *)
(*        one public call: ok = it returned (FALSE: it raised); hpre/rpre = heap and named roots before (every argument *)
(*        of the call, the parser's declared defaults, digests of os.environ / cwd / argparse.Namespace / sys.argv),    *)
(*        hpost/rpost = the same roots after; arg = name of the root that is the configuration argument ("" if none),   *)
(*        keys = the typed keys it contains (path, type term, declaration rank); cmpok: the call's outcome is decided   *)
(*        by the typed keys alone (replayed model cases), so return / raise is compared with the Alg layer too;         *)
(*        dkeys / dactive / dcf / sdef: what AlgCall needs to know about the declared defaults (see Heap.tla)           *)
(*   [kind |-> "fresh", objs1, objs2, old]                                                                              *)
(*        identities of the class instances built by two instantiate_classes calls on one configuration, and of the     *)
(*        objects that existed before                                                                                   *)
(* For a call TLC evaluates                                                                                             *)
(*   ref   (verdict)  Frame(hpre, rpre, hpost, rpost).  If it fails and the observed post-heap is exactly what the Alg   *)
(*         layer of Heap.tla computes for this call (same writes, same outcome): "ref-as-alg" with the route of the      *)
(*         named deviation and whether a VALUE changed or only the identity of a container; otherwise "ref-other".       *)
(*   alg   the observed post-heap is the Alg layer's (drift when ref holds)                                             *)
(*   [kind |-> "proc", pc, ok, seen, pre, post]  /  [kind |-> "freshd", fam, own1, own1b, own2, cal1, cal1b, cal2, old]     *)
(*        round 4: see CheckProc / CheckFreshDefault below                                                               *)
(* and for a fresh event  Fresh(objs1, objs2, old).                                                                      *)
EXTENDS Heap, Json, IOUtils

Data == JsonDeserialize(IOEnv.TRACE_FILE)
Events == Data.events

VARIABLE i
Init == i \in 1..Len(Events)
Next == UNCHANGED i

Say(clause, detail) == PrintT(<<"R", i, clause, detail>>)
ToSet(s) == {s[j] : j \in 1..Len(s)}
RECURSIVE Join(_)
Join(s) == IF s = << >> THEN "" ELSE s[1] \o (IF Len(s) > 1 THEN "," ELSE "") \o Join(Tail(s))
SetToSortedSeq(S) == LET RECURSIVE F(_)
                         F(T) == IF T = {} THEN << >> ELSE LET x == CHOOSE y \in T : TRUE IN <<x>> \o F(T \ {x})
                     IN F(S)

CheckCall(e) ==
  LET fr   == Frame(e.hpre, e.rpre, e.hpost, e.rpost)
      alg  == AlgCall([op |-> e.op, h |-> e.hpre, roots |-> e.rpre, arg |-> e.arg, keys |-> e.keys, dkeys |-> e.dkeys,
                       dactive |-> e.dactive, dcf |-> e.dcf, sdef |-> e.sdef, pser |-> e.pser, returned |-> (e.cmpok \/ e.ok)], 1)
      scal == \A r \in DOMAIN e.rpre : e.rpre[r].k = "s" => (r \in DOMAIN e.rpost /\ e.rpost[r] = e.rpre[r])
      asal == (e.cmpok => alg.ok = e.ok) /\ scal /\ DOMAIN e.rpre = DOMAIN e.rpost
              /\ (\A r \in DOMAIN e.rpre : e.rpre[r].k = "r" => e.rpost[r] = e.rpre[r])
              /\ AsAlg(e.hpre, e.rpre, e.hpost, alg.h)
      val  == ValueFrame(e.hpre, e.rpre, e.hpost, e.rpost)
      ch   == Join(SetToSortedSeq(Changed(e.hpre, e.rpre, e.hpost, e.rpost)))
  IN /\ fr \/ Say(IF asal THEN "ref-as-alg" ELSE "ref-other",
                  Route(e.op) \o ":" \o (IF val THEN "identity" ELSE "value") \o ":" \o ch)
     /\ asal \/ Say("alg", IF e.cmpok /\ alg.ok # e.ok THEN "outcome" ELSE "heap")

CheckFresh(e) == Fresh(ToSet(e.objs1), ToSet(e.objs2), ToSet(e.old)) \/ Say("fresh", "")

\* round 4: a call that is handed a path, made while the process is in directory e.pc.entry.  pre / post = observed process
\* state [cwd, cpd, env, argv, syspath, ns] (directories relative to the scratch tree), seen = << <<cwd, cpd>>, ... >> what the
\* user code run by the call saw.  ref (verdict) = ProcFrame; alg = outcome and seen set are the ones the Alg layer computes.
CheckProc(e) ==
  LET alg == AlgPathCall(e.pc, e.pre)
      asal == alg.ok = e.ok /\ alg.seen = ToSet(e.seen) /\ alg.ps = e.post
  IN /\ ProcFrame(e.pre, e.post) \/ Say("proc-ref", Join(SetToSortedSeq(ProcChanged(e.pre, e.post))))
     /\ asal \/ Say("proc-alg", IF alg.ok # e.ok THEN "outcome" ELSE IF alg.seen # ToSet(e.seen) THEN "seen" ELSE "state")
\* round 4: identities of the objects built for one class family by three instantiations (twice the configuration of parse 1,
\* once the configuration of parse 2): own* for the owner's spec, cal* found in the parameter with the instance default.
\* ref (verdict): the owner's objects are always new; MustBeFresh(fam) => the parameter's objects are new as well.
\* alg: they are new exactly when the Alg layer derives a spec, otherwise all of them are the one live default instance.
CheckFreshDefault(e) ==
  LET old == ToSet(e.old)
      own == AllDistinct(ToSet(e.own1), ToSet(e.own1b), ToSet(e.own2), old)
      cal == AllDistinct(ToSet(e.cal1), ToSet(e.cal1b), ToSet(e.cal2), old)
      spec == AlgDerivesSpec(e.fam, "function")
  IN /\ own \/ Say("freshd-ref", "owner")
     /\ (MustBeFresh(e.fam) => cal) \/ Say("freshd-ref", "default")
     /\ (IF spec THEN cal ELSE AllTheLive(ToSet(e.cal1), ToSet(e.cal1b), ToSet(e.cal2), old)) \/ Say("freshd-alg", IF spec THEN "shared" ELSE "not-the-live-instance")

Check == LET e == Events[i] IN
         CASE e.kind = "call" -> CheckCall(e)
           [] e.kind = "proc" -> CheckProc(e)
           [] e.kind = "freshd" -> CheckFreshDefault(e)
           [] OTHER -> CheckFresh(e)
Inv == Check \/ TRUE
=============================================================================
