SPECIFICATION Spec
CONSTANTS
  MinClasses = 4
  MaxClasses = 4
  MroOnly = TRUE
  AscBases = TRUE
  MaxOwn = 1
  MaxHard = 1
  MaxPop = 1
  PopClasses = 0
  AttrClasses = 0
  B1 = 0
  B2 = 0
  B3 = 0
  B4 = 2
  B5 = 0
  MaxChain = 1
  FnOwn = 0
  BFn = 4
  EmitAllUpTo = 0
  Sel = 160
  CondSel = 12
  AltMode = 0
  KeepGoing = TRUE
INVARIANT Inv
CHECK_DEADLOCK FALSE
