------------------------------ MODULE MC_Types ------------------------------
(* Bounded instance of Types.tla: a grammar of type terms (closed under permuting the members of every     *)
(* Union) x candidate inputs generated FROM the type: structures over a pool of conforming and             *)
(* non-conforming elements (wrong scalar kind, bool for int, unknown member, arity +-1, wrong container),  *)
(* and every text of the vocabulary (texts that only look like another type).  One state per (type, input);*)
(* every invariant is evaluated in every state and every case is printed as JSON for the replay.           *)
EXTENDS Types, Json
CONSTANTS Tier,        \* "quick" | "thorough"
          Emit         \* "all": print every case as JSON; "accepted": only those that Alg accepts (C10); "none"
MCFieldOrder == [k |-> "tag", v |-> "payload"]     \* first record of the root module: fixes TLC's field order

Lit1 == LitT(<<StrV("a"), IntV(1), NoneV>>)        \* Literal['a', 1, None]
Lit2 == LitT(<<StrV("a"), StrV("b")>>)             \* Literal['a', 'b']
Lit3 == LitT(<<BoolV(TRUE), IntV(2)>>)             \* Literal[True, 2]
EnE  == EnumT("E")
EnF  == EnumT("F")

\* ------------------------------------------------------------------ the grammar
Pairs(S)   == {<<a, b>> : a \in S, b \in S}
DPairs(S)  == {p \in Pairs(S) : p[1] # p[2]}
DTriples(S) == {<<a, b, c>> : a \in S, b \in S, c \in S} \ {q \in {<<a, b, c>> : a \in S, b \in S, c \in S} : q[1] = q[2] \/ q[1] = q[3] \/ q[2] = q[3]}
Unions2(S) == {UnionT(p) : p \in DPairs(S)}
Unions3(S) == {UnionT(p) : p \in DTriples(S)}
Conts(S)   == {ListT(e) : e \in S} \cup {SetT(e) : e \in S} \cup {TupleET(e) : e \in S}

TopLeaves  == {StrT, IntT, FloatT, BoolT, AnyT, EnE, Lit1, Lit2}
AllLeaves  == TopLeaves \cup {NoneT, EnF, Lit3}
Core       == {StrT, IntT, BoolT, NoneT}
D1Quick ==
       Conts(AllLeaves) \cup {BareListT, BareDictT}
  \cup {TupleT(p) : p \in Pairs({IntT, StrT, BoolT})} \cup {TupleT(<<IntT>>)}
  \cup {DictT(kt, e) : kt \in {StrT, IntT}, e \in {IntT, StrT, BoolT, Lit1}}
  \cup Unions2({StrT, IntT, FloatT, BoolT, NoneT, EnE, EnF, Lit1, ListT(IntT), DictT(StrT, IntT)})
  \cup Unions3(Core) \cup Unions3({StrT, IntT, ListT(IntT)})
UStrInt == Unions2(Core)
D2Quick ==
       {ListT(u) : u \in UStrInt} \cup {DictT(StrT, u) : u \in UStrInt} \cup {SetT(u) : u \in Unions2({StrT, IntT, BoolT})}
  \cup {TupleT(<<u, IntT>>) : u \in Unions2({StrT, IntT, NoneT})}
  \cup Unions2({StrT, ListT(UnionT(<<StrT, IntT>>))}) \cup Unions2({StrT, ListT(UnionT(<<IntT, StrT>>))})
  \cup Unions2({ListT(IntT), SetT(IntT), TupleT(<<IntT, IntT>>)})
  \cup Unions2({ListT(IntT), ListT(StrT), TupleT(<<StrT, StrT>>)}) \cup Unions2({DictT(StrT, IntT), DictT(StrT, StrT)})
  \cup {ListT(u) : u \in Unions2({ListT(IntT), ListT(StrT)})}
  \cup {ListT(ListT(IntT)), ListT(DictT(StrT, IntT)), DictT(StrT, ListT(IntT)), ListT(TupleT(<<IntT, StrT>>)), SetT(TupleET(IntT)), SetT(ListT(IntT))}

D1Thorough ==
       D1Quick
  \cup {TupleT(p) : p \in Pairs({IntT, StrT, BoolT, FloatT, NoneT, EnE, Lit1})}
  \cup {DictT(kt, e) : kt \in {StrT, IntT}, e \in AllLeaves}
  \cup Unions2(AllLeaves \cup {ListT(IntT), ListT(StrT), DictT(StrT, IntT), SetT(IntT), TupleT(<<IntT, StrT>>), TupleET(IntT)})
  \cup Unions3({StrT, IntT, FloatT, BoolT, NoneT, EnE, Lit1}) \cup Unions3({StrT, NoneT, ListT(IntT), DictT(StrT, IntT)})
UWide == Unions2({StrT, IntT, FloatT, BoolT, NoneT, EnE, Lit1})
D2Thorough ==
       D2Quick
  \cup Conts(UWide) \cup {DictT(kt, u) : kt \in {StrT, IntT}, u \in UWide} \cup Conts(Unions3(Core))
  \cup {TupleT(<<u, w>>) : u \in UStrInt, w \in {IntT, StrT}} \cup {TupleT(<<w, u>>) : u \in UStrInt, w \in {IntT, StrT}}
  \cup Conts(Conts({IntT, StrT, BoolT, NoneT})) \cup {ListT(DictT(kt, e)) : kt \in {StrT, IntT}, e \in {IntT, StrT, BoolT}}
  \cup {DictT(StrT, c) : c \in Conts({IntT, StrT, BoolT})}
  \cup Unions2({StrT, IntT, NoneT, ListT(UnionT(<<StrT, IntT>>)), DictT(StrT, UnionT(<<IntT, StrT>>))})
  \cup Unions2({StrT, IntT, NoneT, ListT(UnionT(<<IntT, StrT>>)), DictT(StrT, UnionT(<<StrT, IntT>>))})
  \cup Unions3({StrT, ListT(IntT), SetT(IntT), TupleT(<<IntT, IntT>>)})
D3Thorough ==
       {ListT(ListT(u)) : u \in UStrInt} \cup {DictT(StrT, ListT(u)) : u \in UStrInt} \cup {ListT(DictT(StrT, u)) : u \in UStrInt}
  \cup {ListT(TupleT(<<u, IntT>>)) : u \in UStrInt} \cup {UnionT(<<NoneT, ListT(u)>>) : u \in UStrInt} \cup {UnionT(<<ListT(u), NoneT>>) : u \in UStrInt}
  \cup {ListT(UnionT(<<a, ListT(b)>>)) : a \in {StrT, IntT}, b \in {StrT, IntT}} \cup {ListT(UnionT(<<ListT(b), a>>)) : a \in {StrT, IntT}, b \in {StrT, IntT}}

ContPairs == Unions2({ListT(IntT), ListT(StrT), ListT(BoolT), DictT(StrT, IntT), DictT(StrT, StrT), DictT(IntT, IntT), SetT(IntT), SetT(StrT),
                       TupleT(<<IntT, StrT>>), TupleT(<<StrT, StrT>>), TupleET(IntT), TupleET(StrT)})
D4Thorough == ContPairs \cup {ListT(u) : u \in ContPairs} \cup {DictT(StrT, u) : u \in ContPairs}
TypeSet == IF Tier = "quick" THEN TopLeaves \cup D1Quick \cup D2Quick
           ELSE TopLeaves \cup D1Thorough \cup D2Thorough \cup D3Thorough \cup D4Thorough

\* ------------------------------------------------------------------ candidate inputs, generated from the type
Texts   == DOMAIN YamlTbl \cup {"abc", "a", "b", "A", "B", "C", "", " "}
Scalars == {NoneV, BoolV(TRUE), BoolV(FALSE), IntV(0), IntV(1), IntV(2), FloatV(3, 2), FloatV(1, 1),
            EnumV("E", "A"), EnumV("E", "B"), EnumV("F", "C")} \cup {StrV(s) : s \in Texts}
Wrong   == {ListV(<< >>), ListV(<<IntV(1)>>), TupleV(<<IntV(1), StrV("a")>>), SetV({IntV(1)}), DictV(<< >>), D1(StrV("a"), IntV(1))}

SeqsUpTo2(S) == {<< >>} \cup {<<a>> : a \in S} \cup {<<a, b>> : a \in S, b \in S}
\* elements to build structures from: some conform to the element type, the others are wrong in one way
RECURSIVE ElemPool(_)
ElemPool(t) ==
  CASE t.k \in LeafKinds \cup {"any", "literal", "enum"} ->
         {IntV(1), BoolV(TRUE), NoneV, FloatV(3, 2), StrV("1"), StrV("abc"), StrV("null"), StrV("A"), StrV("a"), EnumV("E", "A")}
    [] t.k = "union" -> UNION {ElemPool(t.v[i]) : i \in 1..Len(t.v)}
    [] t.k \in {"list", "set", "tupleE"} ->
         IF Len(t.v) = 0 THEN {ListV(<< >>), ListV(<<IntV(1), StrV("a")>>), IntV(1)}
         ELSE {ListV(<< >>), IntV(1), StrV("[1]"), NoneV} \cup {ListV(<<e>>) : e \in ElemPool(t.v[1])} \cup {TupleV(<<IntV(1)>>), SetV({IntV(1)})}
    [] t.k = "tuple" -> {ListV(<< >>), IntV(1), ListV(<<IntV(1), StrV("a")>>), ListV(<<IntV(1), IntV(2)>>), TupleV(<<IntV(1), StrV("a")>>), ListV(<<StrV("1"), StrV("a")>>), ListV(<<IntV(1)>>)}
    [] t.k = "dict" -> {DictV(<< >>), D1(StrV("a"), IntV(1)), D1(StrV("a"), StrV("x")), D1(IntV(1), IntV(2)), ListV(<< >>), NoneV}
KeyPool == {StrV("a"), StrV("1"), StrV("0x10"), IntV(1), BoolV(TRUE)}
RECURSIVE Structs(_)
Structs(t) ==
  CASE t.k \in LeafKinds \cup {"any", "literal", "enum"} -> {}
    [] t.k = "union" -> UNION {Structs(t.v[i]) : i \in 1..Len(t.v)}
    [] t.k \in {"list", "set", "tupleE"} ->
         LET P == IF Len(t.v) = 0 THEN {IntV(1), StrV("a"), NoneV} ELSE ElemPool(t.v[1])
         IN {ListV(s) : s \in SeqsUpTo2(P)} \cup {TupleV(<<e>>) : e \in P} \cup {SetV({e}) : e \in {e \in P : Hashable(e)}}
            \cup {TupleV(<<IntV(1), IntV(2)>>), SetV({IntV(1), IntV(2)}), SetV({})}
    [] t.k = "tuple" ->
         LET full == SeqProd([n \in 1..Len(t.v) |-> ElemPool(t.v[n])])
         IN {ListV(s) : s \in full} \cup {TupleV(s) : s \in full}
            \cup {ListV(SubSeq(s, 1, Len(s) - 1)) : s \in full} \cup {ListV(s \o <<IntV(1)>>) : s \in full} \cup {SetV({IntV(1)})}
    [] t.k = "dict" ->
         LET P == IF Len(t.v) = 0 THEN {IntV(1), StrV("a")} ELSE ElemPool(t.v[2])
         IN {DictV(<< >>)} \cup {D1(key, e) : key \in KeyPool, e \in P}
            \cup {DictV(<< <<StrV("a"), e>>, <<StrV("b"), f>> >>) : e \in P, f \in {IntV(1), StrV("abc")}}
            \cup {DictV(<< <<StrV("1"), e>>, <<IntV(2), e>> >>) : e \in {IntV(1), StrV("abc")}}
            \cup (IF Len(t.v) > 0 /\ t.v[1].k = "int" THEN {DictV(<< <<StrV("1"), IntV(1)>>, <<IntV(1), IntV(2)>> >>)} ELSE {})   \* two keys that cast to the same int
Cands(t) == Scalars \cup Wrong \cup Structs(t)

\* ------------------------------------------------------------------ the state space: one state per case
VARIABLES t, x, ph
vars == <<t, x, ph>>
Init == t \in TypeSet /\ x = NoneV /\ ph = 0
Next == ph = 0 /\ ph' = 1 /\ t' = t /\ x' \in Cands(t)
Spec == Init /\ [][Next]_vars

Case == ph = 1
\* the property on the Ref layer
InvRefLaws          == Case => RefLaws(t, x)
InvRefPermInvariant == Case => RefPermInvariant(t, x)

RECURSIVE Jsonable(_)
Jsonable(y) == CASE y.k = "bag" -> [k |-> "bag", v |-> [n \in 1..Len(AsSeq(y)) |-> Jsonable(AsSeq(y)[n])]]
                 [] y.k \in {"list", "tuple"} -> [k |-> y.k, v |-> [n \in 1..Len(y.v) |-> Jsonable(y.v[n])]]
                 [] y.k = "set" -> [k |-> "set", v |-> {Jsonable(e) : e \in y.v}]
                 [] y.k = "dict" -> [k |-> "dict", v |-> [n \in 1..Len(y.v) |-> <<y.v[n][1], Jsonable(y.v[n][2])>>]]
                 [] OTHER -> y
\* what the replay needs: Ref's verdict and normal forms, Alg's prediction and the deviations it went through,
\* the predicted config representation (C10)
CaseJson(a) ==
  LET s == IF a.ok /\ a.v # NoneV THEN AlgDump(t, a.v) ELSE Er({}, NoneV)
      r == IF s.ok THEN AlgParse(t, Unbag(s.v), NoneV) ELSE Er({}, NoneV)
  IN [t |-> t, x |-> x, acc |-> Accepts(t, x), res |-> TopResults(t, x),
      aok |-> a.ok, av |-> a.v, dev |-> a.dev, sok |-> s.ok, ser |-> Jsonable(s.v), sdev |-> s.dev \cup r.dev]
ASSUME Emit # "none" => PrintT(ToJson([vocabulary |-> LET S == SetAsSeq(DOMAIN YamlTbl) IN [n \in 1..Len(S) |-> <<S[n], YamlTbl[S[n]]>>]]))

\* the transcription against Ref (C02) and its fixed-point laws (C10); AlgParse is evaluated once per case and a
\* failing law prints its name before TLC reports InvAlg
Named(name, holds) == holds \/ (PrintT(<<"LAW", name>>) /\ FALSE)
InvAlg ==
  IF ~Case THEN (Emit # "none" => PrintT(ToJson([type |-> t])))
  ELSE LET a == AlgParse(t, x, NoneV)
       IN /\ Named("AlgRefinesRef", AlgRefinesRefA(t, x, a))
          /\ Named("AlgPermInvariant", AlgPermInvariantA(t, x, a))
          /\ Named("DevsAsDescribed", DevsAsDescribedA(t, x, a))
          /\ Named("Idempotent", IdempotentA(t, x, a))
          /\ Named("DumpStable", DumpStableA(t, x, a))
          /\ (Emit = "all" \/ (Emit = "accepted" /\ a.ok)) => PrintT(ToJson(CaseJson(a)))
=============================================================================
