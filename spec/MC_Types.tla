------------------------------ MODULE MC_Types ------------------------------
(* Bounded instance of Types.tla: a grammar of type terms (closed under permuting the members of every     *)
(* Union) x candidate inputs generated FROM the type: structures over a pool of conforming and             *)
(* non-conforming elements (wrong scalar kind, bool for int, unknown member, arity +-1, wrong container),  *)
(* and texts of the vocabulary (texts that only look like another type); arguments WITH a default x        *)
(* scalars of every kind (also the ones that are ==-equal to the default) and the key not given at all.    *)
(* One state per (type, default, input); every law is evaluated in every state and every case is printed   *)
(* as JSON for the replay.                                                                                 *)
EXTENDS Types, Json
CONSTANTS Tier,        \* "quick" | "thorough"
          Emit,        \* "all": print every case as JSON; "accepted": only those that Alg accepts (C10); "none"
          Laws         \* "c02": the laws of C02; "c10": the fixed-point laws of C10; "all": both (the two checks run the same instance)
MCFieldOrder == [k |-> "tag", v |-> "payload"]     \* first record of the root module: fixes TLC's field order

Lit1 == LitT(<<StrV("a"), IntV(1), NoneV>>)        \* Literal['a', 1, None]
Lit2 == LitT(<<StrV("a"), StrV("b")>>)             \* Literal['a', 'b']
Lit3 == LitT(<<BoolV(TRUE), IntV(2)>>)             \* Literal[True, 2]
EnE  == EnumT("E")
EnF  == EnumT("F")

\* ------------------------------------------------------------------ the grammar
Pairs(S)   == {<<a, b>> : a \in S, b \in S}
DPairs(S)  == {p \in Pairs(S) : p[1] # p[2]}
DTriples(S) == {<<a, b, c>> : a \in S, b \in S, c \in S} \ {q \in {<<a, b, c>> : a \in S, b \in S, c \in S} : q[1] = q[2] \/ q[1] = q[3] \/ q[2] = q[3]}
Unions2(S) == {UnionT(p) : p \in DPairs(S)}
Unions3(S) == {UnionT(p) : p \in DTriples(S)}
Conts(S)   == {ListT(e) : e \in S} \cup {SetT(e) : e \in S} \cup {TupleET(e) : e \in S}

\* user-defined restricted types and the built-in registered types (all of RStrDefs / RNumDefs / RegDefs)
RStrs == {RStrT(n) : n \in DOMAIN RStrDefs}
RNums == {RNumT(n) : n \in DOMAIN RNumDefs}
Regs  == {RegT(n) : n \in RegNames}
Sku   == RStrT("sku_u")
Out01 == RNumT("out01i")
TdT   == RegT("timedelta")
RngT  == RegT("range")
BasicLeaves == {StrT, IntT, FloatT, BoolT, AnyT, EnE, Lit1, Lit2}
TopLeaves  == BasicLeaves \cup {PathT} \cup RStrs \cup RNums \cup Regs
AllLeaves  == BasicLeaves \cup {NoneT, EnF, Lit3}
\* ... inside List / Dict / Tuple / Optional / Union[Restricted, int]
RestrictedInside ==
       {ListT(Sku), DictT(StrT, Sku), TupleT(<<Sku, IntT>>), ListT(RStrT("pre")), ListT(Out01), ListT(TdT), ListT(RngT), DictT(StrT, TdT)}
  \cup Unions2({Sku, NoneT}) \cup Unions2({Sku, IntT}) \cup Unions2({Out01, NoneT}) \cup Unions2({Out01, StrT})
  \cup Unions2({TdT, NoneT}) \cup Unions2({RngT, NoneT}) \cup Unions2({RNumT("gthf"), IntT})
Core       == {StrT, IntT, BoolT, NoneT}
\* several Tuple / Set members in one Union: an earlier member must not leave its conversions behind for the next one
TupF == TupleT(<<FloatT, FloatT>>)
TupIS == TupleT(<<IntT, StrT>>)
TupSetQuick == {TupF, TupIS, TupleT(<<IntT, IntT>>), TupleT(<<StrT, StrT>>), SetT(IntT), SetT(StrT)}
D1Quick ==
       Conts({StrT, IntT, BoolT, AnyT, EnE, Lit1, NoneT, Lit3}) \cup {BareListT, BareDictT}
  \cup {TupleT(p) : p \in Pairs({IntT, StrT, BoolT})} \cup {TupleT(<<IntT>>)}
  \cup {DictT(kt, e) : kt \in {StrT, IntT}, e \in {IntT, StrT, BoolT, Lit1}}
  \cup Unions2({StrT, IntT, FloatT, BoolT, NoneT, EnE, EnF, Lit1, ListT(IntT), DictT(StrT, IntT)})
  \cup Unions3({StrT, IntT, NoneT}) \cup Unions3({StrT, IntT, ListT(IntT)})
UStrInt == Unions2(Core)
D2Quick ==
       {ListT(u) : u \in UStrInt} \cup {DictT(StrT, u) : u \in Unions2({StrT, IntT, NoneT})} \cup {SetT(u) : u \in Unions2({StrT, IntT, BoolT})}
  \cup {TupleT(<<u, IntT>>) : u \in Unions2({StrT, IntT, NoneT})}
  \cup Unions2({StrT, ListT(UnionT(<<StrT, IntT>>))}) \cup Unions2({StrT, ListT(UnionT(<<IntT, StrT>>))})
  \cup Unions2({ListT(IntT), SetT(IntT), TupleT(<<IntT, IntT>>)})
  \cup Unions2({ListT(IntT), ListT(StrT), TupleT(<<StrT, StrT>>)}) \cup Unions2({DictT(StrT, IntT), DictT(StrT, StrT)})
  \cup {ListT(u) : u \in Unions2({ListT(IntT), ListT(StrT)})}
  \cup Unions2({TupF, TupIS, TupleT(<<IntT, IntT>>), TupleT(<<StrT, StrT>>)}) \cup Unions2({SetT(IntT), SetT(StrT), TupIS})
  \cup {ListT(u) : u \in Unions2({TupF, TupIS})} \cup Unions2({ListT(TupF), ListT(TupIS)})
  \cup {ListT(ListT(IntT)), ListT(DictT(StrT, IntT)), DictT(StrT, ListT(IntT)), ListT(TupleT(<<IntT, StrT>>)), SetT(TupleET(IntT)), SetT(ListT(IntT))}

D1Thorough ==
       D1Quick \cup Conts(AllLeaves)
  \cup {TupleT(p) : p \in Pairs({IntT, StrT, BoolT, FloatT, NoneT, EnE, Lit1})}
  \cup {DictT(kt, e) : kt \in {StrT, IntT}, e \in AllLeaves}
  \cup Unions2(AllLeaves \cup {ListT(IntT), ListT(StrT), DictT(StrT, IntT), SetT(IntT), TupleT(<<IntT, StrT>>), TupleET(IntT)})
  \cup Unions3({StrT, IntT, FloatT, BoolT, NoneT, EnE, Lit1}) \cup Unions3({StrT, NoneT, ListT(IntT), DictT(StrT, IntT)})
UWide == Unions2({StrT, IntT, FloatT, BoolT, NoneT, EnE, Lit1})
D2Thorough ==
       D2Quick \cup {DictT(StrT, u) : u \in UStrInt}
  \cup Conts(UWide) \cup {DictT(kt, u) : kt \in {StrT, IntT}, u \in UWide} \cup Conts(Unions3(Core))
  \cup {TupleT(<<u, w>>) : u \in UStrInt, w \in {IntT, StrT}} \cup {TupleT(<<w, u>>) : u \in UStrInt, w \in {IntT, StrT}}
  \cup Conts(Conts({IntT, StrT, BoolT, NoneT})) \cup {ListT(DictT(kt, e)) : kt \in {StrT, IntT}, e \in {IntT, StrT, BoolT}}
  \cup {DictT(StrT, c) : c \in Conts({IntT, StrT, BoolT})}
  \cup Unions2({StrT, IntT, NoneT, ListT(UnionT(<<StrT, IntT>>)), DictT(StrT, UnionT(<<IntT, StrT>>))})
  \cup Unions2({StrT, IntT, NoneT, ListT(UnionT(<<IntT, StrT>>)), DictT(StrT, UnionT(<<StrT, IntT>>))})
  \cup Unions3({StrT, ListT(IntT), SetT(IntT), TupleT(<<IntT, IntT>>)}) \cup Unions3(Core)
D3Thorough ==
       {ListT(ListT(u)) : u \in UStrInt} \cup {DictT(StrT, ListT(u)) : u \in UStrInt} \cup {ListT(DictT(StrT, u)) : u \in UStrInt}
  \cup {ListT(TupleT(<<u, IntT>>)) : u \in UStrInt} \cup {UnionT(<<NoneT, ListT(u)>>) : u \in UStrInt} \cup {UnionT(<<ListT(u), NoneT>>) : u \in UStrInt}
  \cup {ListT(UnionT(<<a, ListT(b)>>)) : a \in {StrT, IntT}, b \in {StrT, IntT}} \cup {ListT(UnionT(<<ListT(b), a>>)) : a \in {StrT, IntT}, b \in {StrT, IntT}}

ContPairs == Unions2({ListT(IntT), ListT(StrT), ListT(BoolT), DictT(StrT, IntT), DictT(StrT, StrT), DictT(IntT, IntT), SetT(IntT), SetT(StrT),
                       TupleT(<<IntT, StrT>>), TupleT(<<StrT, StrT>>), TupleET(IntT), TupleET(StrT)})
TupSetThorough == TupSetQuick \cup {TupleT(<<IntT, FloatT>>), TupleT(<<FloatT, StrT>>), TupleT(<<BoolT, IntT>>), TupleET(FloatT), TupleET(IntT), SetT(FloatT), SetT(BoolT)}
D4Thorough == ContPairs \cup {ListT(u) : u \in ContPairs} \cup {DictT(StrT, u) : u \in ContPairs}
         \cup Unions2(TupSetThorough) \cup Unions3({TupF, TupIS, TupleT(<<StrT, StrT>>), SetT(IntT)})
         \cup {ListT(u) : u \in Unions2(TupSetQuick)} \cup {DictT(StrT, u) : u \in Unions2({TupF, TupIS, SetT(IntT)})}
\* (the quick run of C10 leaves out the Unions of several Tuple / Set members: they are there for C02)
TupUnions == Unions2({TupF, TupIS, TupleT(<<IntT, IntT>>), TupleT(<<StrT, StrT>>)}) \cup Unions2({SetT(IntT), SetT(StrT), TupIS})
C10QuickDrop == (TupUnions \ {UnionT(<<TupF, TupIS>>), UnionT(<<SetT(IntT), TupIS>>)})
                \cup Unions2({FloatT, BoolT, Lit1, IntT, NoneT}) \cup Conts({NoneT, Lit3, BoolT}) \cup {TupleT(p) : p \in Pairs({IntT, BoolT})}
                \cup {TupleT(<<u, IntT>>) : u \in Unions2({StrT, IntT, NoneT})} \cup {SetT(u) : u \in Unions2({StrT, IntT, BoolT})}
TypeSet == IF Tier = "quick" THEN (TopLeaves \cup D1Quick \cup D2Quick \cup RestrictedInside) \ (IF Laws = "c10" THEN C10QuickDrop ELSE {})
           ELSE TopLeaves \cup D1Thorough \cup D2Thorough \cup D3Thorough \cup D4Thorough \cup RestrictedInside
                \cup {ListT(r) : r \in RStrs \cup RNums \cup Regs} \cup UNION {Unions2({r, NoneT}) : r \in RStrs \cup RNums \cup Regs}
                \cup UNION {Unions2({r, IntT}) : r \in RStrs \cup RNums} \cup {DictT(StrT, r) : r \in Regs}

\* arguments with a default: canonical ones and valid but non-canonical ones (int for float, tuple for List, list for
\* Tuple / Set, str keys for Dict[int, .], a member name for an Enum, a file name for a path)
L12 == <<IntV(1), IntV(2)>>
DefaultsQuick ==
  { <<BoolT, BoolV(FALSE)>>, <<IntT, IntV(1)>>, <<IntT, IntV(2)>>, <<FloatT, FloatV(1, 1)>>, <<FloatT, IntV(1)>>, <<StrT, StrV("abc")>>,
    <<UnionT(<<IntT, StrT>>), IntV(1)>>, <<UnionT(<<FloatT, NoneT>>), IntV(1)>>, <<Lit1, IntV(1)>>, <<EnE, StrV("A")>>, <<PathT, StrV("file.txt")>>,
    <<TdT, RegV("timedelta", TdD1)>>, <<RngT, RegV("range", "0,10,2")>>, <<RNumT("gt1i"), IntV(2)>>, <<Sku, StrV("ABC-1234")>>, <<ListT(TdT), ListV(<<StrV("25:00:00")>>)>>,
    <<ListT(IntT), TupleV(L12)>>, <<TupleT(<<IntT, IntT>>), ListV(L12)>>, <<SetT(IntT), ListV(<<IntV(1)>>)>>, <<DictT(IntT, StrT), D1(StrV("1"), StrV("a"))>> }
DefaultsThorough == DefaultsQuick \cup
  { <<BoolT, BoolV(TRUE)>>, <<IntT, IntV(0)>>, <<FloatT, FloatV(3, 2)>>, <<FloatT, IntV(2)>>, <<StrT, StrV("1")>>, <<StrT, StrV("null")>>,
    <<UnionT(<<StrT, IntT>>), IntV(1)>>, <<UnionT(<<IntT, FloatT>>), IntV(1)>>, <<UnionT(<<FloatT, IntT>>), IntV(1)>>, <<UnionT(<<NoneT, IntT>>), IntV(2)>>,
    <<RegT("decimal"), RegV("decimal", "1/2")>>, <<RegT("complex"), RegV("complex", "1/1,2/1")>>, <<RegT("uuid"), RegV("uuid", UU)>>, <<RegT("bytes"), RegV("bytes", "6162")>>,
    <<UnionT(<<TdT, NoneT>>), StrV("1 day, 1:00:00")>>, <<RNumT("in02f"), IntV(1)>>,
    <<Lit3, IntV(2)>>, <<EnE, EnumV("E", "B")>>, <<ListT(FloatT), ListV(L12)>>, <<ListT(IntT), ListV(<<StrV("1")>>)>>, <<TupleET(IntT), ListV(L12)>>,
    <<DictT(StrT, FloatT), D1(StrV("a"), IntV(1))>>, <<ListT(UnionT(<<IntT, StrT>>)), TupleV(<<IntV(1), StrV("a")>>)>>, <<AnyT, StrV("1")>> }
DefaultPairs == IF Tier = "quick" THEN DefaultsQuick ELSE DefaultsThorough

\* ------------------------------------------------------------------ candidate inputs, generated from the type
Texts   == DOMAIN YamlTbl \cup {"abc", "a", "b", "A", "B", "C", "", " ", "file.txt", "missing.txt"}
\* the texts that every type sees as a whole argument (containers and Unions of the quick tier); leaf types see them all
CoreTexts == {"null", "~", "true", "yes", "1", " 1 ", "0x10", "1.5", "1e3", "\"1\"", "[]", "[1]", "[null]", "[1, a]", "[\"1\", a]", "[[1]]", "[null, 1]", "-",
              "{}", "{\"a\": 1}", "{1: 2}", "{\"a\": null}", "{\"a\": \"1\", \"b\": x}", "[1", "abc", "A", "", "file.txt"}
ScalarsNoText == {NoneV, BoolV(TRUE), BoolV(FALSE), IntV(0), IntV(1), IntV(2), FloatV(3, 2), FloatV(1, 1), FloatV(2, 1),
                  EnumV("E", "A"), EnumV("E", "B"), EnumV("F", "C"), PathV("file.txt")}
Scalars == ScalarsNoText \cup {StrV(s) : s \in Texts}
RStrTexts == {"ABC-1234", "xABC-1234", "sku ABC-1234", "ABC-12345", "ab", "xab", "abc"}       \* matches, and matches that do not start at position 0
RECURSIVE TypeTexts(_)
TypeTexts(ty) == CASE ty.k = "rstr" -> RStrTexts
                   [] ty.k = "reg" -> DOMAIN RegDefs[DefName(ty)].txt \cup RegDefs[DefName(ty)].bad
                   [] ty.k \in {"list", "set", "tupleE", "tuple", "dict", "union"} -> UNION {TypeTexts(ty.v[i]) : i \in 1..Len(ty.v)}
                   [] OTHER -> {}
\* (a registered type sees its own spellings, the texts it must refuse and the non-text scalars: what base64 / Decimal /
\* complex make of an arbitrary text is not tabulated)
\* Decimal / complex / base64 read many texts and numbers that their tables do not list: a type that holds one of them
\* sees its own spellings, the texts it must refuse and the non-text scalars only (and no range / bytes as a list of numbers)
RECURSIVE Untabulated(_)
Untabulated(ty) == CASE ty.k = "reg" -> DefName(ty) \in {"decimal", "complex", "bytes"}
                     [] ty.k \in {"list", "set", "tupleE", "tuple", "dict", "union"} -> \E i \in 1..Len(ty.v) : Untabulated(ty.v[i])
                     [] OTHER -> FALSE
TopScalars(ty) == {StrV(s) : s \in TypeTexts(ty)} \cup
                  (IF ty.k = "reg" \/ Untabulated(ty) THEN ScalarsNoText
                   ELSE IF Tier = "quick" /\ ty \notin TopLeaves THEN ScalarsNoText \cup {StrV(s) : s \in CoreTexts} ELSE Scalars)
Wrong   == {ListV(<< >>), ListV(<<IntV(1)>>), TupleV(<<IntV(1), StrV("a")>>), SetV({IntV(1)}), DictV(<< >>), D1(StrV("a"), IntV(1))}

SeqsUpTo2(S) == {<< >>} \cup {<<a>> : a \in S} \cup {<<a, b>> : a \in S, b \in S}
\* elements to build structures from: some conform to the element type, the others are wrong in one way
RECURSIVE ElemPool(_)
ElemPool(t) ==
  CASE t.k \in LeafKinds \cup {"any", "literal", "enum", "path"} ->
         {IntV(1), BoolV(TRUE), NoneV, FloatV(3, 2), StrV("1"), StrV("abc"), StrV("null"), StrV("A"), StrV("a"), EnumV("E", "A")}
    [] t.k = "rstr" -> {StrV("ABC-1234"), StrV("xABC-1234"), StrV("sku ABC-1234"), StrV("ab"), StrV("xab"), StrV("abc"), IntV(1), NoneV}
    [] t.k = "rnum" -> {IntV(-1), IntV(0), IntV(1), IntV(2), StrV("2"), StrV("1.0"), FloatV(3, 2), FloatV(2, 1), BoolV(TRUE), StrV("abc"), NoneV}
    [] t.k = "reg"  -> RegValues(DefName(t)) \cup {StrV(s) : s \in DOMAIN RegDefs[DefName(t)].txt} \cup {StrV("abc"), IntV(1), NoneV}
    [] t.k = "union" -> UNION {ElemPool(t.v[i]) : i \in 1..Len(t.v)}
    [] t.k \in {"list", "set", "tupleE"} ->
         IF Len(t.v) = 0 THEN {ListV(<< >>), ListV(<<IntV(1), StrV("a")>>), IntV(1)}
         ELSE {ListV(<< >>), IntV(1), StrV("[1]"), NoneV} \cup {ListV(<<e>>) : e \in ElemPool(t.v[1])} \cup {TupleV(<<IntV(1)>>), SetV({IntV(1)})}
    [] t.k = "tuple" -> {ListV(<< >>), IntV(1), ListV(<<IntV(1), StrV("a")>>), ListV(<<IntV(1), IntV(2)>>), TupleV(<<IntV(1), StrV("a")>>), ListV(<<StrV("1"), StrV("a")>>), ListV(<<IntV(1)>>)}
    [] t.k = "dict" -> {DictV(<< >>), D1(StrV("a"), IntV(1)), D1(StrV("a"), StrV("x")), D1(IntV(1), IntV(2)), ListV(<< >>), NoneV}
KeyPool == {StrV("a"), StrV("1"), StrV("0x10"), IntV(1), BoolV(TRUE)}
\* members of the candidates for a Tuple[...] position (quick: a smaller pool, the arity is what matters there)
TupPool(t) == IF Tier = "quick" THEN ElemPool(t) \cap ({IntV(1), StrV("1"), StrV("a"), FloatV(3, 2), BoolV(TRUE), NoneV} \cup {y \in ElemPool(t) : y.k \in {"list", "dict", "tuple", "set"}})
              ELSE ElemPool(t)
TuplePick == {IntV(1), StrV("1"), StrV("a")}       \* first members of the candidates that are given as TUPLES / with a wrong arity
IterRegs == {RegV("range", "1,5,1"), RegV("range", "0,0,1"), RegV("bytes", "6162")}     \* iterables that are not containers: a list is made of them
RECURSIVE Structs(_)
Structs(t) ==
  CASE t.k \in LeafKinds \cup {"any", "literal", "enum", "path", "rstr", "rnum"} -> {}
    [] t.k = "reg" -> RegValues(DefName(t))                                   \* the values themselves (parse_object, defaults)
    [] t.k = "union" -> UNION {Structs(t.v[i]) : i \in 1..Len(t.v)}
    [] t.k \in {"list", "set", "tupleE"} ->
         LET P == IF Len(t.v) = 0 THEN {IntV(1), StrV("a"), NoneV} ELSE ElemPool(t.v[1])
         IN {ListV(s) : s \in SeqsUpTo2(P)} \cup {TupleV(<<e>>) : e \in P} \cup {SetV({e}) : e \in {e \in P : Hashable(e)}}
            \cup {TupleV(<<IntV(1), IntV(2)>>), SetV({IntV(1), IntV(2)}), SetV({})} \cup (IF Untabulated(t) THEN {} ELSE IterRegs)
    [] t.k = "tuple" ->
         LET full == SeqProd([n \in 1..Len(t.v) |-> TupPool(t.v[n])])
             some == {s \in full : s[1] \in TuplePick}
         IN {ListV(s) : s \in full} \cup {TupleV(s) : s \in some}
            \cup {ListV(SubSeq(s, 1, Len(s) - 1)) : s \in some} \cup {ListV(s \o <<IntV(1)>>) : s \in some} \cup {SetV({IntV(1)})} \cup IterRegs
    [] t.k = "dict" ->
         LET P == IF Len(t.v) = 0 THEN {IntV(1), StrV("a")} ELSE ElemPool(t.v[2])
         IN {DictV(<< >>)} \cup {D1(key, e) : key \in KeyPool, e \in P}
            \cup {DictV(<< <<StrV("a"), e>>, <<StrV("b"), f>> >>) : e \in P, f \in {IntV(1), StrV("abc")}}
            \cup {DictV(<< <<StrV("1"), e>>, <<IntV(2), e>> >>) : e \in {IntV(1), StrV("abc")}}
            \cup (IF Len(t.v) > 0 /\ t.v[1].k = "int" THEN {DictV(<< <<StrV("1"), IntV(1)>>, <<IntV(1), IntV(2)>> >>)} ELSE {})   \* two keys that cast to the same int
Cands(t) == TopScalars(t) \cup Wrong \cup Structs(t)
\* with a default: every scalar (of every kind: some are ==-equal to the default), the wrong containers, and nothing at all
AbsentV == [k |-> "absent", v |-> 0]
DefaultCands(ty) == (IF TypeTexts(ty) # {} THEN TopScalars(ty) ELSE Scalars) \cup Wrong \cup Structs(ty) \cup {AbsentV}

\* ------------------------------------------------------------------ the state space: one state per case
VARIABLES t, d, x, ph
vars == <<t, d, x, ph>>
Init == ph = 0 /\ x = NoneV /\ \E p \in {<<ty, NoneV>> : ty \in TypeSet} \cup DefaultPairs : t = p[1] /\ d = p[2]
Next == ph = 0 /\ ph' = 1 /\ t' = t /\ d' = d /\ x' \in (IF d = NoneV THEN Cands(t) ELSE DefaultCands(t))
Spec == Init /\ [][Next]_vars

Case == ph = 1

RECURSIVE Jsonable(_)
Jsonable(y) == CASE y.k = "bag" -> [k |-> "bag", v |-> [n \in 1..Len(AsSeq(y)) |-> Jsonable(AsSeq(y)[n])]]
                 [] y.k \in {"list", "tuple"} -> [k |-> y.k, v |-> [n \in 1..Len(y.v) |-> Jsonable(y.v[n])]]
                 [] y.k = "set" -> [k |-> "set", v |-> {Jsonable(e) : e \in y.v}]
                 [] y.k = "dict" -> [k |-> "dict", v |-> [n \in 1..Len(y.v) |-> <<y.v[n][1], Jsonable(y.v[n][2])>>]]
                 [] OTHER -> y
FnPairs(f) == LET S == SetAsSeq(DOMAIN f) IN [i \in 1..Len(S) |-> <<S[i], f[S[i]]>>]
\* the definitions of the restricted / registered types, for the harness (which builds the real types from them and runs every row)
ASSUME Emit # "none" => PrintT(ToJson([typedefs |-> [rstr |-> RStrDefs, rnum |-> RNumDefs, pyint |-> PyIntTbl, pyfloat |-> PyFloatTbl,
          reg |-> [n \in RegNames |-> [ser |-> FnPairs(RegDefs[n].ser), txt |-> FnPairs(RegDefs[n].txt), num |-> FnPairs(RegDefs[n].num), bad |-> RegDefs[n].bad]],
          iter |-> [n \in DOMAIN IterTbl |-> FnPairs(IterTbl[n])]]]))
\* a sample of types that the replay also declares under a name that is a Namespace method (--items): nothing may depend on
\* the name of the argument (repaired by /repo 737ad47; before, such values were not normalised when they came as an object)
ClashTypes == {IntT, FloatT, EnE, ListT(IntT), SetT(IntT), DictT(StrT, IntT), TupleT(<<IntT, StrT>>), UnionT(<<IntT, StrT>>), Sku, TdT}
ASSUME Emit # "none" => PrintT(ToJson([vocabulary |-> LET S == SetAsSeq(DOMAIN YamlTbl) IN [n \in 1..Len(S) |-> <<S[n], YamlTbl[S[n]]>>]]))

\* One invariant, so that Ref's verdict, Ref's normal forms and Alg's result are evaluated ONCE per case; a failing law
\* prints its name before TLC reports InvCase.
\*   RefLaws, RefPermInvariant            the property on the Ref layer (C02)
\*   AlgRefinesRef, DevsAsDescribed, AlgPermInvariant   the transcription against Ref (C02)
\*   Idempotent, DumpStable, Absent*      the fixed-point laws (C10)
\* RefPermInvariant compares all arrangements of the Unions of t; it is evaluated in the state of ONE representative of
\* every permutation class (all arrangements are states of the instance).
Named(name, holds) == holds \/ (PrintT(<<"LAW", name>>) /\ FALSE)
C02Laws == Laws \in {"c02", "all"}
C10Laws == Laws \in {"c10", "all"}
IsRep(ty) == ty = CHOOSE p \in AllPerms(ty) : TRUE
InvCase ==
  IF ~Case THEN (Emit # "none" => PrintT(ToJson([type |-> t, d |-> d])))
  ELSE IF x = AbsentV
  THEN LET n == AlgParseAbsent(t, d, TRUE)           \* parse_object: defaults normalised
           r == AlgParseAbsent(t, d, FALSE)          \* parse_args: defaults as they are
       IN /\ C10Laws => Named("AbsentLaws", AbsentLawsA(t, d, n) /\ AbsentLawsA(t, d, r))
          /\ C10Laws => Named("AbsentIdempotent", (n.dev = {} => IdempotentA(t, d, n)) /\ (r.dev = {} => IdempotentA(t, d, r)))
          /\ C10Laws => Named("AbsentDumpStable", (n.dev = {} => DumpStableA(t, d, n)) /\ (r.dev = {} => DumpStableA(t, d, r)))
          /\ (Emit # "none") => PrintT(ToJson([t |-> t, d |-> d, x |-> x, nok |-> n.ok, nv |-> n.v, ndev |-> n.dev, rok |-> r.ok, rv |-> r.v, rdev |-> r.dev]))
  ELSE LET acc == Accepts(t, x)
           res == TopResults(t, x)
           a   == AlgParse(t, x, d)
       IN /\ C02Laws => Named("RefLaws", RefLawsCore(t, x) /\ acc = (res # {}))
          /\ (C02Laws /\ d = NoneV /\ IsRep(t)) => Named("RefPermInvariant", \A p \in AllPerms(t) \ {t} : Accepts(p, x) = acc /\ TopResults(p, x) = res)
          /\ C02Laws => Named("AlgRefinesRef", Devs(a) = {} => (a.ok = acc /\ (a.ok => (a.v \in res /\ ConformsTop(t, a.v)))))
          /\ (C02Laws /\ Tier # "quick") => Named("AlgPermInvariant", AlgPermInvariantA(t, x, d, a))    \* (quick: every permutation is a state of its own)
          /\ C02Laws => Named("DevsAsDescribed", ((Devs(a) # {} /\ Devs(a) \subseteq {"litEq", "dictKey", "origNested"} /\ ~a.ok) => ~acc))
          /\ C10Laws => Named("Idempotent", IdempotentA(t, d, a))
          /\ C10Laws => Named("DumpStable", DumpStableA(t, d, a))
          /\ C10Laws => Named("DumpPure", DumpPureA(t, a))
          /\ (Emit = "all" \/ (Emit = "accepted" /\ a.ok)) => PrintT(ToJson(
                IF d = NoneV /\ t \in ClashTypes
                THEN [t |-> t, d |-> d, x |-> x, acc |-> acc, res |-> res, aok |-> a.ok, av |-> a.v, dev |-> a.dev, clash |-> TRUE]
                ELSE [t |-> t, d |-> d, x |-> x, acc |-> acc, res |-> res, aok |-> a.ok, av |-> a.v, dev |-> a.dev]))
=============================================================================
