INIT InitCase
NEXT NextCase
CONSTANTS
  MaxFlat = 3
  FullPermsUpTo = 3
  AllKindsUpTo = 2
  MaxDeepLinks = 3
  DeepFull = TRUE
  Emit = FALSE
INVARIANT RepairRefinesRef
CHECK_DEADLOCK FALSE
