SPECIFICATION Spec
CONSTANTS
  ShtabBreaksDefaults = {"A", "B"}
  ClearOnError = FALSE
  Full = FALSE
  Help = FALSE
  Emit = FALSE
INVARIANT HistoryIndependentStrict
CHECK_DEADLOCK FALSE
