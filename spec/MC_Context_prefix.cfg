SPECIFICATION Spec
CONSTANTS
  ShtabBreaksDefaults = {"A", "B"}
  ClearOnError = FALSE
  Full = FALSE
  Emit = FALSE
INVARIANT HistoryIndependentStrict
CHECK_DEADLOCK FALSE
