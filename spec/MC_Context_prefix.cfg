SPECIFICATION Spec
CONSTANTS
  ShtabBreaksDefaults = {"A"}
  ClearOnError = FALSE
  Full = FALSE
  Emit = FALSE
INVARIANT HistoryIndependentStrict
CHECK_DEADLOCK FALSE
