SPECIFICATION Spec
CONSTANTS
  ClearOnError = FALSE
  Full = FALSE
  Emit = FALSE
INVARIANT HistoryIndependentStrict
CHECK_DEADLOCK FALSE
