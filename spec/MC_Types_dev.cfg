SPECIFICATION Spec
CONSTANTS
  Tier = "thorough"
  Emit = "none"
INVARIANT InvRefLaws
INVARIANT InvRefPermInvariant
INVARIANT InvAlg
CHECK_DEADLOCK FALSE
