SPECIFICATION Spec
CONSTANTS
  Tier = "thorough"
  Emit = "none"
  Laws = "all"
INVARIANT InvCase
CHECK_DEADLOCK FALSE
