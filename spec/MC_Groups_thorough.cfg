SPECIFICATION Spec
CONSTANTS
  MaxItems = 3
  Emit = TRUE
INVARIANT StylesAgree
INVARIANT OptionalNeverRequired
INVARIANT EmitCase
CHECK_DEADLOCK FALSE
