--------------------------- MODULE Trace_SaveHist ---------------------------
(* Validation of recorded HISTORIES of the real ArgumentParser.save (harness/checks/c18.py, code -> spec): the same    *)
(* configuration object saved, edited (every value changed, some __path__ metas dropped) and saved again into the     *)
(* same directory.  Each of the two calls is ALSO validated on its own by Trace_Save; this module checks what only a   *)
(* history can show.  TRACE_FILE holds [hists |-> << ... >>], one entry =                                              *)
(*   first, second   the scenarios of the two calls as TLC emitted them (second.pre = what the MODEL expects the first  *)
(*                   call to leave, aged)                                                                               *)
(*   fs1, out1       the directory / outcome after the first call as observed                                          *)
(*   pre2            the directory as the harness found it before the second call (classes relative to the bytes then)  *)
(*   out2, fs2, refs2, reparses2   the observation of the second call                                                   *)
(* Ref clauses ("href-...") decide the verdict, Alg clauses ("halg-...") only drift.                                    *)
EXTENDS SaveHist, Json, IOUtils, TLCExt

Probe == [k |-> "k", v |-> "v"]
Data == JsonDeserialize(IOEnv.TRACE_FILE)
Hs   == Data.hists
N    == Len(Hs)

Fn(pairs) == [f \in {pairs[k][1] : k \in 1..Len(pairs)} |-> pairs[CHOOSE k \in 1..Len(pairs) : pairs[k][1] = f][2]]
ToSc(j) == [multifile |-> j.multifile, overwrite |-> j.overwrite, subs |-> j.subs, invalid |-> j.invalid, unser |-> j.unser,
            fault |-> [kind |-> j.fault[1], n |-> j.fault[2]], pre |-> Fn(j.pre), inplace |-> j.inplace,
            skipval |-> j.skipval, edited |-> j.edited, scheme |-> j.scheme]

VARIABLE idx
Init == idx \in 1..N
Next == UNCHANGED idx
Say(k, clause) == PrintT(<<"R", "hist", k, clause>>)

Check(k) ==
  LET o   == Hs[k]
      sc1 == ToSc(o.first)
      m2  == ToSc(o.second)
      hh  == [first |-> sc1, second |-> [multifile |-> m2.multifile, overwrite |-> m2.overwrite, subs |-> m2.subs,
                                         invalid |-> m2.invalid, unser |-> m2.unser, fault |-> m2.fault]]
      fs1 == Fn(o.fs1)
      fs2 == Fn(o.fs2)
      sc2 == SecondSc(hh, fs1)                       \* the second call on what the first call REALLY left
      r1  == Run1(hh)
      r2  == Run(sc2)
  IN /\ (Fn(o.pre2) = Age(fs1) /\ DOMAIN fs2 = DOMAIN fs1 /\ DOMAIN fs1 = DOMAIN sc1.pre) \/ Say(k, "malformed")
     \* ---- Ref: the laws of a history
     /\ NeverLost(hh, sc1.pre, fs2) \/ Say(k, "href-neverlost")
     /\ FirstResultKept(hh, fs1, fs2) \/ Say(k, "href-firstkept")
     /\ ((o.out2 = "ok" /\ ~(Invalid(sc2) /\ sc2.skipval)) => (o.reparses2 /\ \A f \in DOMAIN fs2 : f \notin Targets(sc2) => fs2[f] = Age(fs1)[f]))
          \/ Say(k, IF Collision(sc2) /\ fs2 = r2.fs THEN "href-stale-as:multi-name-collision" ELSE "href-stale")
     \* ---- Alg: the model predicts what the first call leaves, and the second call on it
     /\ (fs1 = r1.fs /\ o.out1 = Out(r1) /\ Age(r1.fs) = m2.pre) \/ Say(k, "halg-first")
     /\ (fs2 = r2.fs /\ o.out2 = Out(r2)) \/ Say(k, "halg-second")
     /\ (o.out2 = "ok" /\ ~(Invalid(sc2) /\ sc2.skipval)) => ((Reparses(sc2, fs2, o.refs2) <=> o.reparses2) \/ Say(k, "halg-reparse-model"))

Inv == Check(idx) \/ TRUE
=============================================================================
