---------------------------- MODULE Trace_Sources ----------------------------
(* Validation of parses observed on the real jsonargparse (code -> spec).  TRACE_FILE holds a sequence of      *)
(* cases [s, obs]: the source assignment that was rendered into files / environment / argv, and the final      *)
(* configuration the real parse method returned (abstract encoding of Sources.tla).  Each case is checked      *)
(* against the documented fold (Ref, verdict) and against the staged algorithm (Alg, drift).                   *)
EXTENDS Sources, Json, IOUtils, TLCExt

Cases == JsonDeserialize(IOEnv.TRACE_FILE)
VARIABLE tidx
Init == tidx \in 1..Len(Cases)
Next == UNCHANGED tidx
Say(idx, clause) == PrintT(<<"R", "case", idx, clause>>)
Check ==
  LET c == Cases[tidx]
      ref == Fold(c.s)
      alg == AlgFinal(c.s)
  IN /\ (c.obs = ref) \/ Say(tidx, IF EnvConfigAppend(c.s) /\ c.obs = alg THEN "ref-dev-as-alg" ELSE "ref")
     /\ (c.obs = alg) \/ Say(tidx, "alg")
Inv == Check \/ TRUE
=============================================================================
