------------------------------ MODULE MC_Paths ------------------------------
(* Bounded instance of Paths.tla, part (a):                                                                   *)
(*   part = "acc": every valid mode of <= MaxFlags flags over fdrwxcFDRWX (+ cc) x every consistent fact vector *)
(*   part = "str": every string of <= MaxStr characters over the flag alphabet plus a non-flag                  *)
(* One state per case; the invariants are evaluated on each, the emission invariants print the table that the  *)
(* harness replays against the real Path on a fixture directory.                                               *)
EXTENDS Paths, Json, SequencesExt
CONSTANTS MaxFlags, MaxStr, Emit

Canon == <<"f", "d", "r", "w", "x", "c", "F", "D", "R", "W", "X">>
Modes == {mm \in [fl : SUBSET LocalFlags, cc : BOOLEAN] :
            /\ mm.cc => "c" \in mm.fl
            /\ Cardinality(mm.fl) + (IF mm.cc THEN 1 ELSE 0) <= MaxFlags
            /\ ~("f" \in mm.fl /\ "d" \in mm.fl)}
FactVectors == {FF \in [stdio : BOOLEAN, st : {"ok", "noent", "notdir", "acces"}, kind : {"file", "dir", "fifo", "other", "none"},
                        r : BOOLEAN, w : BOOLEAN, x : BOOLEAN, pdir : BOOLEAN, pw : BOOLEAN, nedir : BOOLEAN, ndw : BOOLEAN] : Consistent(FF)}
Alphabet == LegalFlags \cup {"z"}
RECURSIVE StringsOfLen(_)
StringsOfLen(n) == IF n = 0 THEN {<< >>} ELSE {<<ch>> \o t : ch \in Alphabet, t \in StringsOfLen(n - 1)}
Strings == UNION {StringsOfLen(n) : n \in 0..MaxStr}
NoMode  == [fl |-> {}, cc |-> FALSE]
NoFacts == CHOOSE FF \in FactVectors : FF.stdio

\* The cases are generated in two steps (root -> one state per mode / per first character -> the cases) so that TLC's
\* workers evaluate the invariants in parallel; only the states with part = "acc" / "str" are cases.
VARIABLES part, m, F, s
vars == <<part, m, F, s>>
Shorter == UNION {StringsOfLen(n) : n \in 0..(MaxStr - 1)}
Init == part = "root" /\ m = NoMode /\ F = NoFacts /\ s = << >>
PickMode   == part = "root" /\ part' = "mode" /\ m' \in Modes /\ UNCHANGED <<F, s>>
PickFacts  == part = "mode" /\ part' = "acc" /\ F' \in FactVectors /\ UNCHANGED <<m, s>>
EmptyStr   == part = "root" /\ part' = "str" /\ UNCHANGED <<m, F, s>>
PickFirst  == part = "root" /\ MaxStr >= 1 /\ part' = "pre" /\ s' \in StringsOfLen(1) /\ UNCHANGED <<m, F>>
PickRest   == part = "pre" /\ part' = "str" /\ s' \in {s \o t : t \in Shorter} /\ UNCHANGED <<m, F>>
Next == PickMode \/ PickFacts \/ EmptyStr \/ PickFirst \/ PickRest
Spec == Init /\ [][Next]_vars

\* ------------------------------------------------------------------ invariants
Acc == part = "acc"
\* C19 (a), design level: outside the named deviations the check sequence decides exactly what the docstring says
AlgRefinesRef == (Acc /\ PathDevName(m, F) = "none") => AlgVerdict(m, F) \in RefOutcomes(m, F)
\* every failure of the algorithm is a PathError -- except the escape of os.stat's exception under the not-file flag
FailureIsPathError == (Acc /\ AlgCheck(m, F).res = "oserror") => ("F" \in m.fl /\ ~Exists(F))
\* ... which happens exactly where the path should have been ACCEPTED (a missing path is not a file)
StatPartialIsWrongAccept == (Acc /\ StatPartial(m, F) /\ ~(m.cc /\ ~F.pdir /\ ~F.nedir)) => RefOutcomes(m, F) = {"accept"}
CcThroughFileIsWrongAccept == (Acc /\ m.cc /\ ~F.pdir /\ ~F.nedir /\ ~F.stdio) => "accept" \notin RefOutcomes(m, F)
\* the only place the documentation leaves open is an existing fifo under "fc"
OpenOnlyForFifoCreate == (Acc /\ RefOutcomes(m, F) = {"accept", "reject"}) => (F.kind = "fifo" /\ "f" \in m.fl /\ "c" \in m.fl)
\* laws of the reference itself
RefLaws ==
  Acc => /\ ~(ModeSat(m, F) /\ ModeUnsat(m, F))
         /\ F.stdio => RefOutcomes(m, F) = {"accept"}
         \* a flag and its negation can never both be satisfied (f/F and d/D: unless the path may still be created)
         /\ \A pr \in {<<"r", "R">>, <<"w", "W">>, <<"x", "X">>} : (pr[1] \in m.fl /\ pr[2] \in m.fl /\ ~F.stdio) => RefOutcomes(m, F) = {"reject"}
         /\ \A pr \in {<<"f", "F">>, <<"d", "D">>} : (pr[1] \in m.fl /\ pr[2] \in m.fl /\ "c" \notin m.fl /\ ~F.stdio) => RefOutcomes(m, F) = {"reject"}
         \* adding a requirement (other than "creatable") never turns a rejected path into an accepted one
         /\ \A fl \in LocalFlags \ {"c"} :
              LET m2 == [m EXCEPT !.fl = m.fl \cup {fl}] IN
              (~("f" \in m2.fl /\ "d" \in m2.fl) /\ "accept" \in RefOutcomes(m2, F)) => "accept" \in RefOutcomes(m, F)
         \* a path that does not exist is acceptable only to modes that may create it or do not care what it is
         /\ (~Exists(F) /\ ~F.stdio /\ "c" \notin m.fl /\ (m.fl \cap {"f", "d", "r", "w", "x"}) # {}) => RefOutcomes(m, F) = {"reject"}
\* the mode language: the check sequence accepts exactly the documented strings
ModeLanguage == part = "str" => ((CheckModeAlg(s) = "ok") <=> ValidModeRef(s))
ModeOfValid  == (part = "str" /\ ValidModeRef(s) /\ ~Has(s, "u") /\ ~Has(s, "s") /\ Len(s) <= MaxFlags) => ModeOf(s) \in Modes

\* ------------------------------------------------------------------ emission
RECURSIVE Cat(_)
Cat(q) == IF q = << >> THEN "" ELSE Head(q) \o Cat(Tail(q))
ModeStr(mm) == Cat(SelectSeq(Canon, LAMBDA c : c \in mm.fl)) \o (IF mm.cc THEN "c" ELSE "")     \* "cc" shows as a second, trailing c
B(b) == IF b THEN "1" ELSE "0"
FactStr(FF) == FF.st \o ":" \o FF.kind \o ":" \o B(FF.r) \o B(FF.w) \o B(FF.x) \o B(FF.pdir) \o B(FF.pw) \o B(FF.nedir) \o B(FF.ndw) \o B(FF.stdio)
RefStr(S) == (IF "accept" \in S THEN "a" ELSE "") \o (IF "reject" \in S THEN "r" ELSE "")
EmitCase ==
  (Emit /\ part \in {"acc", "str"}) => IF Acc THEN PrintT(ToJson([m |-> ModeStr(m), f |-> FactStr(F), a |-> AlgCheck(m, F).res, at |-> AlgCheck(m, F).at,
                                      r |-> RefStr(RefOutcomes(m, F)), d |-> PathDevName(m, F)]))
          ELSE PrintT(ToJson([s |-> Cat(s), ok |-> ValidModeRef(s), at |-> CheckModeAlg(s)]))
=============================================================================
