---------------------------- MODULE Trace_Scalars ----------------------------
(* Validation of observations recorded from the real code (code -> spec), scalar level of C01.                     *)
(* TRACE_FILE holds [texts |-> <<...>>, floats |-> <<...>>]:                                                        *)
(*   a text  = [s, style, kstyle, d, l, rk, rt, same, ksame, lsame, b, lv, lvs]  one str pushed through the real    *)
(*             yaml_dump / yaml_load / resolvers / load_basic / load_value:                                          *)
(*               s      the text as symbols (alpha_char of the harness)                                              *)
(*               style  "plain" | "single" | "double": how the real stock dumper wrote it as a mapping value;        *)
(*                      kstyle: as a mapping key;  rt: the symbols read back when a str was read back               *)
(*               d, l   tag the real SafeDumper / jsonargparse loader resolve the plain text to                      *)
(*               rk     kind of what yaml_load(yaml_dump({"k": s}))["k"] returned ("error" if it raised)             *)
(*               same   it returned the same str;  ksame / lsame: the same as a mapping key / a list item            *)
(*               b      kind returned by load_basic;  lv / lvs: by load_value(simple_types=False / True)             *)
(*               jsame / jrk / jrt: the same through json_compact_dump and yaml_load                                 *)
(*   a float = [r, y, j, ysame, jsame]  one float (repr r) written by the real yaml / json dumpers (texts y, j)      *)
(*             and read back by yaml_load: same float or not.                                                        *)
(* Every observation is checked independently.  Failing clauses are printed as <<"R", kind, index, clause>>:         *)
(*   ref-other            the round trip failed on a text outside the named deviations        (VIOLATION)            *)
(*   ref-dev:<family>     it failed, the text is in a named family and the code did what Alg says (known finding)    *)
(*   alg-*                the real code agrees with Ref but not with the Alg transcription     (drift)               *)
EXTENDS Scalars, Json, IOUtils, TLCExt

Data   == JsonDeserialize(IOEnv.TRACE_FILE)
Texts  == Data.texts
Floats == Data.floats
NT == Len(Texts)
NF == Len(Floats)

\* One observation per behaviour.  The check is evaluated in the NEXT step (as the value of `ok'`), so that TLC's
\* workers share the observations; it is always TRUE, the failing clauses are printed.
VARIABLES i, ph, ok
Init == i \in 1..(NT + NF) /\ ph = 0 /\ ok = TRUE
Say(kind, idx, clause) == PrintT(ToJson(<<"R", kind, idx, clause>>))      \* one line whatever the length (TLC wraps long tuples)
Cmp(pred, seen) == pred = seen \/ pred \in {"unsure", "doc"}          \* the spec does not decide these

CheckText(k) ==
  LET o    == Texts[k]
      t    == o.s
      d    == DumperTag(t)
      l    == LoaderTag(t)
      w    == YamlStyleFrom(d, PlainAllowed(t), t)
      rb   == ReadBackFrom(w, l, t)
      dev  == DeviationFrom(w, t)
      b    == LoadBasic(t)
      y    == LoadValueLoaded(b, t)
      allsame == o.same /\ o.ksame /\ o.lsame
      asAlg   == o.rk = rb.k /\ (rb.k = "str" => o.rt = rb.v)       \* the code did exactly what the (named) Alg behaviour says
  IN \* ---- Ref: a str written by the stock dumper is read back as the same str by the customised loader,
     \*      as a mapping value, as a mapping key and as a sequence item
     /\ allsame \/ Say("text", k, IF dev # "none" /\ asAlg THEN "ref-dev:" \o dev ELSE "ref-other")
     \* ---- Alg: the transcription predicts what the code did
     /\ (o.same = o.lsame /\ o.same = o.ksame) \/ Say("text", k, "alg-position")        \* value, key and item behave alike
     /\ (dev = "none" \/ ~allsame) \/ Say("text", k, "alg-deviation-not-observed")
     /\ d = o.d \/ Say("text", k, "alg-dumper-tag")
     /\ l = o.l \/ Say("text", k, "alg-loader-tag")
     /\ w = o.style \/ Say("text", k, "alg-style")
     /\ w = o.kstyle \/ Say("text", k, "alg-key-style")
     /\ asAlg \/ Say("text", k, "alg-readback")
     \* ---- the same str written by json.dumps(ensure_ascii=False) and read by the yaml loader
     /\ o.jsame \/ Say("text", k, IF JsonStrDeviation(t) # "none" /\ o.jrk = ReadJsonString(t).k /\ (o.jrk = "str" => o.jrt = ReadJsonString(t).v)
                                  THEN "ref-dev:" \o JsonStrDeviation(t) ELSE "ref-other-json")
     /\ (o.jrk = ReadJsonString(t).k /\ (o.jrk = "str" => o.jrt = ReadJsonString(t).v)) \/ Say("text", k, "alg-json-readback")
     /\ o.jksame \/ Say("text", k, IF JsonKeyDeviation(t) # "none" /\ ReadJsonKey(t).k = "error" THEN "ref-dev:" \o JsonKeyDeviation(t) ELSE "ref-other-json-key")
     /\ ((ReadJsonKey(t) = StrV(t)) = o.jksame) \/ Say("text", k, "alg-json-key-readback")
     /\ Cmp(b.k, o.b) \/ Say("text", k, "alg-load_basic")
     /\ Cmp(LoadValueFrom(y, t, FALSE).k, o.lv) \/ Say("text", k, "alg-load_value")
     /\ Cmp(LoadValueFrom(y, t, TRUE).k, o.lvs) \/ Say("text", k, "alg-load_value-simple")

CheckFloat(k) ==
  LET o == Floats[k]
      jdev == JsonDeviation(o.r)
  IN /\ o.ysame \/ Say("float", k, "ref-yaml-float")
     /\ o.jsame \/ Say("float", k, IF jdev # "none" /\ ~JsonFloatRoundTrip(o.r) THEN "ref-dev:" \o jdev ELSE "ref-json-float")
     /\ YamlFloatText(o.r) = o.y \/ Say("float", k, "alg-yaml-float-text")
     /\ JsonFloatText(o.r) = o.j \/ Say("float", k, "alg-json-float-text")
     /\ (YamlFloatRoundTrip(o.r) = o.ysame) \/ Say("float", k, "alg-yaml-float-readback")
     /\ (JsonFloatRoundTrip(o.r) = o.jsame) \/ Say("float", k, "alg-json-float-readback")

Check == IF i <= NT THEN CheckText(i) ELSE CheckFloat(i - NT)
Next == ph = 0 /\ ph' = 1 /\ i' = i /\ ok' = Check
Inv == ok
=============================================================================
