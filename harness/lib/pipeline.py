"""gamma / alpha for the parse pipeline (Sources.tla): build a real parser for a shape, render a source
assignment (default config files, environment, command line, config string/object/path) and run it.

Abstract encoding (shared with Sources.tla):
  value of an int key   [n]          list key  [n1, n2, ...]        dict key  [item*100000 + n, ...]  (item i <-> "k<i>")
  assignment            {"key", "op": set|app|item, "item": i, "v": value}
  source assignment     {"defaults": {key: value}, "dcf": [[asg...]...], "env": bool, "envc": [asg...], "envv": [asg...],
                         "argv": [{"kind": opt|cfg, "asgs": [asg...]}...], "last": [asg...], "method": args|string|object|path|env}
Every case runs in a worker process (fork) that restores os.environ and uses its own scratch directory.
"""
from __future__ import annotations

import json
import multiprocessing as mp
import os
import shutil
import tempfile

from . import common

KINDS = {"int": "int", "list": "list", "dict": "dict"}
ENC = 100000  # Sources.tla Enc(item, n)
NONE = 99999


def kind_of_value(v):
    if v and isinstance(v[0], list):
        return "dict"
    return None


def shape_from_defaults(defaults: dict, kinds: dict) -> list:
    return [(k, kinds[k], defaults[k]) for k in defaults]


def conc(kind, v):
    """abstract value -> Python value"""
    if kind == "int":
        return v[0]
    if kind == "list":
        return list(v)
    if kind == "dict":
        return {f"k{e // ENC}": e % ENC for e in v}
    if kind == "str":  # n stands for the text "s<n>", 0 for the empty string
        return "" if v[0] == 0 else f"s{v[0]}"
    if kind == "optint":  # 99999 stands for None
        return None if v[0] == NONE else v[0]
    raise AssertionError(kind)


def absv(kind, x):
    """Python value -> abstract value (total: anything unexpected becomes a marker that cannot equal a spec value)"""
    try:
        if kind == "str" and type(x) is str:
            if x == "":
                return [0]
            if x[:1] == "s" and x[1:].isdigit() and int(x[1:]) > 0:
                return [int(x[1:])]
        if kind == "optint":
            if x is None:
                return [NONE]
            if type(x) is int and x != NONE:
                return [x]
        if kind == "int" and type(x) is int:
            return [x]
        if kind == "list" and type(x) is list and all(type(e) is int for e in x):
            return list(x)
        if kind == "dict" and type(x) is dict and all(isinstance(k, str) and k[:1] == "k" and k[1:].isdigit() and type(n) is int and 0 <= n < ENC for k, n in x.items()):
            return [int(k[1:]) * ENC + n for k, n in x.items()]
    except Exception:
        pass
    return [-999999, -999999, -999999]


def build_parser(shape, *, dcf_patterns=None, default_env=False, exit_on_error=False, parser_mode="yaml", via_set_defaults=False):
    from typing import Dict, List

    from jsonargparse import ActionConfigFile, ArgumentParser

    p = ArgumentParser(exit_on_error=exit_on_error, env_prefix="APP", default_env=default_env,
                       default_config_files=dcf_patterns, parser_mode=parser_mode)
    p.add_argument("--cfg", action=ActionConfigFile)
    for key, kind, default in shape:
        from typing import Optional

        t = {"int": int, "list": List[int], "dict": Dict[str, int], "str": str, "optint": Optional[int]}[kind]
        if via_set_defaults:
            p.add_argument("--" + key, type=t)      # the source-code default is given afterwards with set_defaults
        else:
            p.add_argument("--" + key, type=t, default=conc(kind, default))
    if via_set_defaults:
        p.set_defaults({dest_of(key): conc(kind, default) for key, kind, default in shape})
    return p


def dest_of(key: str) -> str:
    """the configuration key of an option: dashes of the option name become underscores"""
    return key.replace("-", "_")


def env_name(key: str) -> str:
    # the documented rule [PREFIX_][LEV__]*OPT
    return "APP_" + dest_of(key).upper().replace(".", "__")


def cfg_obj(asgs, kinds, dotted: bool) -> dict:
    """assignments of one config -> the mapping a user would write (nested or dotted spelling)"""
    out: dict = {}
    for a in asgs:
        key, kind = dest_of(a["key"]), kinds[a["key"]]
        if a["op"] == "app":
            name, val = key + "+", list(a["v"])
        else:
            name, val = key, conc(kind, a["v"])
        if dotted or "." not in name:
            out[name] = val
        else:
            cur = out
            parts = name.split(".")
            for part in parts[:-1]:
                cur = cur.setdefault(part, {})
            cur[parts[-1]] = val
    return out


def argv_of(item, kinds, variant, tmp, n):
    if item["kind"] == "opt":
        a = item["asgs"][0]
        key, kind = a["key"], kinds[a["key"]]
        if a["op"] == "set":
            val = conc(kind, a["v"])
            txt = val if kind == "str" else json.dumps(val)  # strings go raw on the command line
            return ["--" + key + "=" + txt] if (variant + n) % 2 == 0 else ["--" + key, txt]
        if a["op"] == "app":
            txt = json.dumps(list(a["v"])) if ((variant + n) % 2 == 0 or len(a["v"]) != 1) else str(a["v"][0])
            return [f"--{key}+={txt}"]
        if a["op"] == "item":
            return [f"--{key}.k{a['item']}={a['v'][0]}"]
        raise AssertionError(a)
    obj = cfg_obj(item["asgs"], kinds, dotted=(variant + n) % 3 == 0)
    if (variant + n) % 2 == 0:
        return ["--cfg=" + json.dumps(obj)]
    f = os.path.join(tmp, f"argv{n}.json")
    with open(f, "w") as fh:
        json.dump(obj, fh)
    return ["--cfg", f]


def run_source_case(case: dict) -> dict:
    """executes one source assignment on the real code; returns {"ok": {key: value}} or {"err": text, "cls": name}"""
    import jsonargparse  # noqa: F401  (imported in the worker after common set up sys.path)
    from jsonargparse import ArgumentError

    s, variant = case["s"], case.get("variant", 0)
    kinds = case["kinds"]
    shape = shape_from_defaults(s["defaults"], kinds)
    tmp = tempfile.mkdtemp(prefix="verif-src-")
    saved_env = dict(os.environ)
    saved_cwd = os.getcwd()
    try:
        for k in list(os.environ):
            if k.startswith("APP_") or k.startswith("JSONARGPARSE_"):
                if k != common.GUARD:
                    del os.environ[k]
        # ---- default config files: one pattern per file, or (variant) the first two under one glob pattern whose
        # creation order is the reverse of the sorted order
        patterns = []
        files = s["dcf"]
        # a file that is LISTED TWICE (the same path again, or a second pattern that matches it again) is read twice:
        # the model emits such listings as three entries whose third equals the first
        repeat = len(files) == 3 and bool(files[0]) and files[2] == files[0]
        i = 0
        glob_first_two = len(files) >= 2 and variant % 2 == 1
        if glob_first_two:
            os.mkdir(os.path.join(tmp, "conf.d"))
            for name, asgs in (("20-second.json", files[1]), ("10-first.json", files[0])):
                with open(os.path.join(tmp, "conf.d", name), "w") as fh:
                    json.dump(cfg_obj(asgs, kinds, dotted=variant % 3 == 1), fh)
            patterns.append(os.path.join(tmp, "conf.d", "*.json"))
            i = 2
        first_path = os.path.join(tmp, "conf.d", "10-first.json") if glob_first_two else os.path.join(tmp, "dcf_z.json")
        for j in range(i, len(files)):
            if repeat and j == 2:
                patterns.append(first_path)   # the first file once more (overlapping pattern / repeated entry)
                continue
            # names are NOT in lexicographic order of their position: the listed order must win, not a global sort
            f = os.path.join(tmp, f"dcf_{chr(ord('z') - j)}.json")
            with open(f, "w") as fh:
                json.dump(cfg_obj(files[j], kinds, dotted=(variant + j) % 3 == 1), fh)
            patterns.append(f)
        patterns.append(os.path.join(tmp, "does-not-exist-*.json"))
        # ---- environment
        envmap = {}
        if s["envc"]:
            obj = cfg_obj(s["envc"], kinds, dotted=variant % 3 == 2)
            if variant % 2 == 0:
                envmap["APP_CFG"] = json.dumps(obj)
            else:
                f = os.path.join(tmp, "envcfg.json")
                with open(f, "w") as fh:
                    json.dump(obj, fh)
                envmap["APP_CFG"] = f
        for a in s["envv"]:
            val = conc(kinds[a["key"]], a["v"])
            envmap[env_name(a["key"])] = val if kinds[a["key"]] == "str" else json.dumps(val)  # strings go raw in the environment
        method = s["method"]
        env_how = variant % 3 if s["env"] else None  # 0: default_env=True, 1: JSONARGPARSE_DEFAULT_ENV, 2: env=True argument
        if method == "env":
            env_how = None
        if not s["env"] and variant % 2 == 0:
            os.environ.update(envmap)  # present but must be ignored
        if s["env"] and method != "env":
            os.environ.update(envmap)
        if env_how == 1:
            os.environ["JSONARGPARSE_DEFAULT_ENV"] = "true"
        parser = build_parser(shape, dcf_patterns=patterns, default_env=(env_how == 0), via_set_defaults=(variant % 5 == 4))
        kw = {"env": True} if env_how == 2 else {}
        try:
            if method == "args":
                argv = []
                for n, item in enumerate(s["argv"]):
                    argv += argv_of(item, kinds, variant, tmp, n)
                cfg = parser.parse_args(argv, **kw)
                call = f"parse_args({argv!r})"
            elif method == "string":
                txt = json.dumps(cfg_obj(s["last"], kinds, dotted=variant % 2 == 1))
                cfg = parser.parse_string(txt, **kw)
                call = f"parse_string({txt!r})"
            elif method == "object":
                obj = cfg_obj(s["last"], kinds, dotted=variant % 2 == 1)
                cfg = parser.parse_object(obj, **kw)
                call = f"parse_object({obj!r})"
            elif method == "path":
                f = os.path.join(tmp, "given.json")
                with open(f, "w") as fh:
                    json.dump(cfg_obj(s["last"], kinds, dotted=variant % 2 == 1), fh)
                cfg = parser.parse_path(f, **kw)
                call = "parse_path(<file>)"
            elif method == "env":
                cfg = parser.parse_env(envmap)
                call = f"parse_env({envmap!r})"
            else:
                raise AssertionError(method)
        except ArgumentError as ex:
            return {"err": str(ex)[:300], "cls": "ArgumentError", "env": envmap}
        except SystemExit as ex:
            return {"err": f"exit {ex.code}", "cls": "SystemExit", "env": envmap}
        except Exception as ex:
            return {"err": f"{type(ex).__name__}: {ex}"[:300], "cls": type(ex).__name__, "env": envmap}
        out = {}
        for key, kind, _ in shape:
            try:
                out[key] = absv(kind, cfg[dest_of(key)])
            except Exception:
                out[key] = [-999999]
        return {"ok": out, "call": call, "env": envmap, "env_how": env_how, "patterns": [os.path.relpath(p, tmp) for p in patterns]}
    finally:
        os.environ.clear()
        os.environ.update(saved_env)
        os.chdir(saved_cwd)
        shutil.rmtree(tmp, ignore_errors=True)


def _init_worker():
    common.check_repo_import()


def run_many(fn, cases, procs=16, chunksize=64):
    ctx = mp.get_context("fork")
    with ctx.Pool(procs, initializer=_init_worker) as pool:
        return pool.map(fn, cases, chunksize=chunksize)
