"""Run TLC (tla2tools 1.8) on a module of /verif/spec and parse what it says.

Everything a check learns from the specification goes through here:
  * run()            one TLC invocation (BFS, -simulate, or trace validation with TRACE_FILE)
  * TLCResult        states / transitions from TLC's own summary line, Error: lines,
                     values printed with PrintT (JSON strings and <<tuples>>), -coverage counts
"""
from __future__ import annotations

import hashlib
import json
import os
import re
import shutil
import subprocess
import tempfile
import time
from dataclasses import dataclass, field
from pathlib import Path

VERIF = Path(__file__).resolve().parents[2]
SPEC_DIR = VERIF / "spec"
CLASSPATH = "/opt/veriftools/tla/tla2tools.jar:/opt/veriftools/tla/CommunityModules-deps.jar"


class TLCMachineryError(RuntimeError):
    """TLC could not be run or said something we cannot interpret (exit 2, never a VIOLATION)."""


@dataclass
class TLCResult:
    rc: int
    wall_s: float
    stdout: str
    generated: int = 0  # "states generated" = transitions taken (incl. initial states)
    distinct: int = 0  # distinct states found
    left: int = 0
    depth: int = 0
    errors: list = field(default_factory=list)  # lines starting with "Error:"
    violated: list = field(default_factory=list)  # names of violated invariants / properties
    printed: list = field(default_factory=list)  # decoded PrintT values (JSON objects or tuples)
    coverage: dict = field(default_factory=dict)  # action/operator name -> count
    cex: str = ""  # error trace text if any
    init_states: int = 0  # "Finished computing initial states: N distinct states generated"
    printed_total: int = 0  # number of printed JSON records (all of them, also when only a sample is kept)

    @property
    def ok(self) -> bool:
        return self.rc == 0 and not self.errors


_SUMMARY = re.compile(r"(\d+) states generated, (\d+) distinct states found, (\d+) states left on queue")
_SIMSUM = re.compile(r"The number of states generated: (\d+)")
_DEPTH = re.compile(r"The depth of the complete state graph search is (\d+)")
_VIOL = re.compile(r"Error: (?:Invariant|Action property|Temporal property|The postcondition|Property) ?(\S+)? ?(?:is|was)? ?violated")
_COV = re.compile(r"^<(\w+) line (\d+), col \d+ to line \d+, col \d+ of module (\w+)>: (\d+):(\d+)")
_COV2 = re.compile(r"^<(\w+) line (\d+), col \d+ to line \d+, col \d+ of module (\w+)>: (\d+)$")


def _decode_tuple(line: str):
    # <<"REJECT", 12, 3>>  ->  ["REJECT", 12, 3]   (flat tuples of strings / ints / booleans only)
    body = line.strip()[2:-2]
    out = []
    for tok in re.findall(r'"(?:[^"\\]|\\.)*"|-?\d+|TRUE|FALSE', body):
        if tok.startswith('"'):
            out.append(json.loads(tok))
        elif tok in ("TRUE", "FALSE"):
            out.append(tok == "TRUE")
        else:
            out.append(int(tok))
    return out


def parse_output(text, res: TLCResult, raw_mod: int = 0, raw_keep: str = "") -> None:
    """text: the output of TLC (a str, or an iterable of lines).  raw_mod > 0 (large instances): a printed JSON record
    is NOT decoded, its text is kept, and only for the records whose digest is 0 modulo raw_mod (a deterministic
    sample); res.printed_total counts them all."""
    for line in (text.splitlines() if isinstance(text, str) else text):
        s = line.strip()
        if not s:
            continue
        if s[0] == '"' and s[-1] == '"' and len(s) > 1:
            res.printed_total += 1
            if raw_mod:
                if raw_mod == 1 or (raw_keep and raw_keep in s) or int.from_bytes(hashlib.blake2b(s.encode("utf-8", "replace"), digest_size=4).digest(), "big") % raw_mod == 0:
                    try:
                        res.printed.append(json.loads(s))
                    except Exception:
                        pass
                continue
            try:
                inner = json.loads(s)
                try:
                    res.printed.append(json.loads(inner))
                except Exception:
                    res.printed.append(inner)
            except Exception:
                pass
            continue
        if s.startswith("<<") and s.endswith(">>"):
            try:
                res.printed.append(_decode_tuple(s))
            except Exception:
                pass
            continue
        m = _SUMMARY.search(s)
        if m:
            res.generated, res.distinct, res.left = int(m.group(1)), int(m.group(2)), int(m.group(3))
            continue
        m = _SIMSUM.search(s)
        if m:
            res.generated = max(res.generated, int(m.group(1)))
            res.distinct = max(res.distinct, int(m.group(1)))
            continue
        m = _DEPTH.search(s)
        if m:
            res.depth = int(m.group(1))
            continue
        m = re.search(r"Finished computing initial states: (\d+) distinct state", s) or re.search(r"Finished computing initial states: \d+ states generated, with (\d+) of them distinct", s)
        if m:
            res.init_states = int(m.group(1))
            continue
        if s.startswith("Error:"):
            res.errors.append(s)
            m = re.search(r"Invariant (\S+) is violated", s) or re.search(r"property (\S+) is violated", s, re.I)
            if m:
                res.violated.append(m.group(1).rstrip("."))
            continue
        m = _COV.match(s)
        if m:
            res.coverage[m.group(1)] = res.coverage.get(m.group(1), 0) + int(m.group(5))
            continue
        m = _COV2.match(s)
        if m:
            res.coverage[m.group(1)] = res.coverage.get(m.group(1), 0) + int(m.group(4))
    if isinstance(text, str):
        i = text.find("Error: The behavior up to this point is")
        if i >= 0:
            res.cex = text[i : i + 20000]


def _run_lowmem(cmd, spec_dir, e, timeout, meta, raw_mod, t0, raw_keep="") -> TLCResult:
    """as run(), for instances that print millions of records: the output goes to a file and is read line by line"""
    outf = tempfile.NamedTemporaryFile(prefix="verif-tlc-out-", suffix=".txt", delete=False)
    try:
        try:
            rc = subprocess.run(cmd, cwd=str(spec_dir), env=e, stdout=outf, stderr=subprocess.STDOUT, timeout=timeout).returncode
            timed_out = False
        except subprocess.TimeoutExpired:
            rc, timed_out = 124, True
        outf.close()
        size = os.path.getsize(outf.name)
        with open(outf.name, errors="replace") as fh:
            head = fh.read(100_000)
            if size > 500_000:
                fh.seek(size - 400_000)
                tail = fh.read()
            else:
                tail = ""
        res = TLCResult(rc=rc, wall_s=time.time() - t0, stdout=head + ("\n... (output of TLC shortened) ...\n" + tail if tail else "") + ("\nError: TIMEOUT\n" if timed_out else ""))
        with open(outf.name, errors="replace") as fh:
            parse_output(fh, res, raw_mod=raw_mod, raw_keep=raw_keep)
        if timed_out:
            res.errors.append("Error: TIMEOUT")
        i = res.stdout.find("Error: The behavior up to this point is")
        if i >= 0:
            res.cex = res.stdout[i : i + 20000]
        return res
    finally:
        shutil.rmtree(meta, ignore_errors=True)
        try:
            os.unlink(outf.name)
        except OSError:
            pass


def run(
    module: str,
    cfg: str | None = None,
    *,
    spec_dir: Path = SPEC_DIR,
    workers: int | str = "auto",
    env: dict | None = None,
    timeout: int = 1200,
    simulate: str | None = None,  # e.g. "num=1000"
    depth: int | None = None,
    coverage: bool = False,
    dfs_queue: bool = False,
    cont: bool = False,
    seed: int | None = None,
    heap: str = "8g",
    extra: tuple = (),
    check: bool = False,
    raw_mod: int = 0,  # > 0: large instance -- TLC writes to a file, printed records are kept as text, sampled 1 in raw_mod
    raw_keep: str = "",  # records that contain this text are kept whatever the sample
) -> TLCResult:
    """Run TLC on spec_dir/<module>.tla with spec_dir/<cfg or module>.cfg ."""
    meta = tempfile.mkdtemp(prefix="verif-tlc-")
    jopts = ["-XX:+UseParallelGC", f"-Xmx{heap}", f"-Djava.io.tmpdir={meta}"]
    if dfs_queue:
        jopts.append("-Dtlc2.tool.queue.IStateQueue=StateDeque")
    cmd = ["java", *jopts, "-cp", CLASSPATH, "tlc2.TLC", "-workers", str(workers), "-metadir", meta + "/states",
           "-noGenerateSpecTE", "-config", (cfg or module) + ("" if (cfg or module).endswith(".cfg") else ".cfg")]
    if simulate:
        cmd += ["-simulate", simulate]
    if depth is not None:
        cmd += ["-depth", str(depth)]
    if coverage:
        cmd += ["-coverage", "1"]
    if cont:
        cmd += ["-continue"]
    if seed is not None:
        cmd += ["-seed", str(seed)]
    cmd += list(extra)
    cmd += [module + ".tla"]
    e = dict(os.environ)
    e.pop("JAVA_TOOL_OPTIONS", None)
    if env:
        e.update({k: str(v) for k, v in env.items()})
    t0 = time.time()
    if raw_mod:
        return _run_lowmem(cmd, spec_dir, e, timeout, meta, raw_mod, t0, raw_keep)
    try:
        p = subprocess.run(cmd, cwd=str(spec_dir), env=e, stdout=subprocess.PIPE, stderr=subprocess.STDOUT,
                           timeout=timeout, text=True, errors="replace")
        out, rc = p.stdout, p.returncode
    except subprocess.TimeoutExpired as ex:
        out = (ex.stdout.decode(errors="replace") if isinstance(ex.stdout, bytes) else (ex.stdout or "")) + "\nError: TIMEOUT\n"
        rc = 124
    finally:
        shutil.rmtree(meta, ignore_errors=True)
    res = TLCResult(rc=rc, wall_s=time.time() - t0, stdout=out)
    parse_output(out, res)
    if len(out) > 4_000_000:  # the emitted cases are in res.printed; keep the banner and the end (errors, summary) only
        res.stdout = out[:100_000] + "\n... (output of TLC shortened) ...\n" + out[-400_000:]
    del out
    if check:
        bad = [x for x in res.errors]
        if "Parsing or semantic analysis failed" in out or "Error: TIMEOUT" in out or (rc not in (0, 12, 13) and not res.errors):
            raise TLCMachineryError(f"TLC failed on {module} (rc={rc}):\n{out[-3000:]}")
        if bad and not res.violated and rc not in (12, 13):
            # an evaluation error inside the spec is a machinery failure, not a property violation
            raise TLCMachineryError(f"TLC error on {module} (rc={rc}):\n" + "\n".join(bad[:5]) + "\n" + out[-3000:])
    return res


def sany(module_path: Path) -> tuple[bool, str]:
    p = subprocess.run(["java", "-cp", CLASSPATH, "tla2sany.SANY", module_path.name], cwd=str(module_path.parent),
                       stdout=subprocess.PIPE, stderr=subprocess.STDOUT, text=True)
    ok = p.returncode == 0 and "*** Errors" not in p.stdout and "Fatal errors" not in p.stdout and "Could not" not in p.stdout
    return ok, p.stdout
