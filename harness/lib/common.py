"""Shared plumbing of the checks: where /repo is, seeds, tiers, scratch directories, verdict output."""
from __future__ import annotations

import json
import os
import random
import shutil
import sys
import tempfile
import time
from pathlib import Path

VERIF = Path(__file__).resolve().parents[2]
REPO = Path(os.environ.get("VERIF_REPO", "/repo"))  # checks always import the working tree
GUARD = "JSONARGPARSE_VERIF"

# the working tree must win over the editable-install finder of /venv
if str(REPO) not in sys.path[:1]:
    sys.path.insert(0, str(REPO))
os.environ.setdefault(GUARD, "1")


def seed() -> int:
    try:
        return int(os.environ.get("VERIF_SEED", "20260926"))
    except ValueError:
        return 20260926


def rng(salt: str = "") -> random.Random:
    return random.Random(f"{seed()}/{salt}")


def scratch(prefix: str) -> Path:
    return Path(tempfile.mkdtemp(prefix=f"verif-{prefix}-"))


def rm(path) -> None:
    shutil.rmtree(str(path), ignore_errors=True)


def check_repo_import() -> str:
    import jsonargparse

    f = Path(jsonargparse.__file__).resolve()
    if REPO.resolve() not in f.parents:
        print(f"MACHINERY-FAILURE: jsonargparse imported from {f}, not from {REPO}", flush=True)
        sys.exit(2)
    return str(f)


class Timer:
    def __init__(self):
        self.t0 = time.time()

    def s(self) -> float:
        return round(time.time() - self.t0, 3)


def jdump(obj) -> str:
    return json.dumps(obj, sort_keys=True, default=str)
