"""Evidence files (/verif/evidence/<id>.json, EVIDENCE.schema.json) and the verdict protocol.

A check accumulates what it covered in a Report, registers disagreements through
Report.violation(), and ends with Report.finish(), which
  * prints KNOWN-FINDING lines for disagreements listed in known_findings.json,
  * writes a replay file and prints `VIOLATION property=<id> replay=<path>` for every other one,
  * rewrites the evidence file, and returns the exit status (0 / 1).
"""
from __future__ import annotations

import hashlib
import json
import os
import sys
import time
from pathlib import Path

from . import findings
from .common import VERIF, seed

# A run against another tree than /repo (VERIF_REPO=<scratch worktree>: the evaluation of a seeded change) must not
# overwrite the evidence and the replay files of /repo: they go to a scratch directory outside /verif.
_OTHER_TREE = os.environ.get("VERIF_REPO") not in (None, "", "/repo")
_OUT = Path(os.environ.get("VERIF_OUT") or (f"/tmp/verif-out-{os.getuid()}" if _OTHER_TREE else VERIF))
EVID = _OUT / "evidence"
REPLAYS = _OUT / "replays"


class Report:
    def __init__(self, pid: str, tier: str, level: str = "model_checking"):
        self.pid, self.tier, self.level = pid, tier, level
        self.t0 = time.time()
        self.states = 0
        self.transitions = 0
        self.traces = 0  # traces / behaviours / observations compared with the implementation
        self.evaluations = 0
        self.nontrivial: set = set()
        self.samples: list = []
        self.rule = ""
        self.explanation = ""
        self.exhaustive = False
        self.assumptions: list = []
        self.extra: dict = {}
        self.tlc_runs: list = []
        self.drift: list = []
        self._viol: list = []
        self._viol_per_key: dict = {}
        self._known_seen: dict = {}
        self._known = findings.load(pid)
        REPLAYS.mkdir(parents=True, exist_ok=True)
        for old in REPLAYS.glob(f"{pid}-*.json"):  # replay files of the previous run of this property
            old.unlink()

    # ---- accumulation -------------------------------------------------
    def add_tlc(self, name: str, res) -> None:
        self.states += res.distinct
        self.transitions += res.generated
        self.tlc_runs.append({"run": name, "distinct_states": res.distinct, "states_generated": res.generated,
                              "depth": res.depth, "wall_s": round(res.wall_s, 2), "errors": res.errors[:3],
                              **({"coverage": res.coverage} if res.coverage else {})})

    def sample(self, obj, limit: int = 6) -> None:
        if len(self.samples) < limit:
            self.samples.append(obj)

    def note_nontrivial(self, key) -> None:
        # only the NUMBER of distinct keys is reported: keep an 8-byte digest, not the text (millions of cases in thorough tiers)
        text = key if isinstance(key, str) else repr(key) if isinstance(key, (int, tuple)) else json.dumps(key, sort_keys=True, default=str)
        self.nontrivial.add(hashlib.blake2b(text.encode("utf-8", "replace"), digest_size=8).digest())

    def add_drift(self, what: str, case=None) -> None:
        if len(self.drift) < 50:
            self.drift.append({"what": what, "case": case})
        self.extra["alg_drift_count"] = self.extra.get("alg_drift_count", 0) + 1

    # ---- disagreements ------------------------------------------------
    def violation(self, key: str, what: str, case: dict) -> None:
        """A property-level disagreement. `key` identifies the specific failing input / site / history."""
        k = findings.match(self._known, key)
        if k is not None:
            d = self._known_seen.setdefault(k["key"], {"entry": k, "count": 0, "example": case})
            d["count"] += 1
            return
        self._viol_total = getattr(self, "_viol_total", 0) + 1
        n_key = self._viol_per_key[key] = self._viol_per_key.get(key, 0) + 1
        if n_key <= 3 or len(self._viol) < 2000:  # every key keeps its first cases; the total is counted
            self._viol.append({"key": key, "what": what, "case": case})

    @property
    def n_violations(self) -> int:
        return max(len(self._viol), getattr(self, "_viol_total", 0))

    # ---- the end ------------------------------------------------------
    def finish(self) -> int:
        EVID.mkdir(parents=True, exist_ok=True)
        REPLAYS.mkdir(parents=True, exist_ok=True)
        for k, d in sorted(self._known_seen.items()):
            print(f"KNOWN-FINDING: property={self.pid} {d['entry']['what']} [key={k}; seen {d['count']}x]", flush=True)
        seen_keys = set()
        nrep = 0
        for v in self._viol:
            if v["key"] in seen_keys:
                continue
            seen_keys.add(v["key"])
            nrep += 1
            if nrep > 25:
                continue
            safe = "".join(c if c.isalnum() or c in "-_." else "_" for c in v["key"])[:80]
            path = REPLAYS / f"{self.pid}-{safe}.json"
            path.write_text(json.dumps({"property": self.pid, "tier": self.tier, "seed": seed(), **v}, indent=1, default=str))
            print(f"VIOLATION property={self.pid} replay={path}", flush=True)
            print(f"  what: {v['what']}", flush=True)
        cov = {
            "states": int(self.states),
            "transitions": int(self.transitions),
            "traces_validated_against_impl": int(self.traces),
            "samples": self.samples if self.samples else [{"note": "no sample recorded"}],
            "evaluations": int(self.evaluations),
            "distinct_nontrivial": len(self.nontrivial),
            "rule": self.rule,
            "exhaustive": bool(self.exhaustive),
            "explanation": self.explanation,
            "tlc_runs": self.tlc_runs,
            "alg_drift": self.drift,
            "known_findings_seen": [{"key": k, "count": d["count"], "example": d["example"]} for k, d in sorted(self._known_seen.items())],
            "distinct_violation_keys": sorted(seen_keys)[:50],
            **self.extra,
        }
        ev = {
            "property_id": self.pid,
            "tier": self.tier,
            "seed": seed(),
            "level": self.level,
            "coverage": cov,
            "assumptions": self.assumptions,
            "wall_s": round(time.time() - self.t0, 2),
            "violations": self.n_violations,
        }
        (EVID / f"{self.pid}.json").write_text(json.dumps(ev, indent=1, default=str) + "\n")
        status = 1 if self._viol else 0
        print(f"{self.pid} {self.tier}: states={self.states} transitions={self.transitions} impl_cases={self.traces} "
              f"violations={self.n_violations} known={len(self._known_seen)} drift={self.extra.get('alg_drift_count', 0)} "
              f"wall={ev['wall_s']}s -> exit {status}", flush=True)
        return status


class MachineryFailure(RuntimeError):
    """raised instead of exiting when machinery_failure is called in a pool worker (an exiting worker makes the pool wait for ever)"""


def machinery_failure(pid: str, msg: str) -> "NoReturn":
    import multiprocessing

    print(f"MACHINERY-FAILURE property={pid}: {msg}", file=sys.stderr, flush=True)
    if multiprocessing.parent_process() is not None:
        raise MachineryFailure(f"property={pid}: {msg}"[:2000])  # travels to the parent through the pool, which then exits 2
    sys.exit(2)


def _excepthook(tp, val, tb):
    """an uncaught exception of a check is a failure of the machinery (exit 2), never a verdict (exit 1)"""
    import traceback

    traceback.print_exception(tp, val, tb)
    print(f"MACHINERY-FAILURE: uncaught {tp.__name__} in the check", file=sys.stderr, flush=True)
    sys.stdout.flush()
    os._exit(2)


sys.excepthook = _excepthook
