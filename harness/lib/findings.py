"""known_findings.json: genuine defects of the pinned tree that are recorded rather than repaired.

Each entry is keyed by the specific failing input / call site / history (`key`, matched exactly or
as a prefix when it ends with '*'), so a different violation of the same property is still
reported. Entries with status "fixed" suppress nothing. The file is never written at run time.
"""
from __future__ import annotations

import json

from .common import VERIF

FILE = VERIF / "known_findings.json"


def load(pid: str) -> list:
    if not FILE.exists():
        return []
    data = json.loads(FILE.read_text())
    return [f for f in data.get("findings", []) if f.get("property") == pid and f.get("status") == "known"]


def match(known: list, key: str):
    for f in known:
        k = f["key"]
        if k == key or (k.endswith("*") and key.startswith(k[:-1])):
            return f
    return None
