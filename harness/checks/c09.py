"""C09 — a parser's answers do not depend on what it was asked before.

  MC      tlc MC_Context: the residual state of a process with two root parsers (pending --print_config request,
          parser.args, lazily added --print_shtab, the three set-without-reset context variables) under a finite
          universe of public calls, every call split into small instructions (enter manager / set variable / argv item /
          raise / leave in finally / print point).  Finite state: histories of ANY length.  Invariants: Balanced,
          FramesExplainCtx, NoStaleRead (also: no managed variable is read outside its manager at another value than
          the initial one), AlgIsRefOnFresh, HistoryIndependent, DeviationShape, RepairClears, PendingIsLocal.  The model is
          the REPAIRED design (ClearOnError = TRUE, fix: commit 9a553c5): HistoryIndependent holds without exception.
          MC_Context_prefix: the design before the repair, run only as documentation (TLC's counterexample of the unguarded
          property is copied into the evidence; it cannot fail the check).
  REPLAY  (spec -> code) TLC prints every quiescent state with all outgoing transitions; the harness covers EVERY
          transition with tours from the initial state on real reused parsers (each tour in a forked child).
  TRACE   (code -> spec) seeded random histories (<= 12 / <= 40 calls) over a richer call grammar (longer argv, both
          sub-commands, env=True, config files on disk, ...).
  Every executed step records: the call, the outcome on the reused parser, on a freshly built identical parser in the same
  process, on a fresh parser in a pristine process, and the residual state observed from outside.  TLC (Trace_Context)
  runs the Alg machine along every trace and decides: Ref = the three outcomes are equal (verdict); Alg = outcome class
  and residual state are the predicted ones (drift).
"""
from __future__ import annotations

import contextlib
import contextvars
import dataclasses
import hashlib
import io
import json
import multiprocessing as mp
import os
import re
import signal
import sys
from typing import Callable, Dict, List, Optional

from ..lib import common, tlc
from ..lib.evidence import Report, machinery_failure

common.check_repo_import()
import argparse  # noqa: E402

import jsonargparse  # noqa: E402
from jsonargparse import ActionConfigFile, ArgumentParser, Namespace, lazy_instance  # noqa: E402

PID = "C09"
_STD_NAMESPACE = argparse.Namespace
MODNAME = "harness.checks.c09"  # the classes below are always used through this (properly imported) module, see the end of the file


# ------------------------------------------------------------------------------------------------ the parsers
class Base:
    def __init__(self, n: int = 1):
        if n == 113:
            raise ValueError("cannot build with n=113")
        self.n = n


class Sub1(Base):
    def __init__(self, n: int = 2, m: str = "m"):
        super().__init__(n)
        self.m = m


class Sub2(Base):
    def __init__(self, n: int = 3, k: float = 0.5):
        super().__init__(n)
        self.k = k


class Sub3(Base):
    def __init__(self, n: int = 4, k: float = 0.25, t: str = "t"):
        super().__init__(n)
        self.k, self.t = k, t


def make_base(n: int) -> Base:
    return Base(n)


class Maker:
    """a class whose INSTANCES are callable: as a value of a callable type none of its __init__ parameters is supplied by the caller,
    so every one of them must be accepted and keep its default (nothing is skipped)."""

    def __init__(self, a: int = 1, b: int = 2):
        self.a, self.b = a, b

    def __call__(self, n: int, k: float = 0.5) -> Base:
        return Sub2(n + self.a, k)


class Holder:
    """a class whose parameters are callables that RETURN class instances: given as class_path / init_args, the first one / two
    __init__ parameters of the class are supplied by the caller and skipped by the parser (--hold.mk.help has a dict of its own)."""

    def __init__(self, mk: Callable[[int], Base] = make_base, opt: Optional[Callable[[int, float], Base]] = None, size: int = 3,
                 d: Optional["Data"] = None):  # ... and an Optional[<dataclass>] parameter of a CLASS signature (--hold.d.a, --hold.d.b)
        self.mk, self.opt, self.size, self.d = mk, opt, size, d


@dataclasses.dataclass
class Data:
    a: int = 1
    b: int = 2


def fn_d(d: Optional[Data] = None):
    """a dataclass-typed parameter taken from a signature (parser A: --fn.d.a, --fn.d.b, --fn.d=<dict>)."""
    return d


class Adam:
    def __init__(self, lr: float = 0.001, beta: float = 0.9):
        self.lr, self.beta = lr, beta


class Sgd:
    def __init__(self, lr: float = 0.1, momentum: float = 0.0):
        self.lr, self.momentum = lr, momentum


def make_opt(kind: str = "adam", **kwargs):
    """`lr` has a different default in each branch: a conditional default (what get_defaults returns for it is not what
    the action declares)."""
    if kind == "adam":
        return Adam(**kwargs)
    else:
        return Sgd(**kwargs)


# the default config file of every root parser lives in the scratch directory; the ENVIRONMENT writes (v1), edits (v2) or
# removes (absent) it between calls - a fresh parser is always built against the current file
DCF = {"A": {"v1": "w: [4]\n", "v2": "w: [6]\ngrid: [[8]]\ncls:\n  class_path: Sub1\n  init_args:\n    m: f\n"},
       "B": {"v1": "v: 4\n", "v2": "v: 9\nu: [z]\n"}}


def dcf_path(root: str, d: Optional[str] = None) -> str:
    return os.path.join(d or os.getcwd(), f"dcf_{root}.yaml")


def set_dcf(root: str, state: str, d: Optional[str] = None) -> None:
    path = dcf_path(root, d)
    if state == "absent":
        if os.path.exists(path):
            os.remove(path)
    else:
        with open(path, "w") as f:
            f.write(DCF[root][state])


def get_dcf(root: str, d: Optional[str] = None) -> str:
    path = dcf_path(root, d)
    if not os.path.exists(path):
        return "absent"
    txt = open(path).read()
    return next((k for k, v in DCF[root].items() if v == txt), "other")


def link_fn(x):
    if x == 13:
        raise ValueError("unlucky")
    return x


def build(root: str, d: Optional[str] = None) -> dict:
    """name -> parser for root parser `root` and its sub-parsers (A: sub-commands, class argument, link, config; B: plain).
    Both have default_config_files configured (the file need not exist)."""
    if root == "A":
        p = ArgumentParser(prog="app", exit_on_error=False, env_prefix="APP", default_env=False, default_config_files=[dcf_path("A", d)])
        p.add_argument("--cfg", action=ActionConfigFile)
        p.add_argument("--x", type=int, default=1)
        p.add_argument("--w", type=Optional[List[int]], default=None)
        p.add_argument("--cls", type=Base, default=lazy_instance(Sub1, m="d"))
        # parser-owned defaults with containers nested INSIDE a list (a shallow copy anywhere would let one call's
        # coercion or class change leak into the next call); compared type-exactly (1 is not 1.0)
        p.add_argument("--grid", type=List[List[float]], default=[[1, 2], [3, 4]])
        p.add_argument("--table", type=List[Dict[str, float]], default=[{"w": 1}])
        p.add_argument("--stages", type=List[List[Base]], default=[[{"class_path": MODNAME + ".Sub1", "init_args": {"m": "q"}}]])
        p.add_function_arguments(fn_d, "fn")  # dataclass-typed argument with nested options, Optional[Data] = None
        p.link_arguments("x", "cls.init_args.n", compute_fn=link_fn)
        sc = p.add_subcommands(required=False)
        a = ArgumentParser(exit_on_error=False)
        a.add_argument("--cfg", action=ActionConfigFile)
        a.add_argument("--y", type=int, default=10)
        a.add_argument("--l", type=List[int], default=[1])
        b = ArgumentParser(exit_on_error=False)
        b.add_argument("--z", type=str, default="z")
        b.add_argument("--c2", type=Optional[Base], default=None)
        sc.add_subcommand("a", a)
        sc.add_subcommand("b", b)
        return {"A": p, "A.a": a, "A.b": b}
    p = ArgumentParser(prog="other", exit_on_error=True, env_prefix="OTH", default_env=False, default_config_files=[dcf_path("B", d)])
    p.add_argument("--cfg", action=ActionConfigFile)
    p.add_argument("--v", type=int, default=0)
    p.add_argument("--u", type=Optional[List[str]], default=None)
    p.add_argument("--cls", type=Base)  # class-typed, NO default class: a spec without class_path must be rejected
    p.add_argument("--grid", type=List[List[float]], default=[[5, 6]])
    p.add_function_arguments(make_opt, "opt")  # conditional defaults
    p.add_argument("--d", type=Data, default=Data(a=3))  # a plain dataclass-typed argument
    # callables that return class instances (round 4): as options of the parser (their help actions use the class-level dict) ...
    p.add_argument("--cb", type=Callable[[int], Base])
    p.add_argument("--cbe", type=Callable[..., Base])
    p.add_argument("--cbo", type=Optional[Callable[[int, float], Base]], default=None)
    p.add_class_arguments(Holder, "hold")  # ... and as parameters of a class (help actions with a dict of their own)
    return {"B": p}


ROOTS = ["A", "B"]
NAMES = ["A", "A.a", "A.b", "B"]
DEF_KW = "env=None,defaults=True"


def kw_code(env, defaults) -> str:
    return f"env={env},defaults={defaults}"


# ------------------------------------------------------------------------------------------------ gamma: abstract call -> concrete call
# argv pieces per parser and item kind (lists of alternatives; every alternative is a list of tokens)
PIECES = {
    "A": {
        "ok": [["--x=2"], ["--x", "3"], ["--w=[1,2]"], ["--w+=4"], ["--cls=Sub2"], ["--cls", MODNAME + ".Sub1"],
               ['--cls={"class_path":"Sub2","init_args":{"k":1.5}}'], ["--grid=[[9]]"], ['--stages=[[{"class_path":"Sub2"}]]'],
               ['--table=[{"w": 2}]'], ['--stages+=[{"class_path":"Sub1"}]']],
        "ok_nox": [["--w=[1,2]"], ["--w+=4"], ["--cls=Sub2"], ["--grid=[[9]]"], ['--stages=[[{"class_path":"Sub2"}]]'], ['--table=[{"w": 2}]']],
        "sel": [['--cls={"class_path":"Sub2","init_args":{"k":1.5}}'], ["--cls", '{"class_path": "Sub2", "init_args": {"k": 1.25}}']],
        "bad": [["--x=bad"], ["--w=[a]"], ["--cls=NoSuchClass"], ["zzz"]],
        "unk": [["--nope=1"], ["--nope", "--other"]],
        "pc": [["--print_config"], ["--print_config="]],
        "pcflag": [["--print_config=bogus"]],
        "help": [["--help"], ["-h"]],
        "clshelp": [["--cls.help=Sub2"], ["--cls.help", "Sub1"]],
        "shtab": [["--print_shtab=bash"], ["--print_shtab", "bash"]],
        "dc1": [["--fn.d.a=6"], ["--fn.d.b=9"], ["--fn.d.a", "8"]],
        "dcn": [["--fn.d.a=5", "--fn.d.b=7"], ["--fn.d.b=4", "--fn.d.a=3"]],
        "dcd": [['--fn.d={"a": 4, "b": 8}'], ["--fn.d", '{"b": 6}']],
        "cfgdc": [["--cfg", '{"fn": {"d": {"a": 5, "b": 7}}}'], ["--cfg", '{"fn": {"d": {"b": 3}}}']],  # (zsh: the generator itself fails on this parser, a C03 matter)
        "cfg": [["--cfg", '{"w": [7]}'], ["--cfg=w: [8]"], ["--cfg", "a_ok.yaml"]],
        "cfgbad": [["--cfg", '{"w": "bad"}'], ["--cfg", "a_bad.yaml"], ["--cfg=no_such_file.yaml"],
                   ["--cfg", '{"cls": {"init_args": {"k": "not a number"}}}']],
        "ncls": [["--cls=Sub1", "--cls.m=q"], ["--cls", "Sub2", "--cls.init_args.k", "2.5"]],
    },
    "A.a": {
        "ok": [["--y=3"], ["--y", "4"], ["--l=[1,2]"], ["--l+=5"]],
        "bad": [["--y=bad"], ["--l=[x]"]],
        "unk": [["--nope=1"]],
        "pc": [["--print_config"]],
        "pcflag": [["--print_config=bogus"]],
        "help": [["--help"]],
        "cfg": [["--cfg", '{"y": 4}'], ["--cfg", "sub_ok.yaml"]],
        "cfgbad": [["--cfg", '{"y": "bad"}']],
    },
    "A.b": {
        "ok": [["--z=q"], ["--c2=Sub2"], ["--c2", "Sub1"]],
        "bad": [["--c2=NoSuchClass"]],
        "unk": [["--nope=1"]],
        "help": [["--help"]],
        "ncls": [["--c2=Sub2", "--c2.k=0.25"], ["--c2=Sub1", "--c2.init_args.m=s"]],
    },
    "B": {
        "ok": [["--v=2"], ["--v", "3"], ["--u=[a,b]"], ["--u+=c"], ["--grid=[[7, 8]]"], ["--cls=Sub1"], ["--opt.kind=sgd"], ["--opt.lr=0.5"]],
        "shtab": [["--print_shtab=bash"]],
        "dc1": [["--hold.d.a=6"], ["--hold.d.b=9"], ["--hold.d.a", "8"]],  # Optional[Data] parameter of the class group `hold`
        "dcn": [["--hold.d.a=5", "--hold.d.b=7"], ["--hold.d.b=4", "--hold.d.a=3"]],
        "dg1": [["--d.a=6"], ["--d.b=9"]],  # add_argument(type=Data) expands into one plain option per field
        "dgn": [["--d.a=5", "--d.b=7"]],
        "dcd": [['--d={"a": 4, "b": 8}']],
        "cfgdc": [["--cfg", '{"d": {"a": 5, "b": 7}}']],
        "sel": [['--cls={"class_path":"Sub2","init_args":{"k":1.5}}'], ["--cls", '{"class_path": "Sub2", "init_args": {"k": 1.25}}']],
        "bad": [["--v=bad"], ["--u={}"]],
        "unk": [["--nope=1"]],
        "pc": [["--print_config"]],
        "pcflag": [["--print_config=bogus"]],
        "help": [["--help"]],
        "cfg": [["--cfg", '{"u": ["x"]}'], ["--cfg", "b_ok.yaml"]],
        "cfgbad": [["--cfg", '{"v": "bad"}'], ["--cfg", "b_bad.yaml"], ["--cfg", '{"cls": {"init_args": {"k": "not a number"}}}']],
    },
}
FILES = {"a_ok.yaml": "w: [9]\n", "a_bad.yaml": "x: bad\n", "sub_ok.yaml": "y: 6\n", "b_ok.yaml": "u: [f]\n", "b_bad.yaml": "v: bad\n"}
# class specs for the class-typed key `cls` of both parsers, given as a configuration text (parse_string) or file (parse_path)
# fields of the dataclass-typed argument given as a configuration (object / text / file / environment variable)
DC = {"dc1": [{"a": 6}, {"b": 9}], "dcn": [{"a": 5, "b": 7}, {"b": 4, "a": 3}]}
SPEC = {"full": [{"cls": {"class_path": "Sub2"}}, {"cls": {"class_path": MODNAME + ".Sub2", "init_args": {}}}],
        "short": [{"cls": {"init_args": {"k": 3.5}}}]}
ENVVAR = {"A": "APP_W", "B": "OTH_V"}
# help requests for typed arguments: key -> (argv pieces, scope of the dict the help action uses, what it writes to "skip")
HELPS = {"A": {"cls": ([["--cls.help=Sub2"], ["--cls.help", "Sub1"]], "shared", "-")},
         "B": {"cls": ([["--cls.help=Sub1"], ["--cls.help", "Sub2"]], "shared", "-"),
               "cb": ([["--cb.help", "Sub1"], ["--cb.help=Sub2"]], "shared", "1"),
               "cbe": ([["--cbe.help=Sub2"], ["--cbe.help", "Sub3"]], "shared", "1"),
               "cbo": ([["--cbo.help=Sub3"]], "shared", "2"),
               "hold.mk": ([["--hold.mk.help", "Sub1"], ["--hold.mk.help=Sub3"]], "own1", "1"),
               "hold.opt": ([["--hold.opt.help=Sub3"]], "own2", "2")}}
# values of the callable types: argv pieces and configuration objects per key
# (a subclass of the return type: the first k parameters are skipped; Maker, a class whose instances are callable: none is; a class change)
MAKER = MODNAME + ".Maker"
CBV = {"cb": [["--cb=Sub1"], ["--cb", '{"class_path":"Sub1","init_args":{"m":"z"}}'], ["--cb=Sub1", "--cb.m=z"], ["--cb=Sub2", "--cb.init_args.k=0.75"], ["--cb=Sub3"],
              ["--cb", MAKER], ["--cb=" + MAKER, "--cb.a=5"], ["--cb=Sub3", "--cb.t=u", "--cb=Sub2"]],
       "cbe": [["--cbe=Sub1"], ["--cbe=Sub2", "--cbe.k=2.5"], ["--cbe=" + MAKER], ["--cbe", MAKER, "--cbe.init_args.a=7"]],
       "cbo": [["--cbo=Sub3"], ["--cbo=Sub3", "--cbo.t=u"], ['--cbo={"class_path":"Sub3"}'], ["--cbo=" + MAKER], ["--cbo", MAKER, "--cbo.b=6"]],
       "hold.mk": [["--hold.mk=Sub1"], ["--hold.mk=Sub1", "--hold.mk.m=w"], ["--hold.mk", '{"class_path":"Sub2","init_args":{"k":1.5}}'],
                   ["--hold.mk", MAKER], ["--hold.mk=" + MAKER, "--hold.mk.a=5"]],
       "hold.opt": [["--hold.opt=Sub3", "--hold.opt.init_args.t=v"], ["--hold.opt=Sub3"], ["--hold.opt=" + MAKER], ["--hold.opt", MAKER, "--hold.opt.a=8", "--hold.opt.b=9"]]}
CBOBJ = {"cb": [{"cb": {"class_path": "Sub1"}}, {"cb": {"class_path": "Sub1", "init_args": {"m": "y"}}}, {"cb": {"class_path": "Sub3"}},
                {"cb": {"class_path": MAKER}}, {"cb": {"class_path": MAKER, "init_args": {"a": 3}}}],
         "cbe": [{"cbe": {"class_path": "Sub2"}}, {"cbe": {"class_path": MAKER, "init_args": {"b": 4}}}],
         "cbo": [{"cbo": {"class_path": "Sub3", "init_args": {"t": "s"}}}, {"cbo": {"class_path": "Sub3"}}, {"cbo": {"class_path": MAKER}}],
         "hold.mk": [{"hold": {"mk": {"class_path": "Sub2", "init_args": {"k": 1.5}}}}, {"hold": {"mk": {"class_path": "Sub1"}}},
                     {"hold": {"mk": {"class_path": MAKER, "init_args": {"a": 3}}}}, {"hold": {"mk": {"class_path": MAKER}}}],
         "hold.opt": [{"hold": {"opt": {"class_path": "Sub3"}}}, {"hold": {"opt": {"class_path": MAKER, "init_args": {"a": 2, "b": 3}}}}]}
CBENV = {"cb": "OTH_CB", "cbe": "OTH_CBE", "cbo": "OTH_CBO", "hold.mk": "OTH_HOLD__MK", "hold.opt": "OTH_HOLD__OPT"}


def _pick_key(ab: dict, table: dict, rnd) -> str:
    """the hint hkey = "<key>" | "any", optionally followed by ":maker" (the value is a class whose instances are callable)."""
    k = ab.get("hkey", "any").partition(":")[0]
    return k if k in table else rnd.choice(sorted(table))


def _pick_val(ab: dict, alts: list, rnd):
    if ab.get("hkey", "any").endswith(":maker"):
        alts = [a for a in alts if MAKER in json.dumps(a)]
    return rnd.choice(alts)


def concretize(ab: dict, rnd) -> dict:
    """gamma: an abstract call (the fields of Context.tla) -> a concrete call description (JSON-able).
    The abstract attributes hold by construction; the `gamma` clause of Trace_Context cross-checks them on a fresh parser."""
    m, p = ab["m"], ab["p"]
    c = {"m": m, "p": p, "id": ab.get("id", "")}
    key1 = "x" if p == "A" else "v"
    if m == "parse_args":
        argv, used_x = [], False
        nodef = p == "A" and ab["kw"].endswith("defaults=False")
        # parser A: the link x -> cls.init_args.n decides what happens after the print point
        #   late=fail with defaults: x=13 (compute_fn raises);  late=fail without defaults: no --x at all (no source);
        #   late=ok without defaults: --x must be given
        force_x = None
        if p == "A" and ab["late"] == "fail":
            force_x = "none" if nodef else "--x=13"
        elif nodef:
            force_x = "--x=2"
        for it in ab["items"]:
            if it == "ok" and force_x is not None:
                if force_x != "none" and not used_x:
                    piece, used_x = [force_x], True
                else:
                    piece = rnd.choice(PIECES[p]["ok_nox"])
            elif it == "clshelp":  # the help request for a typed argument: the declared dict scope / written skip decide which ones fit
                fit = {k: v for k, v in HELPS[p].items() if v[1] == ab.get("hscope", "shared") and v[2] == ab.get("hset", "-")}
                piece = rnd.choice(fit[_pick_key(ab, fit, rnd)][0])
            elif it == "cbv":
                piece = _pick_val(ab, CBV[_pick_key(ab, CBV, rnd)], rnd)
            else:
                piece = rnd.choice(PIECES[p][it])
            argv += piece
        if force_x not in (None, "none") and not used_x:
            raise ValueError(f"abstract call {ab} cannot be concretised (needs a valid root option to carry --x)")
        c["sargv"] = None
        if ab["sub"] != "none":
            argv.append(ab["sub"])
            c["sargv"] = []
            for it in ab["sitems"]:
                c["sargv"] += rnd.choice(PIECES[p + "." + ab["sub"]][it])
            argv += c["sargv"]
        c["argv"] = argv
        env, dflt = re.match(r"env=(\w+),defaults=(\w+)", ab["kw"]).groups()
        c["kwargs"] = {"env": {"None": None, "True": True, "False": False}[env], "defaults": dflt == "True"}
        if ab["pre"] == "fail":  # a bad value in the process environment while the call runs
            c["environ"] = {ENVVAR[p]: "bad"}
        elif c["kwargs"]["env"]:
            c["environ"] = rnd.choice([{}, {ENVVAR[p]: "[5]" if p == "A" else "5"}])
    elif m in ("parse_object", "parse_string", "parse_path", "parse_env"):
        cbkey = _pick_key(ab, CBOBJ, rnd) if ab.get("spec", "none") == "cb" else None
        if cbkey:
            obj = _pick_val(ab, CBOBJ[cbkey], rnd)
        elif ab.get("spec", "none") in DC:
            fields = rnd.choice(DC[ab["spec"]])
            obj = {"fn": {"d": fields}} if p == "A" else {"d": fields}
        elif ab.get("spec", "none") != "none":
            obj = rnd.choice(SPEC[ab["spec"]])
        elif ab["pre"] == "fail":
            obj = rnd.choice([{key1: "bad"}] + ([{"w": "bad"}, {"cls": {"class_path": "NoSuchClass"}}] if p == "A" else [{"u": 3}]))
        elif ab["dumpf"] == "error":
            obj = {"zz": 1}  # unknown key: the lenient dump of the print point and the validation both reject it
        elif ab["sel"] == "a":
            obj = rnd.choice([{"a": {"y": 3}}, {"a": {"l": [4]}}, {"subcommand": "a"}])
        elif ab["sel"] == "b":
            obj = rnd.choice([{"b": {"z": "s"}}, {"b": {"c2": {"class_path": "Sub2"}}}])
        elif ab["late"] == "fail":
            obj = {"x": 13}
        else:
            obj = rnd.choice([{key1: 3}, {key1: 4}] + ([{"w": [1, 2]}, {"cls": {"class_path": "Sub2", "init_args": {"k": 2.5}}}, {}] if p == "A" else [{"u": ["q"]}]))
        if m == "parse_env":  # only flat, environment-expressible variants
            pre = "APP_" if p == "A" else "OTH_"
            if cbkey:
                inner = obj
                for part in cbkey.split("."):
                    inner = inner[part]
                obj = {CBENV[cbkey]: json.dumps(inner)}
            elif ab.get("spec", "none") in DC:
                obj = {("APP_FN__D" if p == "A" else "OTH_D"): json.dumps(rnd.choice(DC[ab["spec"]]))}
            elif ab["pre"] == "fail":
                obj = {pre + key1.upper(): "bad"}
            elif ab["sel"] == "a":
                obj = {"APP_SUBCOMMAND": "a", "APP_A__Y": "3"}
            elif ab["sel"] == "b":
                obj = {"APP_SUBCOMMAND": "b", "APP_B__Z": "s"}
            elif ab["late"] == "fail":
                obj = {"APP_X": "13"}
            else:
                obj = rnd.choice([{pre + key1.upper(): "6"}, {}])
            c["env"] = obj
        elif m in ("parse_string", "parse_path"):
            c["text"] = "x: [1" if (ab["pre"] == "fail" and ab.get("spec", "none") == "none" and rnd.random() < 0.3) else json.dumps(obj)
        else:
            c["obj"] = obj
    elif m in ("get_defaults", "format_help"):
        pass
    elif m == "environment":
        c["file"] = ab["file"]
    else:  # dump / validate / instantiate_classes: the argument is built by hand (never through a parser)
        c["cfg"] = {"bad": ab["pre"] == "fail", "sub": rnd.choice(["none", "a", "b"]) if p == "A" else "none"}
        if p == "B" and ab.get("spec", "none") == "cb":  # the configuration holds values of the callable types
            c["cfg"]["cb"] = 3 if ab.get("hkey", "any").endswith(":maker") else rnd.choice([1, 2, 3, 3])
        if m == "dump":
            c["skip_none"] = "skip_none=True" in ab["dkv"]
    return c


def tag_of(argv) -> str:
    return "unset" if argv is None else ("[" + " ".join(argv) + "]")


def abstract_record(ab: dict, c: dict, coarse_tag=None) -> dict:
    """the op record handed to Trace_Context (same fields as MC_Context's O)."""
    return {"id": ab.get("id", ""), "m": ab["m"], "p": ab["p"], "eoe": ab["p"] == "B", "kw": ab["kw"],
            "tag": tag_of(c["argv"]) if ab["m"] == "parse_args" else "-",
            "stag": tag_of(c["sargv"]) if ab["m"] == "parse_args" and c.get("sargv") is not None else "-", "items": list(ab["items"]), "sub": ab["sub"],
            "sitems": list(ab["sitems"]), "pre": ab["pre"], "sel": ab["sel"], "dumpf": ab["dumpf"], "late": ab["late"],
            "ser": bool(ab["ser"]), "dkv": ab["dkv"], "spec": ab.get("spec", "none"), "file": ab.get("file", "-"),
            "hscope": ab.get("hscope", "shared"), "hset": ab.get("hset", "-"), "hkey": ab.get("hkey", "any")}


def hand_cfg(p: str, spec: dict):
    """a configuration object for dump/validate/instantiate_classes built without any parser call."""
    if p == "B":
        cfg = Namespace(v="bad" if spec["bad"] else 7, u=["a"])
        if spec.get("cb") == 1:
            cfg["cb"] = Namespace(class_path=MODNAME + ".Sub1", init_args=Namespace(m="h"))
            cfg["hold"] = Namespace(mk=Namespace(class_path=MODNAME + ".Sub2", init_args=Namespace(k=0.75)), opt=None, size=4)
        elif spec.get("cb") == 2:
            cfg["cbe"] = Namespace(class_path=MODNAME + ".Sub2", init_args=Namespace(k=1.25))
            cfg["cbo"] = Namespace(class_path=MODNAME + ".Sub3", init_args=Namespace(t="g"))
            cfg["hold"] = Namespace(mk=Namespace(class_path=MODNAME + ".Sub1", init_args=Namespace(m="i")),
                                    opt=Namespace(class_path=MODNAME + ".Sub3", init_args=Namespace(t="j")), size=5)
        elif spec.get("cb") == 3:  # classes whose instances are callable: all their init_args are the parser's
            cfg["cb"] = Namespace(class_path=MAKER, init_args=Namespace(a=3, b=4))
            cfg["cbo"] = Namespace(class_path=MAKER, init_args=Namespace(a=5, b=6))
            cfg["hold"] = Namespace(mk=Namespace(class_path=MAKER, init_args=Namespace(a=7, b=8)),
                                    opt=Namespace(class_path=MAKER, init_args=Namespace(a=9, b=10)), size=6)
        return cfg
    cfg = Namespace(x="bad" if spec["bad"] else 7, w=[1, 2],
                    cls=Namespace(class_path=MODNAME + ".Sub1", init_args=Namespace(n=113 if spec["bad"] else 7, m="h")))
    if spec["sub"] == "a":
        cfg["subcommand"] = "a"
        cfg["a"] = Namespace(y=8, l=[1, 2])
    elif spec["sub"] == "b":
        cfg["subcommand"] = "b"
        cfg["b"] = Namespace(z="zz", c2=Namespace(class_path=MODNAME + ".Sub2", init_args=Namespace(n=4, k=0.75)))
    return cfg


def do_call(c: dict, parser, filedir: str):
    m = c["m"]
    if m == "parse_args":
        return parser.parse_args(list(c["argv"]), **c["kwargs"])
    if m == "parse_object":
        return parser.parse_object(json.loads(json.dumps(c["obj"])))
    if m == "parse_string":
        return parser.parse_string(c["text"])
    if m == "parse_path":  # the same text, in a file of a sub-directory (parse_path works inside that directory)
        os.makedirs(os.path.join(filedir, "conf"), exist_ok=True)
        name = os.path.join("conf", "c" + hashlib.sha1(c["text"].encode()).hexdigest()[:10] + ".yaml")
        with open(os.path.join(filedir, name), "w") as f:
            f.write(c["text"])
        return parser.parse_path(name)
    if m == "parse_env":
        return parser.parse_env(dict(c["env"]))
    if m == "get_defaults":
        return parser.get_defaults()
    if m == "format_help":  # the text itself is not an observable of the property (it gains --print_shtab after the first parse)
        parser.format_help()
        return "<help text>"
    if m == "environment":  # not a call of the library: the default config file is written / edited / removed
        set_dcf(c["p"], c["file"], filedir)
        return None
    cfg = hand_cfg(c["p"], c["cfg"])
    if m == "dump":
        return parser.dump(cfg, skip_none=c["skip_none"])
    if m == "validate":
        return parser.validate(cfg)
    if m == "instantiate_classes":
        return parser.instantiate_classes(cfg)
    raise AssertionError(m)


# ------------------------------------------------------------------------------------------------ alpha: outcomes and residual state
def norm(x, filedir=""):
    if isinstance(x, Namespace):
        return {"__ns__": {k: norm(v, filedir) for k, v in vars(x).items()}}
    if isinstance(x, dict):
        return {str(k): norm(v, filedir) for k, v in x.items()}
    if isinstance(x, (list, tuple)):
        return [norm(v, filedir) for v in x]
    if isinstance(x, (Base, Holder, Maker)):
        return {"__obj__": type(x).__name__, "attrs": {k: norm(v, filedir) for k, v in sorted(vars(x).items())}}
    if callable(x) and getattr(x, "__name__", "") == "partial_instance":  # an instantiated callable that returns class instances: show what it builds
        for args in ((5,), (5, 0.5), ()):
            try:
                return {"__callable__": len(args), "builds": norm(x(*args), filedir)}
            except TypeError:
                continue
    if isinstance(x, (str, int, float, bool, type(None))):
        return x
    return _clean(repr(x), filedir)


def _clean(text: str, filedir: str) -> str:
    if filedir:
        text = text.replace(filedir, "<dir>")
    return re.sub(r"\b0x[0-9a-fA-F]{6,}\b", "0x?", text)


def run_call(c: dict, parser, filedir: str) -> dict:
    """execute one call; the outcome as (class, digest) plus a short readable form."""
    out, err = io.StringIO(), io.StringIO()
    saved = {k: os.environ.get(k) for k in c.get("environ", {})}
    os.environ.update(c.get("environ", {}))
    try:
        try:
            with contextlib.redirect_stdout(out), contextlib.redirect_stderr(err):
                r = do_call(c, parser, filedir)
            res = {"ch": "return", "val": norm(r, filedir)}
        except SystemExit as ex:
            res = {"ch": f"exit{ex.code}"}
        except jsonargparse.ArgumentError as ex:
            res = {"ch": "error", "msg": _clean(str(ex), filedir)}
        except BaseException as ex:  # noqa: BLE001
            res = {"ch": "raise", "exc": type(ex).__name__, "msg": _clean(str(ex), filedir)}
    finally:
        for k, v in saved.items():
            if v is None:
                os.environ.pop(k, None)
            else:
                os.environ[k] = v
    text = _clean(out.getvalue(), filedir)
    res["out"] = text
    cls = res["ch"]
    if cls == "exit0":
        cls = ("exit0:help" if text.lstrip().startswith("usage:") else "exit0:shtab" if "shtab" in text[:300]
               else "exit0:config" if text else "exit0:silent")
    elif cls.startswith("exit") and cls != "exit2":
        cls = "exit:other"
    blob = json.dumps(res, sort_keys=True, default=str)
    return {"c": cls, "d": hashlib.sha1(blob.encode()).hexdigest()[:16], "short": blob[:400]}


def _ctxvar(mod: str, name: str):
    try:
        m = __import__("jsonargparse." + mod, fromlist=[name])
        return getattr(m, name, None)
    except Exception:  # noqa: BLE001
        return None


_MANAGED = [("_common", "parent_parser", None), ("_common", "lenient_check", False), ("_common", "load_value_mode", None),
            ("_common", "defaults_cache", None), ("_common", "class_instantiators", None), ("_common", "parser_capture", False),
            ("_actions", "single_subcommand", True), ("_actions", "previous_config", None), ("_actions", "print_config_skip", False),
            ("_link_arguments", "apply_config_skip", False), ("_typehints", "sub_defaults", False),
            ("_typehints", "allow_default_instance", False), ("_util", "current_path_dir", None)]


def _linked_targets(P: dict) -> str:
    out = []
    for name, q in sorted(P.items()):
        for a in q._actions:
            lt = getattr(a, "sub_add_kwargs", None)
            if isinstance(lt, dict) and "linked_targets" in lt:
                out.append(f"{name}:{a.dest}:{sorted(lt['linked_targets'])}")
    return ";".join(out)


def observe(P: dict, cwd0: str, base: Optional[dict] = None) -> dict:
    """the residual state, observed from outside (alpha).  base: the observation made right after the parsers were built."""
    pend, args, shtab = {}, {}, {}
    for name, q in P.items():
        if "." not in name:
            pc = getattr(q, "print_config", None)
            if pc is None:
                pend[name] = "none"
            elif isinstance(pc, dict) and "key" in pc and "subparser" in pc:
                pend[name] = "full" if pc["key"] is None else str(pc["key"])
            else:
                pend[name] = "popped"
            shtab[name] = ("added" if any(type(a).__name__ == "ShtabAction" for a in q._actions)
                           else "broken" if "--print_shtab" in getattr(q, "_option_string_actions", {}) else "no")
        args[name] = tag_of(getattr(q, "args", None))
    pk = _ctxvar("_actions", "parse_kwargs")
    sap = _ctxvar("_typehints", "subclass_arg_parser")
    dk = _ctxvar("_typehints", "dump_kwargs")
    pkv = pk.get() if pk is not None else None
    dkv = dk.get() if dk is not None else None
    sapv = sap.get(None) if sap is not None else None
    sapname = "unset" if sapv is None else next((n for n, q in P.items() if q is sapv), "inner")
    bad = []
    for mod, name, dflt in _MANAGED:
        v = _ctxvar(mod, name)
        if v is not None:
            cur = v.get()
            if not (cur is dflt or cur == dflt):
                bad.append(name)
    nl = _ctxvar("_common", "nested_links")
    if nl is not None and nl.get() != []:
        bad.append("nested_links")
    pp = _ctxvar("_actions", "parent_parsers")
    if pp is not None and pp.get() != []:
        bad.append("parent_parsers")
    if os.getcwd() != cwd0:
        bad.append("cwd")
    if argparse.Namespace is not _STD_NAMESPACE:
        bad.append("argparse.Namespace")
    nact = {n: len(q._actions) for n, q in P.items()}
    links = _linked_targets(P)
    # the "skip" entry of the dicts that help actions of typed arguments use: the class-level one and those of B's class parameters
    hcls = getattr(__import__("jsonargparse._actions", fromlist=["_ActionHelpClassPath"]), "_ActionHelpClassPath", None)

    def skipcode(d):
        return "n/a" if not isinstance(d, dict) else ("unset" if "skip" not in d else ",".join(sorted(str(v) for v in d["skip"])))

    def help_dict(dest):
        act = next((a for a in P["B"]._actions if a.dest == dest), None) if "B" in P else None
        d = getattr(act, "sub_add_kwargs", None)
        return None if d is None or d is getattr(hcls, "sub_add_kwargs", None) else d

    hskip = {"shared": skipcode(getattr(hcls, "sub_add_kwargs", None)), "own1": skipcode(help_dict("hold.mk.help")), "own2": skipcode(help_dict("hold.opt.help"))}
    # the settings of every typed argument's own action (never written after construction, apart from linked_targets)
    settings = ";".join(f"{n}:{a.dest}:{sorted((k, repr(v)) for k, v in a.sub_add_kwargs.items() if k != 'linked_targets')}"
                        for n, q in sorted(P.items()) for a in q._actions
                        if type(a).__name__ == "ActionTypeHint" and isinstance(getattr(a, "sub_add_kwargs", None), dict))
    if base is not None:
        # Alg: the only action ever added after construction is --print_shtab on a root parser; linked_targets of the
        # class-typed actions are written by link_arguments only
        # (a parser on which --print_shtab ran is left out: the appended <cls>.<init_arg> actions are part of the recorded ShtabResidue)
        if any(nact[n] != base["nact"][n] + (1 if shtab.get(n) == "added" and base["shtab"].get(n) != "added" else 0)
               for n in nact if shtab.get(n.split(".")[0]) != "broken"):
            bad.append("n_actions")
        if links != base["links"]:
            bad.append("linked_targets")
        if settings != base["settings"] and not any(v == "broken" for v in shtab.values()):
            bad.append("action_settings")
    return {"hskip": hskip, "settings": settings, "pending": pend, "args": args, "shtab": shtab, "dcf": {n: get_dcf(n, cwd0) for n in P if "." not in n},
            "pk": "n/a" if pk is None else ("unset" if not pkv else kw_code(pkv.get("env"), pkv.get("defaults"))),
            "sap": "n/a" if sap is None else sapname,
            "dk": "n/a" if dk is None else ("unset" if not dkv else ",".join(f"{k}={dkv[k]}" for k in sorted(dkv))),
            "managed": not bad, "leaked": ",".join(sorted(bad)), "nact": nact, "links": links}


# ------------------------------------------------------------------------------------------------ executing a history (forked child)
def _prepare_dir() -> str:
    d = str(common.scratch("c09"))
    for fn, txt in FILES.items():
        with open(os.path.join(d, fn), "w") as f:
            f.write(txt)
    os.chdir(d)
    return d


def run_history(task: dict) -> dict:
    """a forked child: run the calls of one history on reused parsers; after every call run the same call on a freshly
    built identical parser (in a copied context, so that the comparison itself leaves no residue) and observe the residue."""
    signal.alarm(300)
    d = _prepare_dir()
    try:
        os.environ.update(task.get("process_env", {}))
        P = {}
        for r in ROOTS:
            P.update(build(r, d))
        init = observe(P, d)
        steps = []
        probes = task.get("probe") or [True] * len(task["calls"])
        for c, probe in zip(task["calls"], probes):
            reused = run_call(c, P[c["p"]], d)
            post = observe(P, d, init)
            if probe:
                # the probe must leave no residue: context variables are isolated by copy_context(); the class-level dict of the help
                # actions (process-wide, written by a help request for a callable type) is put back to what the reused call left
                hcls = getattr(__import__("jsonargparse._actions", fromlist=["_ActionHelpClassPath"]), "_ActionHelpClassPath", None)
                shared = getattr(hcls, "sub_add_kwargs", None)
                snap = {k: (set(v) if isinstance(v, set) else v) for k, v in shared.items()} if isinstance(shared, dict) else None
                fresh = contextvars.copy_context().run(lambda: run_call(c, build(c["p"], d)[c["p"]], d))
                if snap is not None and shared != snap:
                    shared.clear()
                    shared.update(snap)
                post2 = observe(P, d, init)
                clean = {k: post2[k] for k in ("hskip", "pending", "pk", "sap", "dk", "managed")} == {k: post[k] for k in ("hskip", "pending", "pk", "sap", "dk", "managed")}
            else:  # a positioning step of a tour: its transition is probed elsewhere
                fresh, clean = None, True
            steps.append({"reused": reused, "fresh": fresh, "post": post, "probe_clean": clean})
        return {"tid": task["tid"], "init": init, "steps": steps}
    finally:
        os.chdir("/")
        common.rm(d)


def run_pristine(task: dict) -> dict:
    """a forked child that has never called jsonargparse: the call on a fresh parser in a fresh process."""
    signal.alarm(120)
    d = _prepare_dir()
    try:
        os.environ.update(task.get("process_env", {}))
        c = task["call"]
        for root, state in c.get("files", {}).items():  # the environment as it is when the call is made in its history
            set_dcf(root, state, d)
        return {"key": task["key"], "out": run_call(c, build(c["p"], d)[c["p"]], d)}
    finally:
        os.chdir("/")
        common.rm(d)


def pool_map(fn, tasks, procs=14):
    """run fn(task) for every task, each in its OWN freshly forked child (no residue can travel between histories);
    at most `procs` children at a time; results in task order."""
    import pickle
    import select

    results = [None] * len(tasks)
    running = {}  # read fd -> (index, pid, chunks)
    nxt = 0
    while nxt < len(tasks) or running:
        while nxt < len(tasks) and len(running) < procs:
            r, w = os.pipe()
            pid = os.fork()
            if pid == 0:  # child
                try:
                    os.close(r)
                    try:
                        payload = pickle.dumps(("ok", fn(tasks[nxt])))
                    except BaseException as ex:  # noqa: BLE001
                        payload = pickle.dumps(("err", f"{type(ex).__name__}: {ex}"))
                    with os.fdopen(w, "wb") as f:
                        f.write(payload)
                finally:
                    os._exit(0)
            os.close(w)
            running[r] = (nxt, pid, [])
            nxt += 1
        ready, _, _ = select.select(list(running), [], [], 5.0)
        for fd in ready:
            data = os.read(fd, 1 << 20)
            if data:
                running[fd][2].append(data)
                continue
            i, pid, chunks = running.pop(fd)
            os.close(fd)
            os.waitpid(pid, 0)
            try:
                kind, val = pickle.loads(b"".join(chunks))
            except Exception:  # noqa: BLE001
                kind, val = "err", "child died without a result"
            if kind != "ok":
                raise RuntimeError(f"task {i}: {val}")
            results[i] = val
    return results


# ------------------------------------------------------------------------------------------------ tours over the emitted transition system
def make_tours(states: dict, init_key: str, op_ids: list, maxlen: int):
    """cover every transition (state, op) of the emitted system with walks from the initial state of length <= maxlen.
    states: key -> {op id -> (to key, out, ref)}.  Returns a list of walks; a walk is a list of (op id, covering?)."""
    todo = {k: set(op_ids) for k in states}
    left = len(states) * len(op_ids)

    def nearest_work(src, limit):
        """shortest op path from src to a state that still has uncovered transitions (BFS, at most `limit` steps)."""
        if todo[src]:
            return []
        seen, frontier = {src: None}, [src]
        for _ in range(limit):
            nxt = []
            for k in frontier:
                for o in op_ids:
                    t = states[k][o][0]
                    if t not in seen:
                        seen[t] = (k, o)
                        if todo[t]:
                            path = []
                            while seen[t] is not None:
                                t, o2 = seen[t]
                                path.append(o2)
                            return path[::-1]
                        nxt.append(t)
            frontier = nxt
            if not frontier:
                break
        return None

    tours = []
    while left:
        walk, cur = [], init_key
        while len(walk) < maxlen:
            path = nearest_work(cur, maxlen - len(walk) - 1)
            if path is None:
                break
            for o in path:  # positioning
                cov = o in todo[cur]
                if cov:
                    todo[cur].discard(o)
                    left -= 1
                walk.append((o, cov))
                cur = states[cur][o][0]
            if len(walk) >= maxlen:
                break
            o = min(todo[cur])
            todo[cur].discard(o)
            left -= 1
            walk.append((o, True))
            cur = states[cur][o][0]
        if not walk:
            raise RuntimeError("some transitions cannot be reached within the tour length")
        tours.append(walk)
    return tours


# ------------------------------------------------------------------------------------------------ random histories beyond the model's universe
def AB(m: str, p: str, **kw) -> dict:
    """an abstract call (the record of Context.tla) with the defaults of MC_Context's O()."""
    ab = {"id": "", "m": m, "p": p, "kw": DEF_KW if m == "parse_args" else "-", "items": [], "sub": "none", "sitems": [], "pre": "ok", "sel": "none",
          "dumpf": "none", "late": "ok", "ser": m == "dump", "dkv": "skip_none=True,skip_validation=False", "spec": "none", "file": "-",
          "hscope": "shared", "hset": "-", "hkey": "any"}
    ab.update(kw)
    return ab


def probes_for(p: str) -> list:
    """the answering calls asked after an earlier call: defaults, a parse without arguments, a parse without defaults, the
    dump of a parse (--print_config), a dump, a parse_object - each compared with a fresh parser built against the CURRENT
    environment."""
    return [AB("get_defaults", p), AB("parse_args", p), AB("parse_args", p, kw="env=None,defaults=False", items=["ok"]),
            AB("parse_args", p, items=["pc"]), AB("dump", p), AB("parse_object", p)]


def scenarios(ops: dict) -> list:
    """targeted histories, generated generically from the model's call universe:
    (1) every call of the universe that does NOT return normally on a fresh parser (error, exit 2, help / config / completion
        script printed, raise), followed by the probe calls on the same parser and a parse on the other parser;
    (4) see below; (2) default config file written, a help-printing call (--help, format_help(), class help), then the file edited / removed /
        left alone, then the probe calls (what the help formatter or any cache took from the file must not stick)."""
    out = []
    for oid in sorted(ops):
        o = ops[oid]
        if o["m"] != "environment" and o.get("_ref", "return") != "return":
            other = "B" if o["p"] == "A" else "A"
            out.append([dict(o)] + probes_for(o["p"]) + [AB("parse_args", other, items=["ok"])])
    for p, one, many in (("A", "dc1", "dcn"), ("B", "dg1", "dgn"), ("B", "dc1", "dcn")):  # (4) the dataclass-typed argument (function parameter, plain
        # argument, class parameter): every way of setting it, then a call that sets ONE field (or none)
        setters = ([AB("parse_args", p, items=[k]) for k in (one, many, "dcd", "cfgdc")]
                   + [AB(m, p, spec=sp) for m in ("parse_object", "parse_string", "parse_env") for sp in ("dc1", "dcn")])
        for o1 in setters:
            out.append([o1, AB("parse_args", p, items=[one]), AB("parse_string", p, spec="dc1"), AB("parse_args", p), AB("get_defaults", p)])
    # (5) a help request for a typed argument whose type is a callable that returns class instances, then a value of that type through
    #     every entry point (argv with class_path / init_args / nested keys, --print_config after it, parse_object, parse_string,
    #     parse_env, dump, instantiate_classes), the class help of a CLASS-typed argument on both parsers (HelpSkipResidue), the
    #     help request again, and the defaults - every step probed against a fresh parser here and in a pristine process
    for key in sorted(HELPS["B"]):
        if HELPS["B"][key][2] == "-":
            continue
        hs, hv = HELPS["B"][key][1:]
        h = AB("parse_args", "B", items=["clshelp"], hscope=hs, hset=hv, hkey=key)
        mk = key + ":maker"
        out.append([dict(h), AB("parse_args", "B", items=["cbv"], hkey=mk), AB("parse_args", "B", items=["cbv", "pc"], hkey=mk), AB("parse_object", "B", spec="cb", hkey=mk),
                    AB("dump", "B", spec="cb", hkey=mk), AB("instantiate_classes", "B", spec="cb", ser=False, hkey=mk), AB("parse_string", "B", spec="cb", hkey=mk)])
        out.append([h, AB("parse_args", "B", items=["cbv"], hkey=key), AB("parse_args", "B", items=["cbv", "pc"], hkey=key),
                    AB("parse_object", "B", spec="cb", hkey=key), AB("dump", "B", spec="cb"), AB("instantiate_classes", "B", spec="cb", ser=False),
                    AB("parse_args", "B", items=["clshelp"], hkey="cls"), AB("parse_args", "A", items=["clshelp"], hkey="cls"), dict(h),
                    AB("parse_string", "B", spec="cb", hkey=key), AB("parse_env", "B", spec="cb", hkey=key), AB("get_defaults", "B"), AB("format_help", "B"),
                    AB("parse_args", "B", items=["cbv"])])
    for p in ROOTS:  # (3) the completion script is printed, then everything is asked again (recorded ShtabResidue)
        if not any(o["p"] == p and "shtab" in o["items"] for o in ops.values()):
            out.append([AB("parse_args", p, items=["shtab"])] + probes_for(p) + [AB("format_help", p), AB("parse_args", "B" if p == "A" else "A", items=["ok"])])
    for p in ROOTS:
        helps = [AB("parse_args", p, items=["help"]), AB("format_help", p)] + ([AB("parse_args", p, items=["clshelp"])] if p == "A" else [])
        for h in helps:
            for e in (None, "v2", "absent"):
                out.append([AB("environment", p, file="v1"), h] + ([AB("environment", p, file=e)] if e else []) + probes_for(p))
    return out


def annotate_files(calls: list) -> None:
    """the state of the default config files BEFORE each call of a history (by construction), for the pristine comparison."""
    state = {r: "absent" for r in ROOTS}
    for c in calls:
        c["files"] = dict(state)
        if c["m"] == "environment":
            state[c["p"]] = c["file"]


def random_abstract(rnd, maxitems=4) -> dict:
    p = "A" if rnd.random() < 0.75 else "B"
    m = rnd.choices(["parse_args", "parse_object", "parse_string", "parse_path", "parse_env", "get_defaults", "dump", "validate", "instantiate_classes",
                     "environment", "format_help"], [44, 8, 10, 6, 5, 7, 8, 4, 5, 8, 3])[0]
    ab = {"id": "", "m": m, "p": p, "kw": "-", "items": [], "sub": "none", "sitems": [], "pre": "ok", "sel": "none", "dumpf": "none",
          "late": "ok", "ser": False, "dkv": "skip_none=True,skip_validation=False", "spec": "none", "file": "-",
          "hscope": "shared", "hset": "-", "hkey": "any"}
    if m == "environment":
        ab["file"] = rnd.choice(["v1", "v1", "v2", "absent"])
    elif m == "parse_args":
        kinds = (["ok", "ok", "ok", "sel", "sel", "bad", "unk", "pc", "pc", "pcflag", "help", "help", "cfg", "cfgbad", "cfgbad"]
                 + (["dc1", "dc1", "dcn"] if p == "A" else ["dg1", "dg1", "dgn", "dc1", "dcn"]) + ["dcd", "cfgdc"] + (["clshelp", "ncls"] if p == "A" else []) + (["shtab"] if rnd.random() < 0.12 else []))
        if p == "B":
            kinds += ["cbv", "cbv", "cbv", "clshelp", "clshelp"]
        ab["items"] = [rnd.choice(kinds) for _ in range(rnd.randint(0, maxitems))]
        if "clshelp" in ab["items"]:  # which typed argument the help request is for decides the dict and what is written to it
            ab["hkey"] = rnd.choice(sorted(HELPS[p]))
            ab["hscope"], ab["hset"] = HELPS[p][ab["hkey"]][1:]
        if "clshelp" in ab["items"]:  # whatever follows --cls.help is handed to a throw-away help parser: keep it last
            ab["items"] = ab["items"][: ab["items"].index("clshelp") + 1]
        elif p == "A" and rnd.random() < 0.45:
            ab["sub"] = rnd.choice(["a", "b"])
            sk = ["ok", "ok", "bad", "unk", "help"] + (["pc", "pc", "pcflag", "cfg", "cfgbad"] if ab["sub"] == "a" else ["ncls"])
            ab["sitems"] = [rnd.choice(sk) for _ in range(rnd.randint(0, 3))]
            ab["sel"] = ab["sub"]
        env = rnd.choice([None, None, None, True, False])
        dflt = rnd.random() < 0.85
        if not dflt:  # keep at least one typed value in every (sub-)configuration a print point may dump (Alg-level: dump_kwargs)
            ab["items"] = ["ok"] + ab["items"]
            if ab["sub"] == "a":
                ab["sitems"] = ["ok"] + ab["sitems"]
        ab["kw"] = kw_code(env, dflt)
        if env and rnd.random() < 0.25:
            ab["pre"] = "fail"
        if p == "A" and not dflt:
            # without defaults the link x -> cls.init_args.n has no source unless the argv gives --x: fails after the print point
            ab["late"] = "ok" if ("ok" in ab["items"] and rnd.random() < 0.6) else "fail"
        elif p == "A" and "ok" in ab["items"] and rnd.random() < 0.15:
            ab["late"] = "fail"
    elif m in ("parse_object", "parse_string", "parse_path", "parse_env"):
        r = rnd.random()
        if p == "B" and rnd.random() < 0.4:  # a value of a callable type that returns class instances
            ab["spec"] = "cb"
        elif m != "parse_path" and rnd.random() < 0.25:  # fields of the dataclass-typed argument
            ab["spec"] = rnd.choice(["dc1", "dcn"])
        elif m in ("parse_string", "parse_path") and rnd.random() < 0.45:  # a class spec for `cls`, full or without class_path
            ab["spec"] = rnd.choice(["full", "short"])
            ab["pre"] = "fail" if ab["spec"] == "short" else "ok"
        elif r < 0.2:
            ab["pre"] = "fail"
        elif r < 0.35 and m != "parse_env":
            ab["dumpf"], ab["late"] = "error", "fail"
        elif r < 0.55 and p == "A":
            ab["sel"] = rnd.choice(["a", "b"])
        elif r < 0.65 and p == "A":
            ab["late"] = "fail"
    elif m == "dump":
        ab["ser"] = True
        ab["dkv"] = rnd.choice(["skip_none=True,skip_validation=False", "skip_none=False,skip_validation=False"])
        if rnd.random() < 0.25:
            ab["pre"], ab["ser"] = "fail", False
    elif m in ("validate", "instantiate_classes"):
        if rnd.random() < 0.3:
            ab["pre"] = "fail"
    if p == "B" and m in ("dump", "instantiate_classes") and ab["pre"] == "ok" and rnd.random() < 0.6:
        ab["spec"] = "cb"
    return ab


# ------------------------------------------------------------------------------------------------ main
def main(argv):
    tier = "thorough" if (argv and argv[0] == "thorough") else "quick"
    rep = Report(PID, tier)
    rnd = common.rng(PID)
    workers = int(os.environ.get("VERIF_TLC_WORKERS", "16"))
    heap = os.environ.get("VERIF_TLC_HEAP", "8g")
    rep.assumptions = [
        "gamma maps an abstract call (argv item kinds, failure positions) to concrete arguments by construction; the `gamma` clause of Trace_Context cross-checks the declared attributes against the outcome class on a fresh parser in a pristine process",
        "outcomes are compared as (channel, exit status, stdout, result rendered structurally, ArgumentError text); stderr (usage text) is not part of the observable; object addresses and the scratch directory are normalised",
        "the residual state is read from outside: parser.print_config / parser.args / parser._actions and the context variables of jsonargparse's private modules (a renamed variable is reported as n/a and not compared)",
        "the same call on a fresh parser in the same process runs inside contextvars.copy_context() so that the comparison itself leaves no residue; the harness checks that after every probe",
        "every history runs in its own forked child (multiprocessing, maxtasksperchild=1)",
    ]

    # ---- MC: design level
    cfgname = f"MC_Context_{tier}"
    mc = tlc.run("MC_Context", cfgname, workers=workers, heap=heap, timeout=1500)
    # the second bounded instance: the HELP universe (help requests for callable-typed arguments, values of those types through every
    # entry point, the class help that reads what they left) - same module, same invariants, its own transition system
    mch = tlc.run("MC_Context", f"MC_Context_help_{tier}", workers=workers, heap=heap, timeout=1500)
    for name, r in ((cfgname, mc), (f"MC_Context_help_{tier}", mch)):
        rep.add_tlc(name, r)
        if r.errors or r.rc != 0:
            if r.violated:
                rep.violation("model:" + ",".join(r.violated), f"TLC: invariant {r.violated} violated in {name} (the Alg layer breaks the property outside the recorded deviations)",
                              {"tlc_errors": r.errors, "counterexample": r.cex[:6000]})
            else:
                machinery_failure(PID, f"TLC failed on {name}:\n" + r.stdout[-3000:])
    # documentation only: the design BEFORE fix 9a553c5 (ClearOnError = FALSE) violates the unguarded property; whatever
    # this run does, it cannot fail the check
    try:
        mcs = tlc.run("MC_Context", "MC_Context_prefix", workers=1, heap=heap, timeout=300)
        rep.add_tlc("MC_Context_prefix(documentation)", mcs)
        rep.extra["prefix_design_counterexample"] = (mcs.cex[-1800:] if mcs.violated else f"not violated (rc={mcs.rc})")
    except Exception as ex:  # noqa: BLE001
        rep.extra["prefix_design_counterexample"] = f"run failed: {type(ex).__name__}"

    # ---- REPLAY plan: tours covering every transition of both instances; TRACE plan: random histories
    maxlen = 12 if tier == "quick" else 40
    covered = set()
    tasks, meta = [], []
    ops, n_trans, n_states = {}, 0, 0
    rep.extra["model_deviating_transitions"] = 0
    for inst, r in (("main", mc), ("help", mch)):
        emitted = [p for p in r.printed if isinstance(p, dict) and "key" in p]
        opsl = [p for p in r.printed if isinstance(p, dict) and "ops" in p]
        if not opsl or not emitted:
            machinery_failure(PID, f"MC_Context ({inst}) emitted {len(emitted)} states, {len(opsl)} op tables")
        iops = {o["id"]: o for o in opsl[0]["ops"]}
        op_ids = sorted(iops)
        states = {}
        for s in emitted:
            states[s["key"]] = {t[0]: (t[1], t[2], t[3]) for t in s["t"]}
        if any(set(v) != set(op_ids) for v in states.values()) or any(t[0] not in states for v in states.values() for t in v.values()):
            machinery_failure(PID, f"emitted transition system ({inst}) is not closed / incomplete")
        init_key = next(s["key"] for s in emitted if all(v == "none" for v in s["res"]["pending"].values()) and s["res"]["pk"] == "unset" and s["res"]["dk"] == "unset"
                        and s["res"]["sap"] == "unset" and all(v == "unset" for v in s["res"]["hskip"].values()))
        n_inst = len(states) * len(op_ids)
        rep.extra[f"model_quiescent_states_{inst}"] = len(states)
        rep.extra[f"model_transitions_{inst}"] = n_inst
        rep.extra["model_deviating_transitions"] += sum(1 for s in emitted for t in s["t"] if t[2] != t[3] or (len(t) > 4 and t[4] == "dev"))
        tours = make_tours(states, init_key, op_ids, 30 if tier == "quick" else 60)
        cov_inst = set()
        for w in tours:
            cur, calls, abss, probe = init_key, [], [], []
            for oid, cov in w:
                if cov:
                    cov_inst.add((inst, cur, oid))
                ab = {k: v for k, v in iops[oid].items() if not k.startswith("_")}
                c = concretize(ab, rnd)
                calls.append(c)
                abss.append(abstract_record(ab, c))
                probe.append(bool(cov))
                cur = states[cur][oid][0]
            tasks.append({"tid": len(tasks) + 1, "calls": calls, "probe": probe})
            meta.append({"kind": "tour", "abs": abss})
        if len(cov_inst) != n_inst:
            machinery_failure(PID, f"tours cover {len(cov_inst)} of {n_inst} transitions ({inst})")
        covered |= cov_inst
        n_trans += n_inst
        n_states += len(states)
        ref_of = {oid: t[2] for oid, t in states[init_key].items()}
        for oid, o in iops.items():
            o["_ref"] = ref_of[oid]
            ops.setdefault(oid, o)
    rep.extra["model_quiescent_states"] = n_states
    rep.extra["model_transitions"] = n_trans
    n_tour = len(tasks)
    # targeted scenarios (all steps probed)
    for seq in scenarios(ops):
        calls, abss = [], []
        for ab in seq:
            ab = {k: v for k, v in ab.items() if not k.startswith("_")}
            c = concretize(ab, rnd)
            calls.append(c)
            abss.append(abstract_record(ab, c))
        tasks.append({"tid": len(tasks) + 1, "calls": calls})
        meta.append({"kind": "scenario", "abs": abss})
    n_scen = len(tasks) - n_tour
    n_random = 100 if tier == "quick" else 1000
    for _ in range(n_random):
        calls, abss = [], []
        penv = rnd.choice([{}, {}, {"APP_W": "[3]"}, {"APP_W": "[3]", "OTH_V": "4"}])
        for _k in range(rnd.randint(3, maxlen)):
            ab = random_abstract(rnd)
            c = concretize(ab, rnd)
            calls.append(c)
            abss.append(abstract_record(ab, c))
        tasks.append({"tid": len(tasks) + 1, "calls": calls, "process_env": penv})
        meta.append({"kind": "random", "abs": abss, "process_env": penv})

    for t in tasks:
        annotate_files(t["calls"])
    # pristine outcomes, one forked child per distinct (call, state of the default config files, process environment)
    pr_tasks, pr_index = [], {}
    for t in tasks:
        for c in t["calls"]:
            key = json.dumps([c, t.get("process_env", {})], sort_keys=True)
            if key not in pr_index:
                pr_index[key] = len(pr_tasks)
                pr_tasks.append({"key": key, "call": c, "process_env": t.get("process_env", {})})
    procs = int(os.environ.get("VERIF_PROCS", "14"))
    tm = common.Timer()
    try:
        pristine = {r["key"]: r["out"] for r in pool_map(run_pristine, pr_tasks, procs)}
        rep.extra["wall_pristine_s"] = tm.s()
        results = pool_map(run_history, tasks, procs)
        rep.extra["wall_histories_s"] = round(tm.s() - rep.extra["wall_pristine_s"], 2)
    except Exception as ex:  # noqa: BLE001
        machinery_failure(PID, f"history execution failed: {type(ex).__name__}: {ex}")

    # ---- build the trace file(s) with dedup tables
    results.sort(key=lambda r: r["tid"])
    res0 = {"pending": {r: "none" for r in ROOTS}, "args": {n: "unset" for n in NAMES}, "shtab": {r: "no" for r in ROOTS},
            "dcf": {r: "absent" for r in ROOTS}}
    traces_all = []
    hs0 = ("unset", "n/a")
    shorts = {}
    n_steps = 0
    for t, r, m in zip(tasks, results, meta):
        ini = r["init"]
        if any(v not in hs0 for v in ini["hskip"].values()) or {k: ini[k] for k in res0} != res0 or ini["pk"] not in ("unset", "n/a") or ini["dk"] not in ("unset", "n/a") or not ini["managed"]:
            machinery_failure(PID, f"a forked child did not start from the initial residual state: {ini}")
        steps = []
        for c, ab, st in zip(t["calls"], m["abs"], r["steps"]):
            if not st["probe_clean"]:
                machinery_failure(PID, f"the fresh-parser probe left residue behind (call {c})")
            key = json.dumps([c, t.get("process_env", {})], sort_keys=True)
            pr = pristine[key]
            for o in (st["reused"], st["fresh"], pr):
                if o is not None:
                    shorts[o["d"]] = o["short"]
            steps.append({"op": ab, "post": {k: st["post"][k] for k in ("hskip", "pending", "args", "shtab", "dcf", "pk", "sap", "dk", "managed")},
                          "leaked": st["post"]["leaked"],
                          "r": {"c": st["reused"]["c"], "d": st["reused"]["d"]}, "f": {"c": st["fresh"]["c"], "d": st["fresh"]["d"]} if st["fresh"] else None,
                          "p": {"c": pr["c"], "d": pr["d"]}})
            n_steps += 1
        traces_all.append(steps)

    tmp = common.scratch("c09-trace")
    rejects = []
    try:
        chunk_steps, chunk, base = 0, [], 0
        chunks = []
        for i, steps in enumerate(traces_all):
            chunk.append(steps)
            chunk_steps += len(steps)
            if chunk_steps >= 30000 or i == len(traces_all) - 1:
                chunks.append((base, chunk))
                base, chunk, chunk_steps = i + 1, [], 0
        for ci, (base, chunk) in enumerate(chunks):
            optab, posttab, outtab = {}, {}, {}

            def idx(tab, obj):
                k = json.dumps(obj, sort_keys=True)
                if k not in tab:
                    tab[k] = (len(tab) + 1, obj)
                return tab[k][0]

            tr = []
            for steps in chunk:
                tr.append([{"o": idx(optab, s["op"]), "q": idx(posttab, s["post"]), "r": idx(outtab, s["r"]), "f": idx(outtab, s["f"]) if s["f"] else 0,
                            "p": idx(outtab, s["p"])} for s in steps])
            data = {"roots": ROOTS, "names": NAMES, "ops": [v[1] for v in sorted(optab.values(), key=lambda x: x[0])],
                    "posts": [v[1] for v in sorted(posttab.values(), key=lambda x: x[0])],
                    "outs": [v[1] for v in sorted(outtab.values(), key=lambda x: x[0])], "traces": tr}
            f = tmp / f"trace{ci}.json"
            f.write_text(json.dumps(data))
            tv = tlc.run("Trace_Context", "Trace_Context", workers=workers, heap=heap, env={"TRACE_FILE": str(f)}, timeout=2400)
            rep.add_tlc(f"Trace_Context[{ci}]", tv)
            expect = sum(len(s) for s in chunk) + len(chunk)
            if tv.errors or tv.rc != 0 or tv.distinct != expect:
                machinery_failure(PID, f"trace validation failed (distinct={tv.distinct}, expected {expect}):\n" + tv.stdout[-3000:])
            for p in tv.printed:
                if isinstance(p, list) and p and p[0] == "R":
                    rejects.append((p[1] + base, p[2], p[3], p[4] if len(p) > 4 else ""))
            f.unlink()
    finally:
        common.rm(tmp)

    # ---- evidence
    rep.traces = n_steps
    rep.evaluations = n_steps
    rep.extra.update({"scenarios": n_scen, "tours": n_tour, "tour_steps": sum(len(t["calls"]) for t in tasks[:n_tour]), "random_histories": n_random,
                      "scenario_steps": sum(len(t["calls"]) for t in tasks[n_tour:n_tour + n_scen]),
                      "random_steps": sum(len(t["calls"]) for t in tasks[n_tour + n_scen:]), "pristine_process_runs": len(pr_tasks),
                      "replayed_model_transitions": len(covered)})
    for steps in traces_all:
        prev = None
        for s in steps:
            if prev is not None and (any(v != "none" for v in prev["pending"].values()) or prev["pk"] != "unset"):
                rep.note_nontrivial(json.dumps([prev["pending"], prev["pk"], prev["sap"], prev["dk"], s["op"]["m"], s["op"]["p"], s["op"]["items"],
                                                s["op"]["sub"], s["op"]["sitems"], s["op"]["pre"], s["op"]["sel"], s["op"]["late"]], sort_keys=True))
            prev = s["post"]
    rep.rule = ("cases = executed steps (call on a reused parser after a history, compared with a fresh parser in the same process and in a pristine process); "
                "non-trivial & distinct = distinct (observed residual state before the call, abstract call) pairs whose residual state is not the initial one")
    rep.exhaustive = False
    rep.explanation = (f"MC_Context explored the complete (finite) residual state space for its two call universes (main and help): {n_states} quiescent states, {n_trans} quiescent transitions, "
                       f"histories of any length; every one of these transitions was executed on real reused parsers by {n_tour} tours; {n_random} further random histories "
                       f"(<= {maxlen} calls) used a richer call grammar; TLC validated all {n_steps} steps against Trace_Context")
    for i in (0, n_tour // 2, n_tour, len(tasks) - 1):
        if 0 <= i < len(tasks) and traces_all[i]:
            s = traces_all[i][-1]
            rep.sample({"history": [c for c in tasks[i]["calls"]][-3:], "kind": meta[i]["kind"], "last_step": {"op": s["op"], "post": s["post"],
                        "reused": shorts.get(s["r"]["d"], "")[:300], "fresh": shorts.get((s["f"] or {}).get("d"), "")[:300], "pristine": shorts.get(s["p"]["d"], "")[:300]}})

    # ---- classification of TLC's rejections
    by_step = {}
    for tid, k, clause, detail in rejects:
        by_step.setdefault((tid, k), []).append((clause, detail))
    drift_kinds = {}
    for (tid, k), cl in sorted(by_step.items()):
        t, steps, m = tasks[tid - 1], traces_all[tid - 1], meta[tid - 1]
        s = steps[k - 1]
        case = {"history": t["calls"][:k], "process_env": t.get("process_env", {}), "kind": m["kind"], "abstract_call": s["op"], "failed_clauses": cl,
                "observed_post": s["post"], "leaked": s["leaked"],
                "reused": shorts.get(s["r"]["d"], ""), "fresh_same_process": shorts.get((s["f"] or {}).get("d"), "not probed"), "fresh_pristine_process": shorts.get(s["p"]["d"], ""),
                "python": _python_repro(t["calls"][:k])}
        names = [c for c, _ in cl]
        detail = {c: d for c, d in cl}
        meth = s["op"]["m"]
        if "ref-pending-as-alg" in names:
            pend = detail["ref-pending-as-alg"]
            pend = pend if pend in ("full", "popped") else "sub"
            rep.violation(f"print-config-residue/as-alg:{pend}:{meth}",
                          f"{meth} after a --print_config request that survived an earlier failed/aborted parse_args (pending={detail['ref-pending-as-alg']})", case)
        elif "ref-helpskip-as-alg" in names:
            rep.violation(f"help-skip-residue/as-alg:{detail['ref-helpskip-as-alg']}:{s['op']['p']}",
                          "the class help of a class-typed argument omits the first parameter(s) after a help request for a callable-typed argument anywhere in the process", case)
        elif "ref-shtab-as-alg" in names:
            rep.violation(f"shtab-residue/as-alg:{meth}", f"{meth} fails after --print_shtab=<shell> was run on the same root parser", case)
        elif "ref-process" in names:
            rep.violation(f"process-residue:{meth}:{s['r']['c']}-vs-{s['p']['c']}", f"{meth} answers differently in this process than in a pristine process (fresh parser in the same process agrees with the reused one)", case)
        elif "ref" in names:
            rep.violation(f"history-dependent:{meth}:{s['r']['c']}-vs-{(s['f'] or s['p'])['c']}:{_shape(s)}", f"{meth} on the reused parser answers differently than on a fresh parser", case)
        for c in names:
            if not c.startswith("ref"):
                drift_kinds[c] = drift_kinds.get(c, 0) + 1
                rep.add_drift(f"Alg-level disagreement ({c}: {detail[c]})", case if drift_kinds[c] <= 3 else {"tid": tid, "k": k})
    rep.extra["drift_kinds"] = drift_kinds
    return rep.finish()


def _shape(s) -> str:
    o = s["op"]
    return "+".join(o["items"])[:40] + ("/" + o["sub"] + ":" + "+".join(o["sitems"])[:30] if o["sub"] != "none" else "") + f"|pre={o['pre']}|sel={o['sel']}"


def _python_repro(calls) -> str:
    lines = ["P = {**build('A'), **build('B')}   # harness.checks.c09.build"]
    for c in calls:
        if c["m"] == "parse_args":
            lines.append(f"P[{c['p']!r}].parse_args({c['argv']!r}, **{c['kwargs']!r})" + (f"  # with os.environ += {c['environ']}" if c.get("environ") else ""))
        elif c["m"] == "parse_object":
            lines.append(f"P[{c['p']!r}].parse_object({c['obj']!r})")
        elif c["m"] == "parse_string":
            lines.append(f"P[{c['p']!r}].parse_string({c['text']!r})")
        elif c["m"] == "parse_path":
            lines.append(f"P[{c['p']!r}].parse_path(<file in ./conf holding {c['text']!r}>)")
        elif c["m"] == "parse_env":
            lines.append(f"P[{c['p']!r}].parse_env({c['env']!r})")
        elif c["m"] in ("get_defaults", "format_help"):
            lines.append(f"P[{c['p']!r}].{c['m']}()")
        elif c["m"] == "environment":
            lines.append(f"<default config file of {c['p']} := {c['file']}>  # set_dcf({c['p']!r}, {c['file']!r})")
        else:
            lines.append(f"P[{c['p']!r}].{c['m']}(hand_cfg({c['p']!r}, {c['cfg']!r}))")
    return "; ".join(lines)


if __name__ == "__main__":
    # run as `python -m harness.checks.c09`: hand over to the regularly imported module, so that the classes above have one
    # stable import path (harness.checks.c09.<name>) with source and globals that jsonargparse's resolvers can read
    import importlib

    args = sys.argv[1:]
    if args and args[0] == "--replay":
        print(open(args[1]).read())
        sys.exit(0)
    sys.exit(importlib.import_module(MODNAME).main(args))
