"""C17 — exactly one sub-command is selected and only its settings survive.

  MC      tlc MC_Subcommands for three trees (one level / two levels / three levels with optional levels): every
          well-formed input (names on the command line, explicit keys and sections in a config, *_SUBCOMMAND and *_X
          variables, config as --cfg or as the call's own object/string); invariants AlgIsSelect (the decision
          procedure of get_subcommands run level by level = the documented Select), OneSectionPerLevel, ArgvWins.
  REPLAY  (spec -> code) every emitted input (quick: all of T1/T2, a stride of T3) is rendered into argv / JSON /
          environment and run on a real parser tree; the key set and option value at every level must equal Select.
  TRACE   (code -> spec) random trees (depth <= 3, 1-4 sub-commands per level, required or optional) with random
          inputs are run on the real code; TLC validates the observed results against Trace_Subcommands.
"""
from __future__ import annotations

import json
import os
import shutil
import sys
import tempfile
import warnings

from ..lib import common, pipeline, tlc
from ..lib.evidence import Report, machinery_failure

PID = "C17"
DCFDEV = ("a default config file that carries sub-command content (an explicit 'subcommand' key or sections) is parsed on its own with the strict sub-command "
          "machinery: partial settings make every parse fail ('Problem in default config file ... expected subcommand'), an inner key can escape as "
          "AttributeError, and the environment does not override the file's choice")
DCFFIRST = ("a root default config file with sections for several sub-commands and no explicit 'subcommand' key keeps only the section of the FIRST declared "
            "sub-command when get_defaults parses it on its own; a later-declared sub-command named on the command line gets defaults instead of the file's values")
DCFKEY = ("a root default config file that names one sub-command explicitly loses the sections of the others when it is loaded (the deviation "
          "cfgkey-names-other through a default config file); a sub-command named on the command line gets defaults instead of the file's values")
DEV = ("a --cfg config that names one sub-command explicitly but also carries settings for another loses those settings at load time; when the "
       "command line then selects that other sub-command it gets defaults (or the parse fails for a missing inner sub-command)")


def build_tree(nodes, default_env, dcf=None):
    from jsonargparse import ActionConfigFile, ArgumentParser

    by_path = {tuple(n["path"]): n for n in nodes}

    def mk(path, root=False):
        kw = {"env_prefix": "APP", "default_env": default_env, "default_config_files": [dcf] if dcf else None} if root else {}
        p = ArgumentParser(exit_on_error=False, **kw)
        p.add_argument("--cfg", action=ActionConfigFile)   # every parser of the tree has its own config argument
        p.add_argument("--x", type=int, default=0)
        return p

    def fill(parser, path):
        n = by_path[path]
        if n["ch"]:
            sc = parser.add_subcommands(required=n["req"])
            for name in n["ch"]:
                sub = mk(path + (name,))
                sc.add_subcommand(name, sub)
                fill(sub, path + (name,))

    root = mk((), root=True)
    fill(root, ())
    return root


def cfg_obj(inp):
    root: dict = {}

    def at(path):
        cur = root
        for n in path:
            cur = cur.setdefault(n, {})
        return cur

    for p in sorted(inp["csec"], key=len):
        at(p)["x"] = 2
    for p, name in inp["csel"]:
        if name != "-":
            at(p)["subcommand"] = name
    return root


def env_of(inp):
    env = {}
    if not inp["env"]:
        return env
    for p in inp["eopt"]:
        env["APP_" + "".join(n.upper() + "__" for n in p) + "X"] = "1"
    for p, name in inp["esel"]:
        if name != "-":
            env["APP_" + "".join(n.upper() + "__" for n in p) + "SUBCOMMAND"] = name
    return env


def _unmark(k):
    from jsonargparse._namespace import del_clash_mark

    return del_clash_mark(k)


def alpha(cfg, nodes):
    by_path = {tuple(n["path"]): n for n in nodes}
    levels = []
    path = ()
    cur = cfg
    from jsonargparse import Namespace

    while True:
        n = by_path[path]
        x = cur.get("x")
        chosen = cur.get("subcommand") if n["ch"] else None
        sections = [name for name in n["ch"] if isinstance(cur.get(name), Namespace)]
        extra = sorted(k for k in (_unmark(k) for k in vars(cur)) if k not in ("x", "cfg", "subcommand", "__default_config__") and k not in n["ch"])
        levels.append({"x": x if type(x) is int else -1, "chosen": chosen if isinstance(chosen, str) else "-", "sections": sorted(sections) + ["?" + e for e in extra]})
        if not n["ch"] or not isinstance(chosen, str) or chosen not in n["ch"] or not isinstance(cur.get(chosen), Namespace):
            break
        cur = cur[chosen]
        path = path + (chosen,)
    return levels


# sub-command names that coincide with attributes of Namespace: the selection code must treat them like any other name
CLASH = {"a": "get", "b": "items", "c": "keys", "d": "update", "e": "pop", "f": "values", "g": "clone", "h": "as_dict"}
CLASH_INV = {v: k for k, v in CLASH.items()}


def _ren(x, table):
    if isinstance(x, str):
        return table.get(x, x)
    if isinstance(x, list):
        return [_ren(y, table) for y in x]
    if isinstance(x, dict):
        return {k: _ren(v, table) for k, v in x.items()}
    return x


def run_case(case):
    """every other block of six variants runs the case with the sub-commands RENAMED to clash names (get, items, ...)"""
    if (case["variant"] // 6) % 2 == 1:
        ren = dict(case, nodes=[dict(n, path=_ren(n["path"], CLASH), ch=_ren(n["ch"], CLASH)) for n in case["nodes"]],
                   input=dict(case["input"], argv=_ren(case["input"]["argv"], CLASH), csel=_ren(case["input"]["csel"], CLASH), csec=_ren(case["input"]["csec"], CLASH),
                              esel=_ren(case["input"]["esel"], CLASH), eopt=_ren(case["input"]["eopt"], CLASH)))
        r = _run_case(ren)
        r["levels"] = [dict(l, chosen=CLASH_INV.get(l["chosen"], l["chosen"]), sections=sorted(("?" + CLASH_INV.get(x[1:], x[1:])) if x.startswith("?") else CLASH_INV.get(x, x) for x in l["sections"]))
                       for l in r["levels"]]
        r["renamed"] = True
        return r
    return _run_case(case)


def _run_case(case):
    from jsonargparse import ArgumentError

    warnings.simplefilter("ignore")
    nodes, inp, variant = case["nodes"], case["input"], case["variant"]
    tmp = tempfile.mkdtemp(prefix="verif-sub-")
    saved = dict(os.environ)
    try:
        for k in list(os.environ):
            if k.startswith("APP_") or (k.startswith("JSONARGPARSE_") and k != common.GUARD):
                del os.environ[k]
        env = env_of(inp)
        obj = cfg_obj(inp)
        # three ways of switching the environment on: constructor argument, the default_env property set AFTER the
        # whole tree has been built, or JSONARGPARSE_DEFAULT_ENV
        how = (variant // 2) % 3 if inp["env"] else 0
        if inp["env"] and how == 2:
            os.environ["JSONARGPARSE_DEFAULT_ENV"] = "true"  # read by the default_env setter, i.e. when parsers are built
        dcf_file = None
        if inp.get("dcf") and obj:
            dcf_file = os.path.join(tmp, "defaults.json")
            with open(dcf_file, "w") as fh:
                json.dump(obj, fh)
        parser = build_tree(nodes, default_env=inp["env"] and how == 0, dcf=dcf_file)
        if inp["env"] and how == 1:
            parser.default_env = True
        argv = []
        if not inp["strict"] and obj and not inp.get("dcf"):
            if variant % 2 == 0:
                argv.append("--cfg=" + json.dumps(obj))
            else:
                f = os.path.join(tmp, "c.json")
                with open(f, "w") as fh:
                    json.dump(obj, fh)
                argv += ["--cfg", f]
        for lvl in range(len(inp["argv"]) + 1):
            if lvl in inp.get("icfg", []):
                argv.append('--cfg={"x": 4}')
            if lvl in inp["aopt"]:
                argv.append("--x=3")
            if lvl < len(inp["argv"]):
                argv.append(inp["argv"][lvl])
        try:
            if inp["strict"]:
                os.environ.update(env)
                if variant % 2 == 0:
                    call = f"parse_object({obj!r})"
                    cfg = parser.parse_object(obj)
                else:
                    call = f"parse_string({json.dumps(obj)!r})"
                    cfg = parser.parse_string(json.dumps(obj))
            elif inp["env"] and not argv and variant % 3 == 0:
                call = f"parse_env({env!r})"
                cfg = parser.parse_env(env)
            else:
                os.environ.update(env)
                call = f"parse_args({argv!r})"
                cfg = parser.parse_args(argv)
        except ArgumentError as ex:
            return {"err": True, "levels": [], "call": call, "env": env, "msg": str(ex)[:200]}
        except SystemExit as ex:
            return {"err": True, "levels": [], "call": call, "env": env, "msg": f"exit {ex.code}", "escaped": "SystemExit"}
        except Exception as ex:
            return {"err": True, "levels": [], "call": call, "env": env, "msg": f"{type(ex).__name__}: {ex}"[:200], "escaped": type(ex).__name__}
        return {"err": False, "levels": alpha(cfg, nodes), "call": call, "env": env}
    finally:
        os.environ.clear()
        os.environ.update(saved)
        shutil.rmtree(tmp, ignore_errors=True)


# ---------------------------------------------------------------- random trees and inputs
def random_tree(rnd):
    names = iter("abcdefghijklmnopqrstuvwxyz")
    nodes = []

    def grow(path, depth):
        nch = 0 if depth == 3 else rnd.choice([0, 1, 2, 2, 3, 4] if depth else [1, 2, 3, 4])
        ch = [next(names) for _ in range(nch)]
        nodes.append({"path": list(path), "req": rnd.random() < 0.6, "ch": ch})
        for c in ch:
            if len(nodes) < 14:
                grow(path + [c], depth + 1)
            else:
                nodes.append({"path": list(path + [c]), "req": False, "ch": []})

    grow([], 0)
    return nodes


def random_input(rnd, nodes):
    by_path = {tuple(n["path"]): n for n in nodes}
    inner = [p for p, n in by_path.items() if n["ch"]]
    strict = rnd.random() < 0.35
    argv = []
    if not strict:
        p = ()
        while by_path[p]["ch"] and rnd.random() < 0.6:
            c = rnd.choice(by_path[p]["ch"])
            argv.append(c)
            p = p + (c,)
    aopt = [l for l in range(len(argv) + 1) if rnd.random() < 0.4]
    csec = set()
    for p in by_path:
        if rnd.random() < 0.35:
            for j in range(1, len(p) + 1):
                csec.add(p[:j])
            if not p:
                csec.add(())
    csel = []
    for p in inner:
        name = "-"
        if (p == () or p in csec) and rnd.random() < 0.35:
            name = rnd.choice(by_path[p]["ch"])
        csel.append([list(p), name])
    env = rnd.random() < 0.5
    esel, chain_ok = [], {(): True}
    named = {}
    for p in sorted(inner, key=len):
        name = "-"
        ok = p == () or (named.get(p[:-1]) == p[-1])
        if env and ok and rnd.random() < 0.5:
            name = rnd.choice(by_path[p]["ch"])
        named[p] = name
        esel.append([list(p), name])
    eopt = [list(p) for p in by_path if env and rnd.random() < 0.4]
    if strict:
        aopt = []
    return {"argv": argv, "aopt": aopt, "csel": csel, "csec": [list(p) for p in sorted(csec)], "env": env, "esel": esel, "eopt": eopt, "strict": strict,
            "dcf": (not strict) and rnd.random() < 0.3, "icfg": [l for l in range(1, len(argv) + 1) if rnd.random() < 0.3]}


RAW_MOD = {"T1": 1, "T2": 4, "T3": 8}


def judge_model_case(rep, c, r):
    rep.traces += 1
    ref = {"err": c["ref"]["err"], "levels": [{"x": l["x"], "chosen": l["chosen"], "sections": sorted(l["sections"])} for l in c["ref"]["levels"]]}
    seen = {"err": r["err"], "levels": r["levels"]}
    if not ref["err"] and len(ref["levels"]) > 1:
        rep.note_nontrivial(c["tree"] + json.dumps(c["input"], sort_keys=True))
    if seen == ref and not r.get("escaped"):
        if rep.traces % 4001 == 1:
            rep.sample({"tree": c["tree"], "input": c["input"], "call": r["call"], "env": r["env"], "expected": ref, "observed": seen})
        return
    case = {"tree": c["tree"], "nodes": c["nodes"], "input": c["input"], "call": r["call"], "env": r["env"], "expected": ref, "observed": seen, "message": r.get("msg")}
    alg = {"err": c["alg"]["err"], "levels": [{"x": l["x"], "chosen": l["chosen"], "sections": sorted(l["sections"])} for l in c["alg"]["levels"]]}
    if seen == ref and not r.get("escaped"):
        return
    if r.get("escaped"):   # an exception other than ArgumentError is never part of a recorded finding
        rep.violation(f"escaped:{r['escaped']}", f"{r['escaped']} escaped from a parse with sub-commands", case)
    elif c["dcfdev"] and not c["dcfopaque"]:
        # a default config file with sub-command content, environment off and no deep loss: transcribed (DcfLoaded / AlgSelectDcf of
        # Subcommands.tla). A recorded finding only when the real code behaves exactly as that transcription.
        ad = _norm(c["algdcf"])
        if seen == ad:
            rep.violation("dcf:first-section-only" if c["dcffirst"] else "dcf:cfgkey-names-other", DCFFIRST if c["dcffirst"] else DCFKEY, case)
        else:
            rep.violation("dcf:" + _key(c["input"], ref, seen), _what(ref, seen), case)
    elif c["dcfdev"]:
        # environment on / deep content pruned: the excused input class of finding dcf:subcommand-settings; what the real code did there is
        # classified for the evidence file (the class is not transcribed: see DESIGN.md I.5, C17-r3m2)
        ac = c.get("algcfg")
        kind = ("as-the-file-alone-decides" if seen == _norm(c["algdcf"]) else "as-a-later-config" if ac and seen == _norm(ac)
                else "nested-key-error" if seen["err"] and "does not accept nested key" in (r.get("msg") or "") else "other-error" if seen["err"] else "other-result")
        d = rep.extra.setdefault("dcf_env_class_outcomes", {})
        d[kind] = d.get(kind, 0) + 1
        rep.violation("dcf:subcommand-settings", DCFDEV, case)
    elif c["dev"] and seen == alg:
        rep.violation("cfgkey-names-other:settings-dropped", DEV, case)
    else:
        rep.violation(_key(c["input"], ref, seen), _what(ref, seen), case)


def main(argv):
    tier = "thorough" if (argv and argv[0] == "thorough") else "quick"
    rep = Report(PID, tier)
    rnd = common.rng(PID)
    rep.assumptions = [
        "every parser of a tree has one option x (int) and the key 'subcommand'; values are source tags 0 default / 1 environment / 2 config / 3 command line",
        "environment variables of a sub-command are only rendered below a sub-command that the environment names (they are not read otherwise); an explicit 'subcommand' key is rendered inside its section",
        "aliases, sub-command specific config options and default config files at inner levels are not part of the instance",
    ]
    treedefs = {}
    n_cases = 0
    for t in (("T1", "T2") if tier == "quick" else ("T1", "T2", "T3")):   # the three-level tree is model-checked in the thorough tier; quick reaches depth 3 through the random trees
        cfgname = f"MC_Subcommands_{tier}_{t}"
        # thorough: the instances print millions of behaviours -- all of them are model-checked, a deterministic sample
        # (1 in RAW_MOD, chosen by a digest of the record) is replayed on the real code
        raw = 0 if tier == "quick" else RAW_MOD[t]
        mc = tlc.run("MC_Subcommands", cfgname, workers=16, timeout=6000, heap="12g", raw_mod=raw, raw_keep='\\"treedef\\"')
        rep.add_tlc(cfgname, mc)
        if mc.errors:
            if mc.violated:
                rep.violation("model:" + ",".join(mc.violated) + ":" + t, f"TLC: {mc.violated} violated in MC_Subcommands ({t})", {"tlc_errors": mc.errors, "counterexample": mc.cex[:5000]})
                continue
            machinery_failure(PID, f"TLC failed on {cfgname}:\n" + mc.stdout[-3000:])
        if raw:
            td = [json.loads(s) for s in mc.printed if isinstance(s, str) and '"treedef"' in s]
            got_texts = [s for s in mc.printed if isinstance(s, str) and '"input"' in s and '"treedef"' not in s]
            rep.extra[f"behaviours_model_checked_{t}"] = mc.printed_total - len(td)
        else:
            td = [p for p in mc.printed if isinstance(p, dict) and "treedef" in p]
            got_texts = [json.dumps({"input": c["input"], "ref": c["ref"], "alg": c["alg"], "dev": c["dev"], "dcfdev": c["dcfdev"], "algcfg": c.get("algcfg"), "algdcf": c.get("algdcf"), "dcffirst": c.get("dcffirst"), "dcfopaque": c.get("dcfopaque")}, sort_keys=True, separators=(",", ":"))
                         for c in mc.printed if isinstance(c, dict) and "input" in c]
        if not td or not got_texts:
            machinery_failure(PID, f"{cfgname}: nothing emitted")
        treedefs[t] = td[0]["nodes"]
        # the cases of one tree are kept as compact JSON text and replayed in slices (the thorough instance of the
        # three-level tree has millions of behaviours: decoded all at once they do not fit into memory)
        texts = sorted(got_texts)
        rep.extra[f"behaviours_{t}"] = len(texts)
        mc.printed, mc.stdout = [], ""
        del got_texts, mc
        stride = 1 if (tier == "thorough" or t == "T1") else 3
        texts = [(n, s) for n, s in enumerate(texts) if n % stride == 0]
        for lo in range(0, len(texts), 40000):
            cases = [dict(json.loads(s), nodes=treedefs[t], variant=n, tree=t) for n, s in texts[lo:lo + 40000]]
            results = pipeline.run_many(run_case, cases, chunksize=32)
            n_cases += len(cases)
            for c, r in zip(cases, results):
                judge_model_case(rep, c, r)
            del cases, results
        del texts
    rep.extra["model_cases_replayed"] = n_cases

    # ---- TRACE: random trees
    ntr = 1000 if tier == "quick" else 20000
    rcases = []
    for n in range(ntr):
        nodes = random_tree(rnd)
        rcases.append({"nodes": nodes, "input": random_input(rnd, nodes), "variant": rnd.randint(0, 11)})
    rres = pipeline.run_many(run_case, rcases, chunksize=32)
    tmp = common.scratch("c17")
    try:
        f = tmp / "cases.json"
        f.write_text(json.dumps([{"nodes": c["nodes"], "input": c["input"], "obs": {"err": r["err"], "levels": r["levels"]}} for c, r in zip(rcases, rres)]))
        tr = tlc.run("Trace_Subcommands", "Trace_Subcommands", workers=16, env={"TRACE_FILE": str(f)}, timeout=3000, heap="12g")
        rep.add_tlc("Trace_Subcommands", tr)
        if tr.errors or tr.distinct != len(rcases):
            machinery_failure(PID, f"trace validation failed (distinct={tr.distinct}, expected {len(rcases)}):\n" + tr.stdout[-3000:])
        rej = {}
        for p in tr.printed:
            if isinstance(p, list) and p and p[0] == "R":
                rej.setdefault(p[2], []).append(p[3])
        for c, r in zip(rcases, rres):
            if r.get("escaped") and not _dcfdev(c["input"]):
                rep.violation(f"escaped:{r['escaped']}", f"{r['escaped']} escaped from a parse with sub-commands", {"nodes": c["nodes"], "input": c["input"], "call": r["call"], "message": r.get("msg")})
        for idx, clauses in sorted(rej.items()):
            c, r = rcases[idx - 1], rres[idx - 1]
            case = {"nodes": c["nodes"], "input": c["input"], "call": r["call"], "env": r["env"], "observed": {"err": r["err"], "levels": r["levels"]}, "message": r.get("msg"), "failed_clauses": clauses}
            if "ref-dcf" in clauses:
                rep.violation("dcf:subcommand-settings", DCFDEV, case)
            elif "ref-dcf-first" in clauses:
                rep.violation("dcf:first-section-only", DCFFIRST, case)
            elif "ref-dcf-key" in clauses:
                rep.violation("dcf:cfgkey-names-other", DCFKEY, case)
            elif "ref-dev-as-alg" in clauses:
                rep.violation("cfgkey-names-other:settings-dropped", DEV, case)
            elif "ref" in clauses:
                rep.violation("random:" + _key(c["input"], None, {"err": r["err"], "levels": r["levels"]}), "random tree: the observed selection / key set is not the documented one", case)
            else:
                rep.add_drift("random tree: real = Select but not the Alg transcription", case)
        rep.traces += len(rcases)
        for c, r in zip(rcases, rres):
            if not r["err"] and len(r["levels"]) > 1:
                rep.note_nontrivial(json.dumps([c["nodes"], c["input"]], sort_keys=True))
        rep.sample({"random_tree": rcases[0]["nodes"], "input": rcases[0]["input"], "call": rres[0]["call"], "observed": {"err": rres[0]["err"], "levels": rres[0]["levels"]}})
    finally:
        common.rm(tmp)
    rep.evaluations = rep.traces
    rep.rule = ("cases = (tree, input) pairs: TLC's behaviours for three fixed trees plus random trees/inputs; non-trivial & distinct = distinct pairs whose parse succeeds "
                "and actually selects a sub-command (at least two levels in the result)")
    rep.exhaustive = False
    rep.explanation = (f"{n_cases} of TLC's behaviours (T1/T2 complete, T2 {'complete' if tier == 'thorough' else 'every 3rd'}, T3 {'complete' if tier == 'thorough' else 'thorough tier only'}) replayed on real parser trees; "
                       f"{len(rcases)} random (tree, input) pairs validated by TLC against Trace_Subcommands. Exhaustive w.r.t. the three fixed trees and the input grammar of MC_Subcommands only.")
    return rep.finish()


def _norm(res):
    return {"err": res["err"], "levels": [{"x": l["x"], "chosen": l["chosen"], "sections": sorted(l["sections"])} for l in res["levels"]]}


def _dcfdev(inp):
    return bool(inp.get("dcf")) and (any(n != "-" for _, n in inp["csel"]) or any(p for p in inp["csec"]))


def _key(inp, ref, seen):
    src = []
    if inp["argv"]:
        src.append("argv")
    if any(n != "-" for _, n in inp["csel"]):
        src.append("cfgkey")
    if [p for p in inp["csec"] if p]:
        src.append("cfgsec")
    if inp["env"] and any(n != "-" for _, n in inp["esel"]):
        src.append("envkey")
    how = "strict" if inp["strict"] else "args"
    if ref is None:
        kind = "err" if seen["err"] else f"levels{len(seen['levels'])}"
    elif ref["err"] != seen["err"]:
        kind = "rejected-but-should-select" if seen["err"] else "accepted-but-none-selectable"
    else:
        lv = next((j for j, (a, b) in enumerate(zip(ref["levels"], seen["levels"])) if a != b), min(len(ref["levels"]), len(seen["levels"])))
        a = ref["levels"][lv] if lv < len(ref["levels"]) else {}
        b = seen["levels"][lv] if lv < len(seen["levels"]) else {}
        kind = f"level{lv}:" + ("chosen" if a.get("chosen") != b.get("chosen") else "sections" if a.get("sections") != b.get("sections") else "value" if a.get("x") != b.get("x") else "depth")
    return f"{how}:{'+'.join(src) or 'nothing'}:{kind}"


def _what(ref, seen):
    if ref["err"] != seen["err"]:
        return "parse was rejected although a sub-command is selectable" if seen["err"] else "parse succeeded although no sub-command can be determined and one is required"
    return f"selected path / key set / values differ: expected {ref['levels']}, observed {seen['levels']}"


if __name__ == "__main__":
    args = sys.argv[1:]
    if args and args[0] == "--replay":
        print(open(args[1]).read())
        sys.exit(0)
    sys.exit(main(args))
