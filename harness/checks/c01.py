"""C01 — a dumped configuration re-parses to the same configuration.

  MC      tlc MC_Scalars: every text over a hazard alphabet up to a length (+ whole-word spellings, + the float
          spellings of both dumpers); invariants StrRoundTripModuloKnown / DeviationsAreReal / OnlyFloatDiffers /
          TimestampSafe / IntRoundTrip / YamlFloat / JsonFloatModuloKnown; TLC prints every text that violates the
          plain law (the families it FINDS) and its prediction for every text whose prediction is not the default.
          tlc MC_Dump: type terms x input trees x formats; invariant RoundTripModuloKnown etc.; emits every case.
  REPLAY  (spec -> code) every enumerated text goes through the real yaml_dump / yaml_load / resolvers / load_basic /
          load_value (round-trip failure = verdict, Alg predictions = drift); every emitted (type, input, format)
          case goes through a real parser on three routes (dump -> parse_string, --print_config -> file -> --config,
          save -> parse_path) and with skip_default.
  TRACE   (code -> spec) hypothesis-driven texts / floats / (type, value) cases / parser shapes beyond the bounds are
          run on the real code, recorded, and validated by TLC against Trace_Scalars / Trace_Dump.
"""
from __future__ import annotations

import io
import itertools
import json
import math
import multiprocessing as mp
import os
import re
import sys

from ..lib import common, tlc
from ..lib.evidence import Report, machinery_failure

common.check_repo_import()
import yaml  # noqa: E402
from jsonargparse._common import parser_context  # noqa: E402
from jsonargparse import _loaders_dumpers as _ld  # noqa: E402

PID = "C01"
DEV_WORKERS = int(os.environ.get("VERIF_TLC_WORKERS", "16"))
DEV_HEAP = os.environ.get("VERIF_TLC_HEAP", "8g")
NPROC = int(os.environ.get("VERIF_PROCS", "16"))
# the recursive operators of the specs go one level deeper per character of a text: a 130-character str overflows the default
# Java thread stack; _JAVA_OPTIONS is the one JVM option channel that harness/lib/tlc.py leaves open
JVM_ENV = {"_JAVA_OPTIONS": "-Xss64m"}
PARTS = os.environ.get("VERIF_C01_PARTS", "scalars,dump,hyp,modes").split(",")  # development aid: run a part only

# ---------------------------------------------------------------- symbols <-> characters (alpha_char / gamma_char)
NAMED = {"\n": "LF", "\t": "TAB", "\r": "CR", "\0": "NUL", "\x85": "NEL", "\u2028": "LS", "\u2029": "PS", "\ufeff": "BOM"}
GAMMA = {v: k for k, v in NAMED.items()}
GAMMA.update({"UNI": "\u00e9", "UDIG": "\u0663", "USP": "\u00a0", "CSP": "\x0b", "CTL": "\x01", "NPR": "\x7f"})


def sym(ch: str) -> str:
    """alpha_char: one character -> one symbol of Scalars.tla"""
    if " " <= ch <= "~":
        return ch
    if ch in NAMED:
        return NAMED[ch]
    if ("\xa0" <= ch <= "\ud7ff") or ("\ue000" <= ch <= "\ufffd") or ("\U00010000" <= ch < "\U0010ffff"):
        if ch.isdigit():
            return "UDIG"
        if ch.isspace():
            return "USP"
        return "UNI"
    if ch < " ":
        return "CSP" if ch.isspace() else "CTL"
    return "NPR"


def syms(text: str) -> list:
    return [sym(c) for c in text]


def unsym(symbols) -> str:
    return "".join(GAMMA.get(s, s) for s in symbols)


# ---------------------------------------------------------------- observing the real code on one text
_LOADER = None
_DUMPER = None


def _tag(t: str) -> str:
    return t.rsplit(":", 1)[-1]


def kind_of(v) -> str:
    if v is None:
        return "null"
    if isinstance(v, bool):
        return "bool"
    if isinstance(v, int):
        return "int"
    if isinstance(v, float):
        return "float"
    if isinstance(v, str):
        return "str"
    return "doc"


def _style_of_value(doc: str, where: str) -> str:
    node = yaml.compose(doc, Loader=yaml.SafeLoader)
    k, v = node.value[0]
    n = k if where == "key" else (v.value[0] if where == "item" else v)
    return {None: "plain", "": "plain", "'": "single", '"': "double"}.get(n.style, "other")


def observe_text(s: str) -> dict:
    """everything the real code does with the str `s` that Scalars.tla talks about"""
    global _LOADER, _DUMPER
    if _LOADER is None:
        _LOADER = _ld.get_yaml_default_loader()("")
        # the dumper class yaml_dump hands to PyYAML (get_yaml_default_dumper since the repair f3cd0b1; a tree that
        # lacks it dumps with the stock yaml.SafeDumper)
        get_dumper = getattr(_ld, "get_yaml_default_dumper", None)
        _DUMPER = (get_dumper() if get_dumper else yaml.SafeDumper)(io.StringIO())
    o = {"s": syms(s)}
    o["d"] = _tag(_DUMPER.resolve(yaml.ScalarNode, s, (True, False)))
    o["l"] = _tag(_LOADER.resolve(yaml.ScalarNode, s, (True, False)))
    doc = _ld.yaml_dump({"k": s})
    try:
        o["style"] = _style_of_value(doc, "value")
    except Exception:
        o["style"] = "unreadable"
    o["rt"] = []
    try:
        back = _ld.yaml_load(doc)["k"]
        o["rk"] = kind_of(back)
        o["same"] = type(back) is str and back == s
        if type(back) is str:
            o["rt"] = syms(back)
    except Exception as ex:  # the class is not compared
        o["rk"], o["same"] = "error", False
        o["exc"] = type(ex).__name__
    kdoc = _ld.yaml_dump({s: 1})
    try:
        o["kstyle"] = _style_of_value(kdoc, "key")
    except Exception:
        o["kstyle"] = "unreadable"
    try:
        back = _ld.yaml_load(kdoc)
        o["ksame"] = type(back) is dict and list(back) == [s] and type(list(back)[0]) is str
    except Exception:
        o["ksame"] = False
    try:
        back = _ld.yaml_load(_ld.yaml_dump({"k": [s]}))["k"][0]
        o["lsame"] = type(back) is str and back == s
    except Exception:
        o["lsame"] = False
    o["jrt"] = []
    try:
        back = _ld.yaml_load(_ld.json_compact_dump({"k": s}))["k"]
        o["jrk"] = kind_of(back)
        o["jsame"] = type(back) is str and back == s
        if type(back) is str:
            o["jrt"] = syms(back)
    except Exception:
        o["jrk"], o["jsame"] = "error", False
    try:
        back = _ld.yaml_load(_ld.json_compact_dump({s: 1}))
        o["jksame"] = type(back) is dict and list(back) == [s] and type(list(back)[0]) is str
    except Exception:
        o["jksame"] = False
    try:
        b = _ld.load_basic(s)
        o["b"] = "notloaded" if b is _ld.not_loaded else kind_of(b)
    except Exception:
        o["b"] = "error"
    for name, simple in (("lv", False), ("lvs", True)):
        try:
            with parser_context(load_value_mode="yaml"):
                v = _ld.load_value(s, simple_types=simple)
            o[name] = kind_of(v)
        except Exception:
            o[name] = "error"
    return o


DEFAULT_PRED = ["str", "str", "plain", "str", "none", "notloaded", "str", "str", "str", "none", "str", "none"]
PRED_NAMES = ["dumper-tag", "loader-tag", "style", "readback", "deviation", "load_basic", "load_value", "load_value-simple", "json-readback", "json-deviation",
              "json-key-readback", "json-key-deviation"]


def _observe_chunk(args):
    """worker: observe a chunk of texts, return only what differs from the default observation + the failures"""
    chunk = args
    out = []
    for symbols in chunk:
        s = unsym(symbols)
        o = observe_text(s)
        seen = [o["d"], o["l"], o["style"], o["rk"], "none", o["b"], o["lv"], o["lvs"], o["jrk"], "none", "str" if o["jksame"] else "error", "none"]
        ok = (o["same"] and o["lsame"] and o["ksame"], o["jsame"], o["jksame"])
        if seen != DEFAULT_PRED or ok != (True, True, True) or o["kstyle"] != o["style"]:
            out.append((tuple(symbols), seen, ok, o))
    return len(chunk), out


def enumerate_texts(params) -> list:
    """the texts of the MC_Scalars instance, enumerated independently of TLC (same closure as Init/Next)"""
    alphabet = sorted(params["alphabet"])
    alpha_set = set(alphabet)
    maxlen, wordgrow = params["maxlen"], params["wordgrow"]
    words = {tuple(w) for w in params["words"]}
    seen = set(words) | {()}
    frontier = list(seen)
    while frontier:
        nxt = []
        for t in frontier:
            if (len(t) < maxlen and all(c in alpha_set for c in t)) or (wordgrow and t in words):
                for c in alphabet:
                    u = t + (c,)
                    if u not in seen:
                        seen.add(u)
                        nxt.append(u)
        frontier = nxt
    return sorted(seen)


def float_same(a, b) -> bool:
    if not isinstance(b, float) or isinstance(b, bool):
        return False
    if math.isnan(a):
        return math.isnan(b)
    return a == b and math.copysign(1.0, a) == math.copysign(1.0, b)


def observe_float(x: float) -> dict:
    r = repr(x)
    ydoc = _ld.yaml_dump({"k": x})
    jdoc = _ld.json_compact_dump({"k": x})
    node = yaml.compose(ydoc, Loader=yaml.SafeLoader)
    ytext = node.value[0][1].value
    jtext = jdoc[len('{"k":'):-1]
    o = {"r": list(r), "y": list(ytext), "j": list(jtext)}
    for name, doc in (("ysame", ydoc), ("jsame", jdoc)):
        try:
            o[name] = float_same(x, _ld.yaml_load(doc)["k"])
        except Exception:
            o[name] = False
    return o


# ---------------------------------------------------------------- scalar level: MC + replay
def scalar_level(rep: Report, tier: str, tmp, mc) -> None:
    cfgname = f"MC_Scalars_{tier}"
    rep.add_tlc(cfgname, mc)
    if mc.errors:
        if mc.violated:
            rep.violation("model:scalars:" + ",".join(mc.violated),
                          f"TLC: invariant {mc.violated} violated in MC_Scalars: a text outside the named deviation families breaks "
                          "the round trip in the model (or a named family contains a text that does not fail)",
                          {"tlc_errors": mc.errors, "counterexample": mc.cex[:4000]})
        else:
            machinery_failure(PID, "TLC failed on MC_Scalars:\n" + mc.stdout[-3000:])
    params = [p for p in mc.printed if isinstance(p, dict) and "alphabet" in p]
    if len(params) != 1:
        machinery_failure(PID, "MC_Scalars did not print its instance parameters")
    params = params[0]
    texts = enumerate_texts(params)
    if not mc.errors and len(texts) + len(params["freprs"]) != mc.distinct:
        machinery_failure(PID, f"the harness enumerates {len(texts)} texts + {len(params['freprs'])} floats, TLC found {mc.distinct} states")
    pred = {}
    cex = {}
    basic = []
    fl = []
    for p in mc.printed:
        if not isinstance(p, list) or not p:
            continue
        if p[0] == "T":
            pred[tuple(p[1])] = p[2:]
        elif p[0] == "CEX":
            cex[(p[1], tuple(p[2]))] = p[3]
        elif p[0] == "BASIC":
            basic.append(p[1:])
        elif p[0] == "F":
            fl.append(p[1:])
    rep.extra["scalars_model"] = {
        "texts": len(texts), "alphabet": "".join(sorted(params["alphabet"])), "maxlen": params["maxlen"],
        "fixed_words": len(params["words"]), "texts_with_non_default_prediction": len(pred),
        "texts_violating_plain_law_found_by_TLC": sum(1 for k in cex if k[0] == "text"),
        "families_found_by_TLC": sorted(set(cex.values())),
        "load_basic_disagrees_with_loader_in_model": len(basic),
    }
    # the model must FIND the known family (non-vacuity of the law and of the named deviations)
    # (the float families 1e3 / ._1 were the exemplars until they were repaired by f3cd0b1; the NEL family remains)
    must = [("a", "NEL", "b"), ("a", "NEL", "NEL", "b")]
    missing = [m for m in must if ("text", m) not in cex]
    if missing:
        machinery_failure(PID, f"TLC did not report {missing} as violating the plain round-trip law: the model lost the known family")
    # ... and the repaired float families must be in the instance, predicted QUOTED and read back as themselves
    repaired = [tuple("1e3"), tuple("1E3"), tuple("1e+3"), tuple("1.e3"), tuple("-9e1"), tuple("._1")]
    bad = [m for m in repaired if m not in pred or pred[m][PRED_NAMES.index("style")] == "plain" or pred[m][PRED_NAMES.index("deviation")] != "none"
           or pred[m][PRED_NAMES.index("dumper-tag")] != "float" or ("text", m) in cex]
    if bad:
        machinery_failure(PID, f"the model does not predict {bad} as quoted by the repaired dumper (f3cd0b1): {[pred.get(m) for m in bad]}")

    # ---- replay: every enumerated text on the real code
    chunks = [texts[i:i + 4000] for i in range(0, len(texts), 4000)]
    n = 0
    observed = {}
    with mp.get_context("fork").Pool(min(NPROC, max(1, len(chunks)))) as pool:
        for cnt, out in pool.imap_unordered(_observe_chunk, chunks):
            n += cnt
            for symbols, seen, ok, o in out:
                observed[symbols] = (seen, ok, o)
    if n != len(texts):
        machinery_failure(PID, f"observed {n} of {len(texts)} texts")
    rep.traces += n
    rep.evaluations += n
    names = PRED_NAMES
    for symbols in sorted(set(pred) | set(observed)):
        p = pred.get(symbols, DEFAULT_PRED)
        seen, (ok, jok, jkok), o = observed.get(symbols, (DEFAULT_PRED, (True, True, True), None))
        text = unsym(symbols)
        rep.note_nontrivial("text:" + json.dumps(symbols))
        case = {"text": text, "symbols": list(symbols), "predicted": dict(zip(names, p)), "observed": o,
                "python": f"from jsonargparse._loaders_dumpers import yaml_dump, yaml_load; yaml_load(yaml_dump({{'k': {text!r}}}))['k']"}
        dev = p[4]
        if not ok:
            if dev != "none" and seen[3] == p[3]:
                rep.violation(f"str-roundtrip:{dev}", f"str {text!r} is not read back as the same str", case)
            else:
                rep.violation(f"str-roundtrip:other:{text!r}"[:120], f"str {text!r} is not read back as the same str (outside the named deviations)", case)
        elif dev != "none":
            rep.add_drift(f"the model predicts a round-trip failure ({dev}) that the real code does not show", case)
        jdev = p[9]
        if not jok:
            if jdev != "none" and seen[8] == p[8]:
                rep.violation(f"str-roundtrip:{jdev}", f"str {text!r} written by the json dumper is not read back as the same str", case)
            else:
                rep.violation(f"str-roundtrip:json:other:{text!r}"[:120], f"str {text!r} written by the json dumper is not read back as the same str (outside the named deviations)", case)
        elif jdev != "none":
            rep.add_drift(f"the model predicts a json round-trip failure ({jdev}) that the real code does not show", case)
        jkdev = p[11]
        if not jkok:
            if jkdev != "none":
                rep.violation(f"str-roundtrip:{jkdev}", f"str {text!r} written by the json dumper as the key of an object is not read back", case)
            else:
                rep.violation(f"str-roundtrip:json-key:other:{text!r}"[:120], f"str {text!r} written by the json dumper as a key is not read back (outside the named deviations)", case)
        elif jkdev != "none":
            rep.add_drift(f"the model predicts a json key failure ({jkdev}) that the real code does not show", case)
        if o is not None and not (o["same"] == o["lsame"] == o["ksame"] and o["style"] == o["kstyle"]):
            rep.add_drift("value, key and item positions do not behave alike", case)
        for j, nm in enumerate(names):
            if j in (4, 9, 11) or p[j] in ("unsure", "doc"):
                continue
            if p[j] != seen[j]:
                rep.add_drift(f"Alg prediction of {nm} differs: predicted {p[j]}, observed {seen[j]}", case)
    k = next((s for s in sorted(pred) if pred[s][4] != "none"), None)
    if k is not None:
        rep.sample({"text": unsym(k), "predicted_by_TLC": dict(zip(names, pred[k])), "observed": observed.get(k, (None, None, None))[2]})
    # ---- the float spellings of both dumpers
    for r, ytext, jtext, yk, jk, jdev in fl:
        x = float("".join(r))
        o = observe_float(x)
        rep.traces += 1
        rep.evaluations += 1
        rep.note_nontrivial("float:" + "".join(r))
        case = {"float": "".join(r), "predicted": {"yaml": "".join(ytext), "json": "".join(jtext), "yaml_kind": yk, "json_kind": jk, "dev": jdev}, "observed": o,
                "python": f"from jsonargparse._loaders_dumpers import json_compact_dump, yaml_load; yaml_load(json_compact_dump({{'k': float('{''.join(r)}')}}))"}
        if not o["ysame"]:
            rep.violation(f"float-roundtrip:yaml:{''.join(r)}", "a float written by the yaml dumper is not read back as the same float", case)
        if not o["jsame"]:
            if jdev != "none" and jk != "float":
                rep.violation(f"float-roundtrip:{jdev}", f"float {''.join(r)} written by the json dumper is not read back as a float", case)
            else:
                rep.violation(f"float-roundtrip:json:{''.join(r)}", "a float written by the json dumper is not read back as the same float", case)
        elif jdev != "none":
            rep.add_drift("the model predicts a json float failure that the real code does not show", case)
        if o["y"] != ytext or o["j"] != jtext:
            rep.add_drift("Alg prediction of the float spelling differs", case)


# ---------------------------------------------------------------- scalar level: hypothesis-driven observations -> Trace_Scalars
def _resolver_patterns():
    pats = []
    get_dumper = getattr(_ld, "get_yaml_default_dumper", None)
    for cls in (yaml.SafeDumper, get_dumper() if get_dumper else yaml.SafeDumper, _ld.get_yaml_default_loader()):
        seen = set()
        for lst in cls.yaml_implicit_resolvers.values():
            for tag, rx in lst:
                if id(rx) not in seen:
                    seen.add(id(rx))
                    pats.append(rx)
    return pats


def hypothesis_texts(n: int, salt: str) -> list:
    from hypothesis import HealthCheck, Phase, given, seed, settings, strategies as st

    rnd = common.rng("c01-texts-" + salt)
    pats = _resolver_patterns()
    hazard = "0123456789_.eE+-:xXbo~=<>!&*#,[]{}?|'\"%@` \n\tabcfnlTtZinfNaA\u00e9\u2028\x85\x01"
    base = st.one_of(
        st.text(max_size=12),
        st.text(alphabet=hazard, max_size=10),
        st.text(alphabet="0123456789_.eE+-:", min_size=1, max_size=9),
        *[st.from_regex(rx, fullmatch=False) for rx in pats],
    )
    out = []

    @settings(max_examples=n, database=None, deadline=None, derandomize=False, phases=[Phase.generate],
              suppress_health_check=list(HealthCheck))
    @seed(common.seed() * 7919 + len(salt))
    @given(base)
    def collect(s):
        out.append(s)

    collect()
    # perturbations of what the resolvers accept: drop / double / swap one character, add a hazard character
    extra = []
    for s in list(out):
        if s and rnd.random() < 0.5:
            i = rnd.randrange(len(s))
            op = rnd.randrange(4)
            if op == 0:
                extra.append(s[:i] + s[i + 1:])
            elif op == 1:
                extra.append(s[:i] + s[i] + s[i:])
            elif op == 2:
                extra.append(s[:i] + rnd.choice(hazard) + s[i:])
            else:
                extra.append(s[:i] + rnd.choice(hazard) + s[i + 1:])
    res, seen = [], set()
    for s in out + extra:
        if len(s) <= 30 and s not in seen and all(not ("\ud800" <= c <= "\udfff") for c in s):
            seen.add(s)
            res.append(s)
    return res


def hypothesis_floats(n: int) -> list:
    from hypothesis import HealthCheck, Phase, given, seed, settings, strategies as st

    out = [float("inf"), float("-inf"), float("nan"), 0.0, -0.0, 1e16, 1e-7, 1e22, 5e-324, 1.7976931348623157e308]

    @settings(max_examples=n, database=None, deadline=None, phases=[Phase.generate], suppress_health_check=list(HealthCheck))
    @seed(common.seed() * 31 + 5)
    @given(st.one_of(st.floats(), st.floats(allow_nan=False, allow_infinity=False, width=32), st.integers(-10**6, 10**6).map(lambda i: i / 64)))
    def collect(x):
        out.append(x)

    collect()
    return out


def _observe_texts_chunk(chunk):
    return [observe_text(s) for s in chunk]


def scalar_traces_observe(tier: str, tmp, texts, floats):
    """run the hypothesis-driven texts / floats on the real code and write the trace file for Trace_Scalars"""
    chunks = [texts[i:i + 500] for i in range(0, len(texts), 500)]
    obs = []
    with mp.get_context("fork").Pool(min(NPROC, max(1, len(chunks)))) as pool:
        for part in pool.map(_observe_texts_chunk, chunks):
            obs += part
    fobs = [observe_float(x) for x in floats]
    recs = [{k: o[k] for k in ("s", "style", "kstyle", "d", "l", "rk", "rt", "same", "ksame", "lsame", "b", "lv", "lvs", "jsame", "jrk", "jrt", "jksame")} for o in obs]
    f = tmp / "scalars_trace.json"
    f.write_text(json.dumps({"texts": recs, "floats": fobs}))
    return f, obs, fobs


def scalar_traces_classify(rep: Report, tr, texts, floats, obs, fobs) -> None:
    rep.add_tlc("Trace_Scalars", tr)
    if tr.errors or tr.distinct != 2 * (len(obs) + len(fobs)):
        machinery_failure(PID, f"Trace_Scalars failed (distinct={tr.distinct}, expected {2 * (len(obs) + len(fobs))}):\n" + tr.stdout[-3000:])
    rep.traces += len(obs) + len(fobs)
    rep.evaluations += len(obs) + len(fobs)
    rep.extra["scalar_traces"] = {"texts": len(obs), "floats": len(fobs)}
    by = {}
    for p in tr.printed:
        if isinstance(p, list) and p and p[0] == "R":
            by.setdefault((p[1], p[2]), []).append(p[3])
    for o in obs:
        if o["d"] != "str" or o["l"] != "str" or o["style"] != "plain" or o["b"] != "notloaded":
            rep.note_nontrivial("text:" + json.dumps(o["s"]))
    for (kind, idx), clauses in sorted(by.items()):
        if kind == "text":
            o, s = obs[idx - 1], texts[idx - 1]
            case = {"text": s, "observed": o, "failed_clauses": clauses,
                    "python": f"from jsonargparse._loaders_dumpers import yaml_dump, yaml_load; yaml_load(yaml_dump({{'k': {s!r}}}))['k']"}
            for c in clauses:
                if c.startswith("ref-dev:"):
                    rep.violation("str-roundtrip:" + c[len("ref-dev:"):], f"str {s!r} is not read back as the same str", case)
                elif c.startswith("ref"):
                    rep.violation(f"str-roundtrip:{'json:' if 'json' in c else ''}other:{s!r}"[:120], f"str {s!r} is not read back as the same str (outside the named deviations)", case)
                else:
                    rep.add_drift(f"{c}: real code agrees with Ref but not with the Alg transcription", case)
        else:
            o, x = fobs[idx - 1], floats[idx - 1]
            case = {"float": repr(x), "observed": o, "failed_clauses": clauses}
            for c in clauses:
                if c.startswith("ref-dev:"):
                    rep.violation("float-roundtrip:" + c[len("ref-dev:"):], f"float {x!r} written by the json dumper is not read back as a float", case)
                elif c.startswith("ref"):
                    rep.violation(f"float-roundtrip:{c}:{x!r}", f"float {x!r} is not read back as the same float", case)
                else:
                    rep.add_drift(f"{c}: real code agrees with Ref but not with the Alg transcription", case)


# ================================================================ type / configuration level (Dump.tla)
import collections  # noqa: E402
import contextlib  # noqa: E402
import copy  # noqa: E402
import dataclasses  # noqa: E402
import enum  # noqa: E402
import typing  # noqa: E402
from typing import Dict, List, Literal, Optional, Set, Tuple, Union  # noqa: E402

from jsonargparse import ActionConfigFile, ArgumentParser, Namespace  # noqa: E402

import datetime  # noqa: E402
import pathlib  # noqa: E402
import uuid  # noqa: E402

_ENUMS: dict = {}
_DCS: dict = {}
# the registered types of jsonargparse/typing.py (:385-468).  A value is identified by what PYTHON prints for it (repr(range),
# str(timedelta / UUID / complex / Path), a plain decimal spelling of a Decimal, the base64 text of bytes computed with the
# standard library) - never by jsonargparse's own serializers, which are what is being checked.
import base64  # noqa: E402
import decimal  # noqa: E402

REG = {"Rpath": pathlib.Path, "Rpathlike": os.PathLike, "Rtd": datetime.timedelta, "Ruuid": uuid.UUID, "Rcomplex": complex, "Rrange": range,
       "Rdec": decimal.Decimal, "Rbytes": bytes, "Rbytearray": bytearray}
RESTRICTED = {"PositiveInt": "int", "NonNegativeInt": "int", "PositiveFloat": "float", "NonNegativeFloat": "float", "ClosedUnitInterval": "float",
              "OpenUnitInterval": "float", "Email": "str"}


def g_restricted(name):
    import jsonargparse.typing as jt

    return getattr(jt, name)


def reg_id(v) -> str:
    if isinstance(v, range):
        return repr(v)
    if isinstance(v, decimal.Decimal):
        if v.is_finite() and v == v.to_integral_value():
            return str(int(v)) if (v != 0 or not v.is_signed()) else "-0"
        if not v.is_finite():
            return str(v)
        s = format(v, "f")  # exact (normalize() would round to the context precision)
        return s.rstrip("0").rstrip(".") if "." in s else s
    if isinstance(v, (bytes, bytearray)):
        return base64.b64encode(bytes(v)).decode()
    return str(v)


def g_reg(name: str, text: str):
    if name == "Rpath":
        return pathlib.Path(text)
    if name == "Rtd":
        m = re.fullmatch(r"(?:(-?\d+) days?, )?(\d+):(\d\d):(\d\d)(?:\.(\d{6}))?", text)
        return datetime.timedelta(days=int(m[1] or 0), hours=int(m[2]), minutes=int(m[3]), seconds=int(m[4]), microseconds=int(m[5] or 0))
    if name == "Ruuid":
        return uuid.UUID(text)
    if name == "Rrange":
        return range(*[int(x) for x in text[len("range("):-1].split(",")])
    if name == "Rdec":
        return decimal.Decimal(text)
    if name == "Rbytes":
        return base64.b64decode(text)
    if name == "Rbytearray":
        return bytearray(base64.b64decode(text))
    return complex(text)


def reg_name(v):
    if isinstance(v, bool):
        return None
    if isinstance(v, pathlib.PurePath):
        return "Rpath"
    if isinstance(v, datetime.timedelta):
        return "Rtd"
    if isinstance(v, uuid.UUID):
        return "Ruuid"
    if isinstance(v, range):
        return "Rrange"
    if isinstance(v, decimal.Decimal):
        return "Rdec"
    if isinstance(v, bytearray):
        return "Rbytearray"
    if isinstance(v, bytes):
        return "Rbytes"
    if isinstance(v, complex):
        return "Rcomplex"
    return None


def T_(c, p=()):
    return {"c": c, "p": list(p)}


def txt(symbols) -> str:
    return unsym(symbols)


def g_enum(names):
    key = tuple(names)
    if key not in _ENUMS:
        _ENUMS[key] = enum.Enum("E" + str(len(_ENUMS)), {n: i + 1 for i, n in enumerate(names)})
    return _ENUMS[key]


def g_scalar(v):
    k = v["k"]
    if k == "str":
        return txt(v["v"])
    if k == "int":
        return int(txt(v["v"]))
    if k == "float":
        return float(txt(v["v"]))
    if k == "bool":
        return txt(v["v"]) == "true"
    if k == "null":
        return None
    if k == "reg":
        return g_reg(v["v"][0], txt(v["v"][1:]))
    raise ValueError(f"not a scalar: {v}")


def g_tree(x):
    """tree -> the python object a loader would return"""
    k = x["k"]
    if k in ("list", "tuple", "set"):
        return [g_tree(e) for e in x["v"]]
    if k in ("dict", "odict"):
        return {g_tree(a): g_tree(b) for a, b in x["v"]}
    if k == "ns":
        return {txt(a): g_tree(b) for a, b in x["v"]}
    if k == "enum":
        return txt(x["v"])
    if k == "reg":
        return txt(x["v"][1:])
    return g_scalar(x)


def g_dc(fields):
    key = json.dumps(fields, sort_keys=True)
    if key not in _DCS:
        spec = []
        for name, ft, dflt in fields:
            if ft["c"] == "dc":  # round 4: a dataclass inside a dataclass; its default is an instance with the inner defaults
                spec.append((txt(name), g_dc(ft["p"]), dataclasses.field(default_factory=g_dc(ft["p"]))))
                continue
            d = g_value(ft, dflt)
            if isinstance(d, (list, dict, set)):
                fld = dataclasses.field(default_factory=lambda d=d: type(d)(d))
            else:
                fld = dataclasses.field(default=d)
            spec.append((txt(name), g_type(ft), fld))
        cls = dataclasses.make_dataclass("DC" + str(len(_DCS)), spec)
        cls.__module__ = __name__
        globals()[cls.__name__] = cls
        _DCS[key] = cls
        _DC_FIELDS[cls] = fields
    return _DCS[key]


def g_type(t):
    c, p = t["c"], t["p"]
    if c in ("str", "int", "float", "bool"):
        return {"str": str, "int": int, "float": float, "bool": bool}[c]
    if c == "none":
        return type(None)
    if c == "enum":
        return g_enum([txt(n) for n in p])
    if c == "literal":
        return Literal[tuple(g_scalar(v) for v in p)]
    if c == "union":
        return Union[tuple(g_type(m) for m in p)]
    if c == "list":
        return List[g_type(p[0])]
    if c == "set":
        return Set[g_type(p[0])]
    if c == "tuple":
        return Tuple[tuple(g_type(m) for m in p)]
    if c == "tuplee":
        return Tuple[g_type(p[0]), ...]
    if c == "dict":
        return Dict[g_type(p[0]), g_type(p[1])]
    if c == "dc":
        return g_dc(p)
    if c == "reg":
        return REG[p[0]]
    if c == "restr":
        return g_restricted(p[0])
    if c == "any":
        return typing.Any
    if c == "odict":  # round 5: an ORDER-SENSITIVE mapping
        return typing.OrderedDict[g_type(p[0]), g_type(p[1])]
    if c == "setb":
        return set
    raise ValueError(f"unknown type term {t}")


_DC_FIELDS: dict = {}


def a_type(T):
    """alpha for type hints: read the REAL typing object back into a type term.  typing caches parametrised generics by
    equality and Union / Literal equality ignores the order of the members, so Tuple[Union[str, float], ...] may come back
    as the cached Tuple[Union[float, str], ...] of an earlier case: the term handed to TLC must be what the parser saw."""
    if T is str or T is int or T is float or T is bool:
        return T_(T.__name__)
    if T is type(None):
        return T_("none")
    if T is typing.Any:
        return T_("any")
    if T is set:
        return T_("setb")
    for name, cls in REG.items():
        if T is cls:
            return T_("reg", [name])
    for name, base in RESTRICTED.items():
        if T is g_restricted(name):
            return T_("restr", [name, base])
    if isinstance(T, type) and issubclass(T, enum.Enum):
        return T_("enum", [syms(m) for m in T.__members__])
    if dataclasses.is_dataclass(T):
        fields = _DC_FIELDS[T]
        return T_("dc", [[f[0], a_type(df.type), f[2]] for f, df in zip(fields, dataclasses.fields(T))])
    origin, args = typing.get_origin(T), typing.get_args(T)
    if origin is Literal:
        return T_("literal", [a_value(v) for v in args])
    if origin is Union:
        return T_("union", [a_type(a) for a in args])
    if origin is list:
        return T_("list", [a_type(args[0])])
    if origin is set:
        return T_("set", [a_type(args[0])])
    if origin is tuple:
        if len(args) == 2 and args[1] is Ellipsis:
            return T_("tuplee", [a_type(args[0])])
        return T_("tuple", [a_type(a) for a in args])
    if origin is collections.OrderedDict:
        return T_("odict", [a_type(args[0]), a_type(args[1])])
    if origin is dict:
        return T_("dict", [a_type(args[0]), a_type(args[1])])
    raise ValueError(f"a_type: {T!r}")


def _find_enum(t, name):
    if t["c"] == "enum":
        return g_enum([txt(n) for n in t["p"]]) if name in [txt(n) for n in t["p"]] else None
    if t["c"] in ("union", "list", "set", "tuple", "tuplee", "dict", "odict"):
        for m in t["p"]:
            e = _find_enum(m, name)
            if e is not None:
                return e
    if t["c"] == "dc":
        for _, ft, _ in t["p"]:
            e = _find_enum(ft, name)
            if e is not None:
                return e
    return None


def g_value(t, v):
    """normalised value -> python object (as the parser stores it)"""
    k = v["k"]
    if k == "enum":
        e = _find_enum(t, txt(v["v"]))
        return e[txt(v["v"])]
    if k in ("list", "tuple", "set"):
        sub = [m for m in t["p"]] if t["c"] in ("list", "set", "tuple", "tuplee") else []
        items = [g_value(sub[i if t["c"] == "tuple" else 0] if sub else t, e) for i, e in enumerate(v["v"])]
        return items if k == "list" else tuple(items) if k == "tuple" else set(items)
    if k == "odict":
        return collections.OrderedDict((g_scalar(a), g_value(t["p"][1] if t["c"] == "odict" else t, b)) for a, b in v["v"])
    if k == "dict":
        vt = t["p"][1] if t["c"] in ("dict", "odict") else t
        return {g_scalar(a): g_value(vt, b) for a, b in v["v"]}
    if k == "ns":
        return Namespace(**{txt(a): g_value(t, b) for a, b in v["v"]})
    py = g_scalar(v)
    if k in ("int", "float", "str"):
        r = _find_restricted(t, k)
        if r is not None:
            try:
                return r(py)  # a value of a restricted type is an instance of that type (a sub-class of int / float / str)
            except Exception:
                pass
    return py


def _find_restricted(t, kind):
    if t["c"] == "restr":
        return g_restricted(t["p"][0]) if t["p"][1] == kind else None
    if t["c"] in ("union", "list", "set", "tuple", "tuplee", "dict", "odict"):
        for m in t["p"]:
            r = _find_restricted(m, kind)
            if r is not None:
                return r
    if t["c"] == "dc":
        for _, ft, _ in t["p"]:
            r = _find_restricted(ft, kind)
            if r is not None:
                return r
    return None


def a_float(x: float) -> dict:
    return {"k": "float", "v": list(repr(x))}


def a_value(v) -> dict:
    """alpha: python object -> value record of Dump.tla"""
    if v is None:
        return {"k": "null", "v": []}
    if isinstance(v, bool):
        return {"k": "bool", "v": list("true" if v else "false")}
    if isinstance(v, enum.Enum):
        return {"k": "enum", "v": syms(v.name)}
    if isinstance(v, int):
        return {"k": "int", "v": list(str(v))}
    if isinstance(v, float):
        return a_float(v)
    if reg_name(v):
        return {"k": "reg", "v": [reg_name(v)] + syms(reg_id(v))}
    if isinstance(v, str):
        return {"k": "str", "v": syms(v)}
    if isinstance(v, list):
        return {"k": "list", "v": [a_value(e) for e in v]}
    if isinstance(v, tuple):
        return {"k": "tuple", "v": [a_value(e) for e in v]}
    if isinstance(v, (set, frozenset)):
        return {"k": "set", "v": sorted((a_value(e) for e in v), key=lambda r: json.dumps(r, sort_keys=True))}
    if isinstance(v, collections.OrderedDict):  # the pairs IN ORDER: Dump.tla compares them as a sequence
        return {"k": "odict", "v": [[a_value(a), a_value(b)] for a, b in v.items()]}
    if isinstance(v, dict):
        return {"k": "dict", "v": [[a_value(a), a_value(b)] for a, b in v.items()]}
    if isinstance(v, Namespace):
        return {"k": "ns", "v": [[syms(a), a_value(b)] for a, b in vars(v).items()]}
    if dataclasses.is_dataclass(v) and not isinstance(v, type):
        return {"k": "ns", "v": [[syms(f.name), a_value(getattr(v, f.name))] for f in dataclasses.fields(v)]}
    return {"k": "other", "v": [type(v).__name__]}


def a_error(stage: str, ex: BaseException) -> dict:
    return {"k": "error", "v": [f"{stage}:{type(ex).__name__}"]}


NULLREC = {"k": "null", "v": []}


def deep_same(a, b) -> bool:
    """independent validator: value for value and type for type (nan equals nan, sets / mappings unordered)"""
    if type(a) is not type(b):
        return False
    if isinstance(a, float):
        return float_same(a, b)
    if isinstance(a, (list, tuple)):
        return len(a) == len(b) and all(deep_same(x, y) for x, y in zip(a, b))
    if isinstance(a, (set, frozenset)):
        return len(a) == len(b) and all(any(deep_same(x, y) for y in b) for x in a)
    if isinstance(a, collections.OrderedDict):  # order-sensitive, as OrderedDict.__eq__
        return len(a) == len(b) and all(deep_same(k, k2) and deep_same(v, v2) for (k, v), (k2, v2) in zip(a.items(), b.items()))
    if isinstance(a, dict):
        return len(a) == len(b) and all(any(deep_same(k, k2) and deep_same(v, b[k2]) for k2 in b) for k, v in a.items())
    if isinstance(a, Namespace):
        return deep_same(vars(a), vars(b))
    return a == b


def a_doc(text: str, key=None, fmt="yaml"):
    """the scalars of a dump with their styles, as a doc of Dump.tla.  JSON text is tokenised with json's own scanner
    (strings are style "json", everything else keeps its spelling)"""
    if fmt != "yaml":
        return a_doc_json(text, key)
    try:
        node = yaml.compose(text, Loader=yaml.SafeLoader)
    except Exception:
        return NULLREC

    def conv(n):
        if isinstance(n, yaml.ScalarNode):
            st = {None: "plain", "": "plain", "'": "single", '"': "double"}.get(n.style, "other")
            return {"k": "tok", "v": [st] + syms(n.value)}
        if isinstance(n, yaml.SequenceNode):
            return {"k": "list", "v": [conv(e) for e in n.value]}
        if isinstance(n, yaml.MappingNode):
            return {"k": "dict", "v": [[conv(a), conv(b)] for a, b in n.value]}
        return {"k": "other", "v": []}

    try:
        d = conv(node) if node is not None else {"k": "dict", "v": []}
        if key is None:
            return d
        for a, b in d["v"]:
            if a["v"][1:] == syms(key):
                return b
        return NULLREC
    except Exception:
        return NULLREC


class _Num(str):
    pass


def a_doc_json(text: str, key=None):
    try:
        d = json.loads(text, parse_float=_Num, parse_int=_Num, parse_constant=_Num)
    except Exception:
        return NULLREC

    def conv(x):
        if isinstance(x, _Num):
            return {"k": "tok", "v": ["plain"] + list(x)}
        if isinstance(x, str):
            return {"k": "tok", "v": ["json"] + syms(x)}
        if x is None or isinstance(x, bool):
            return {"k": "tok", "v": ["plain"] + list("null" if x is None else "true" if x else "false")}
        if isinstance(x, list):
            return {"k": "list", "v": [conv(e) for e in x]}
        return {"k": "dict", "v": [[conv(a), conv(b)] for a, b in x.items()]}

    d = conv(d)
    if key is None:
        return d
    for a, b in d["v"]:
        if a["v"][1:] == syms(key):
            return b
    return NULLREC


def cli_text(py) -> str:
    return py if isinstance(py, str) else json.dumps(py)


@contextlib.contextmanager
def _capture_stdout():
    old = sys.stdout
    buf = io.StringIO()
    sys.stdout = buf
    try:
        yield buf
    finally:
        sys.stdout = old


def _leaf_parser(T, with_config=False, mode="yaml", enable_path=False):
    p = ArgumentParser(exit_on_error=False, parser_mode=mode)
    if with_config:
        p.add_argument("--config", action=ActionConfigFile)
    if enable_path:
        p.add_argument("--x", type=T, enable_path=True)
    else:
        p.add_argument("--x", type=T)
    return p


PRINT_FLAGS = ["", "skip_null", "skip_default", "comments"]


def run_leaf_case(args):
    """one (type, input) on the real code: accept, then every format on every route.  Returns plain data."""
    idx, t, x, workdir = args[:4]
    mode = args[4] if len(args) > 4 else "yaml"  # round 4: ArgumentParser(parser_mode=mode) writes AND reads the text
    thorough = len(args) > 5 and args[5]
    os.chdir(workdir)
    out = {"idx": idx, "accept": None, "obs": [], "t": t}
    try:
        T = g_type(t)
        t = a_type(T)  # what the parser really sees (typing's cache may have reordered Union / Literal members)
        px = g_tree(x)
    except Exception as ex:
        out["accept"] = {"k": "other", "v": ["gamma:" + type(ex).__name__ + ":" + str(ex)[:80]]}
        return out
    out["t"] = t
    try:
        p = _leaf_parser(T, False, mode)
        cfg = p.parse_object({"x": copy.deepcopy(px)})  # parse_object may rewrite nested containers of its argument (C08)
    except Exception as ex:
        out["accept"] = a_error("parse_object", ex)
        return out
    pv = copy.deepcopy(cfg.x)
    v = a_value(pv)
    out["accept"] = v

    def record(fmt, route, base_py, base_v, doc, thunk):
        try:
            back = thunk()
            re_ = a_value(back)
            same = deep_same(back, base_py)
        except BaseException as ex:  # SystemExit included
            re_, same = a_error(route, ex), False
        out["obs"].append({"t": t, "v": base_v, "fmt": fmt, "sn": route == "print/skip_null", "route": route, "doc": doc, "re": re_, "same": same})

    # route 1: dump -> parse_string
    if mode == "yaml":
        formats = ("yaml", "json", "json_indented")
    else:  # a JSON-only reader: the json formats and the default format "parser_mode" (json / json_indented); jsonnet also falls back to yaml
        formats = ("parser_mode",) + (("json",) if (idx % 2 == 1 or thorough or mode == "json") else ()) + (("json_indented",) if (idx % 2 == 0 or thorough) else ()) \
            + (("yaml",) if (mode == "jsonnet" and (thorough or idx % 4 == 1)) else ())
    for f in formats:
        sf = "yaml" if f == "yaml" else "json"
        try:
            text = p.dump(copy.deepcopy(cfg), format=f, skip_none=False)  # dump may rewrite lists nested in tuples of its argument (C08)
        except Exception as ex:
            out["obs"].append({"t": t, "v": v, "fmt": sf, "route": "string/" + f, "doc": a_error("dump", ex), "re": a_error("dump", ex), "same": False, "sn": False})
            continue
        record(sf, "string/" + f, pv, v, a_doc(text, "x", sf), lambda text=text: _leaf_parser(T, False, mode).parse_string(text).x)
    # route 2: save -> parse_path
    for f in (("yaml", "json") if mode == "yaml" else ("parser_mode",) if (mode == "json" or thorough or idx % 3 == 0) else ()):
        path = os.path.join(workdir, f"s{idx}.{f}")
        try:
            _leaf_parser(T, False, mode).save(copy.deepcopy(cfg), path, format=f, skip_none=False, overwrite=True)
            text = open(path).read()
        except Exception as ex:
            out["obs"].append({"t": t, "v": v, "fmt": "yaml" if f == "yaml" else "json", "route": "save/" + f, "doc": a_error("dump", ex), "re": a_error("dump", ex), "same": False, "sn": False})
            continue
        sf = "yaml" if f == "yaml" else "json"
        record(sf, "save/" + f, pv, v, a_doc(text, "x", sf), lambda path=path: _leaf_parser(T, False, mode).parse_path(path, with_meta=False).x)
    # route 2b (round 4): MULTI-FILE save.  A Dict value that was loaded from its own file carries __path__; save() (multifile=True
    # is the default) writes it to a file of that name next to the main file - without serialising it - and the main file names it
    if mode == "yaml" and t["c"] == "dict":
        for f in (("yaml", "json") if thorough else ("yaml", "json")[idx % 2:][:1]):  # quick: one format per input
            ind, outd = os.path.join(workdir, f"mi{idx}"), os.path.join(workdir, f"mo{idx}{f}")
            os.makedirs(ind, exist_ok=True)
            os.makedirs(outd, exist_ok=True)
            sub = os.path.join(ind, f"sub{idx}.{f}")  # a sub-file called *.json is always written as json_indented (_core.py:950-951)
            with open(sub, "w") as fh:
                json.dump(px, fh)  # JSON is YAML: the parser loads the same tree as parse_object got
            try:
                pm = _leaf_parser(T, False, mode, enable_path=True)
                cfg2 = pm.parse_args(["--x", sub])
                if not (isinstance(cfg2.x, dict) and "__path__" in cfg2.x):
                    continue
                held = {k: v_ for k, v_ in cfg2.x.items() if k != "__path__"}
                if not deep_same(held, pv):
                    continue  # the file route stored another value (not this check's business): nothing to compare
            except BaseException:
                continue
            main = os.path.join(outd, "main." + f)
            try:
                _leaf_parser(T, False, mode, enable_path=True).save(cfg2, main, format=f, skip_none=False, overwrite=True)
                files = sorted(os.listdir(outd))
            except Exception as ex:
                out["obs"].append({"t": t, "v": v, "fmt": f, "route": "savemulti/" + f, "doc": a_error("dump", ex), "re": a_error("dump", ex), "same": False, "sn": False})
                continue
            if len(files) != 2:
                out["obs"].append({"t": t, "v": v, "fmt": f, "route": "savemulti/" + f, "doc": NULLREC, "re": {"k": "error", "v": ["savemulti:no-sub-file"]}, "same": False, "sn": False})
                continue
            record(f, "savemulti/" + f, pv, v, NULLREC, lambda main=main: _leaf_parser(T, False, mode, enable_path=True).parse_path(main, with_meta=False).x)
    # route 3: parse_args(args + --print_config) -> file -> parse_args(--config file) == parse_args(args)
    argv = ["--x=" + cli_text(px)]
    try:
        base = _leaf_parser(T, True, mode).parse_args(argv)
    except BaseException:
        base = None
    if base is not None:
        bv = a_value(base.x)
        pfmt = "yaml" if mode == "yaml" else "json"  # --print_config dumps with format="parser_mode"
        if mode == "yaml":
            flags = ("", PRINT_FLAGS[1 + idx % 3])
        elif thorough:
            flags = ("", "skip_null", "skip_default")
        else:
            flags = ("",) if idx % 2 else (PRINT_FLAGS[1 + (idx // 2) % 2],)
        for flag in flags:
            opt = "--print_config" + ("=" + flag if flag else "")
            try:
                with _capture_stdout() as buf:
                    try:
                        _leaf_parser(T, True, mode).parse_args(argv + [opt])
                    except SystemExit:
                        pass
                text = buf.getvalue()
                path = os.path.join(workdir, f"p{idx}.yaml")
                with open(path, "w") as fh:
                    fh.write(text)
            except Exception as ex:
                out["obs"].append({"t": t, "v": bv, "fmt": pfmt, "route": "print/" + flag, "doc": a_error("dump", ex), "re": a_error("dump", ex), "same": False, "sn": flag == "skip_null"})
                continue
            doc = a_doc(text, "x", pfmt) if flag != "comments" else NULLREC
            if flag == "skip_null" and base.x is None:
                doc = NULLREC
            record(pfmt, "print/" + flag, base.x, bv, doc, lambda path=path: _leaf_parser(T, True, mode).parse_args(["--config", path]).x)
    return out


# ---------------------------------------------------------------- whole parsers (shapes)
def shape_entries(shape):
    """(prefix names, entry) for every entry: top entries and the entries of every sub-command"""
    for e in shape["top"]:
        yield None, e
    for name, entries in shape["subs"]:
        for e in entries:
            yield txt(name), e


def build_parser(shape, style: int, with_config=False, mode="yaml"):
    """gamma for a parser shape.  style 0: dotted options; style 1: a nested group is declared through a dataclass"""
    p = ArgumentParser(exit_on_error=False, parser_mode=mode)
    if with_config:
        p.add_argument("--config", action=ActionConfigFile)
    _add_entries(p, shape["top"], style)
    if shape["subs"]:
        sub = p.add_subcommands(required=bool(shape["required"]))
        for name, entries in shape["subs"]:
            sp = ArgumentParser(exit_on_error=False, parser_mode=mode)
            _add_entries(sp, entries, style)
            sub.add_subcommand(txt(name), sp)
    return p


def _add_entries(p, entries, style):
    groups = {}
    for e in entries:
        path = [txt(n) for n in e["p"]]
        if len(path) == 2 and style == 1:
            groups.setdefault(path[0], []).append(e)
            continue
        p.add_argument("--" + ".".join(path), type=g_type(e["t"]), default=g_value(e["t"], e["d"]))
    for g, es in groups.items():
        fields = [[e["p"][1], e["t"], e["d"]] for e in es]
        p.add_argument("--" + g, type=g_dc(fields), default=g_dc(fields)())


def cfg_tree_py(shape, cfg):
    """the python dict a config file would hold for the abstract configuration (values serialised the obvious way)"""
    d = {}

    def put(root, path, val):
        for n in path[:-1]:
            root = root.setdefault(n, {})
        root[path[-1]] = val

    def from_default(e, v):
        # a value of a registered type that IS the default stays the python object of the declaration (it is dumped without ever
        # having been parsed); everything else is given in the config
        return '"reg"' in json.dumps(v) and json.dumps(v, sort_keys=True) == json.dumps(e["d"], sort_keys=True)

    for e, v in zip(shape["top"], cfg["top"]):
        if from_default(e, v):
            continue
        put(d, [txt(n) for n in e["p"]], g_tree(v))
    if cfg["sel"]:
        name, entries = shape["subs"][cfg["sel"] - 1]
        d["subcommand"] = txt(name)
        d[txt(name)] = {}
        for e, v in zip(entries, cfg["sub"]):
            if from_default(e, v):
                continue
            put(d[txt(name)], [txt(n) for n in e["p"]], g_tree(v))
    return d


def a_cfg(shape, ns) -> dict:
    """alpha for a parsed configuration of a parser built from `shape`"""
    def get(root, path):
        for n in path:
            root = root[n]
        return root

    top = [a_value(get(ns, [txt(n) for n in e["p"]])) for e in shape["top"]]
    sel, sub = 0, []
    if shape["subs"]:
        chosen = ns.get("subcommand")
        names = [txt(n) for n, _ in shape["subs"]]
        if chosen is not None:
            sel = names.index(chosen) + 1
            sub = [a_value(get(ns[chosen], [txt(n) for n in e["p"]])) for e in shape["subs"][sel - 1][1]]
    return {"k": "cfg", "top": top, "sel": sel, "sub": sub}


def strip_cfg(ns):
    ns = ns.clone()
    ns.pop("config", None)
    return ns


def run_cfg_case(args):
    idx, sh, shape, cfg, workdir = args[:5]
    mode = args[5] if len(args) > 5 else "yaml"
    os.chdir(workdir)
    out = {"idx": idx, "obs": [], "note": None, "shape": shape}
    style = idx % 2
    try:
        shape = {"top": [dict(e, t=a_type(g_type(e["t"]))) for e in shape["top"]],
                 "subs": [[n, [dict(e, t=a_type(g_type(e["t"]))) for e in es]] for n, es in shape["subs"]], "required": shape["required"]}
        out["shape"] = shape
        p = build_parser(shape, style, False, mode)
        ns = p.parse_object(cfg_tree_py(shape, cfg))
        seen = a_cfg(shape, ns)
    except Exception as ex:
        out["note"] = f"could not build the configuration: {type(ex).__name__}: {str(ex)[:200]}"
        return out
    if json.dumps(seen, sort_keys=True) != json.dumps(cfg, sort_keys=True):
        out["note"] = "parse_object did not store the intended configuration: " + json.dumps(seen)[:300]
        return out
    # dump(skip_default=True) serialises the parser's DEFAULTS, and rewrites in place the lists nested in a tuple default, which the
    # configuration shares (C08): keep a private copy of the configuration and use a fresh parser for every dump
    ns = copy.deepcopy(ns)

    def record(fmt, sn, sd, route, base_ns, base_cfg, doc, thunk):
        try:
            back = strip_cfg(thunk())
            re_ = a_cfg(shape, back)
            same = deep_same(back, strip_cfg(base_ns))
        except BaseException as ex:
            re_, same = a_error(route, ex), False
        out["obs"].append({"sh": sh, "cfg": base_cfg, "fmt": fmt, "sn": sn, "sd": sd, "route": route, "doc": doc, "re": re_, "same": same})

    for sn in (False, True):
        for sd in (False, True):
            for f in (("yaml", "json", "json_indented") if mode == "yaml" else ("json", "parser_mode") if mode == "json" else ("parser_mode",)):
                sf = "yaml" if f == "yaml" else "json"
                try:
                    text = build_parser(shape, style, False, mode).dump(copy.deepcopy(ns), format=f, skip_none=sn, skip_default=sd)
                except Exception as ex:
                    out["obs"].append({"sh": sh, "cfg": cfg, "fmt": sf, "sn": sn, "sd": sd, "route": "string/" + f, "doc": a_error("dump", ex), "re": a_error("dump", ex), "same": False})
                    continue
                # a group declared through a dataclass has a dataclass INSTANCE as its default, which skip_default never finds equal: the
                # text then holds more than the Alg layer (dotted declaration) predicts; harmless, so the text is not compared there
                doc = NULLREC if (sd and style == 1) else a_doc(text, None, sf)
                record(sf, sn, sd, "string/" + f, ns, cfg, doc, lambda text=text: build_parser(shape, style, False, mode).parse_string(text))
            mfmt = "yaml" if mode == "yaml" else "json"  # what format="parser_mode" (the default of save and --print_config) writes
            if not sd:  # save has no skip_default
                path = os.path.join(workdir, f"cs{idx}.yaml")
                try:
                    build_parser(shape, style, False, mode).save(copy.deepcopy(ns), path, skip_none=sn, overwrite=True)
                    text = open(path).read()
                except Exception as ex:
                    out["obs"].append({"sh": sh, "cfg": cfg, "fmt": mfmt, "sn": sn, "sd": sd, "route": "save", "doc": a_error("dump", ex), "re": a_error("dump", ex), "same": False})
                else:
                    record(mfmt, sn, sd, "save", ns, cfg, a_doc(text, None, mfmt), lambda path=path: build_parser(shape, style, False, mode).parse_path(path, with_meta=False))
            # --print_config[=flags] -> file -> --config file
            inpath = os.path.join(workdir, f"ci{idx}.json")
            tree = cfg_tree_py(shape, cfg)
            tree.pop("subcommand", None)
            with open(inpath, "w") as fh:
                json.dump(tree, fh)
            argv = ["--config", inpath]
            try:
                base = build_parser(shape, style, True, mode).parse_args(argv)
                bcfg = a_cfg(shape, strip_cfg(base))
            except BaseException:
                continue
            flags = ",".join(x for x, on in (("skip_null", sn), ("skip_default", sd)) if on)
            opt = "--print_config" + ("=" + flags if flags else "")
            try:
                with _capture_stdout() as buf:
                    try:
                        build_parser(shape, style, True, mode).parse_args(argv + [opt])
                    except SystemExit:
                        pass
                text = buf.getvalue()
                path = os.path.join(workdir, f"cp{idx}.yaml")
                with open(path, "w") as fh:
                    fh.write(text)
            except Exception as ex:
                out["obs"].append({"sh": sh, "cfg": bcfg, "fmt": mfmt, "sn": sn, "sd": sd, "route": "print/" + flags, "doc": a_error("dump", ex), "re": a_error("dump", ex), "same": False})
                continue
            if not text.strip():
                out["obs"].append({"sh": sh, "cfg": bcfg, "fmt": mfmt, "sn": sn, "sd": sd, "route": "print/" + flags, "doc": a_error("dump", RuntimeError()), "re": a_error("dump", RuntimeError()), "same": False})
                continue
            record(mfmt, sn, sd, "print/" + flags, base, bcfg, NULLREC if (sd and style == 1) else a_doc(text, None, mfmt),
                   lambda path=path: build_parser(shape, style, True, mode).parse_args(["--config", path]))
    return out


# ---------------------------------------------------------------- driver of the type / configuration level
def show_type(t) -> str:
    c, p = t["c"], t["p"]
    if c == "enum":
        return "Enum[" + ",".join(txt(n) for n in p) + "]"
    if c == "literal":
        return "Literal[" + ",".join(repr(g_scalar(v)) for v in p) + "]"
    if c == "dc":
        return "dataclass(" + ",".join(f"{txt(n)}:{show_type(ft)}" for n, ft, _ in p) + ")"
    if c == "reg":
        return REG[p[0]].__name__
    if c == "restr":
        return p[0]
    if not p:
        return c
    return c + "[" + ",".join(show_type(m) for m in p) + "]"


def show_value(v) -> str:
    try:
        if v["k"] in ("error", "other", "unsure"):
            return v["k"] + ":" + ",".join(map(str, v["v"]))
        if v["k"] == "cfg":
            return "cfg(top=" + ",".join(show_value(x) for x in v["top"]) + f"; sel={v['sel']}; sub=" + ",".join(show_value(x) for x in v["sub"]) + ")"
        if v["k"] == "ns":
            return "Namespace(" + ", ".join(f"{txt(a)}={show_value(b)}" for a, b in v["v"]) + ")"
        if v["k"] == "enum":
            return "<" + txt(v["v"]) + ">"
        if v["k"] == "reg":
            return REG[v["v"][0]].__name__ + "(" + repr(txt(v["v"][1:])) + ")"
        if v["k"] in ("list", "tuple", "set"):
            return v["k"] + "(" + ", ".join(show_value(e) for e in v["v"]) + ")"
        if v["k"] in ("dict", "odict"):
            return ("OrderedDict" if v["k"] == "odict" else "") + "{" + ", ".join(show_value(a) + ": " + show_value(b) for a, b in v["v"]) + "}"
        if v["k"] == "str":
            return repr(txt(v["v"]))
        if v["k"] == "null":
            return "None"
        return txt(v["v"])
    except Exception:
        return str(v)[:100]


def outcome_kind(re_) -> str:
    return "rejected-or-raised" if re_["k"] == "error" else "changed"


# the scalar-level families are ONE defect each, whatever the level at which they are met
FAMILY_KEYS = {
    "loader-float-without-dot-or-signed-exponent": "str-roundtrip:loader-float-without-dot-or-signed-exponent",
    "loader-float-dot-underscore": "str-roundtrip:loader-float-dot-underscore",
    "nel-folded-in-single-quoted-scalar": "str-roundtrip:nel-folded-in-single-quoted-scalar",
    "json-raw-line-break": "str-roundtrip:json-raw-line-break",
    "json-unescaped-nonprintable-rejected": "str-roundtrip:json-unescaped-nonprintable-rejected",
    "json-nonfinite-float": "float-roundtrip:json-nonfinite-float",
}


class DumpRecorder:
    def __init__(self):
        self.accepts, self.leafs, self.cfgs, self.shapes = [], [], [], []
        self.meta_a, self.meta_l, self.meta_c = [], [], []

    def shape_index(self, shape) -> int:
        key = json.dumps(shape, sort_keys=True)
        for i, s in enumerate(self.shapes):
            if json.dumps(s, sort_keys=True) == key:
                return i + 1
        self.shapes.append(shape)
        return len(self.shapes)


def run_pool(fn, jobs):
    if not jobs:
        return []
    with mp.get_context("fork").Pool(min(NPROC, len(jobs))) as pool:
        return pool.map(fn, jobs, chunksize=max(1, len(jobs) // (NPROC * 8)))


def collect_leaf(rec: DumpRecorder, results, cases, origin: str, rep: Report):
    for r in results:
        t, x = cases[r["idx"]]
        t = r.get("t", t)
        acc = r["accept"]
        if acc["k"] == "other":
            machinery_failure(PID, f"gamma could not build the case {show_type(t)} / {show_value(x)}: {acc}")
        rec.accepts.append({"t": t, "x": x, "v": acc})
        rec.meta_a.append({"origin": origin})
        for o in r["obs"]:
            rec.leafs.append({k: o[k] for k in ("t", "v", "fmt", "sn", "route", "doc", "re", "same")})
            rec.meta_l.append({"origin": origin, "x": x})


def collect_cfg(rec: DumpRecorder, results, cases, origin: str, rep: Report):
    for r in results:
        sh, shape, cfg = cases[r["idx"]]
        if r["note"]:
            rep.add_drift("a configuration of the model could not be set up on the real parser: " + r["note"], {"shape": sh, "cfg": show_value(cfg)})
            continue
        sh = rec.shape_index(r["shape"])
        for o in r["obs"]:
            rec.cfgs.append(dict({k: o[k] for k in ("cfg", "fmt", "sn", "sd", "route", "doc", "re", "same")}, sh=sh))
            rec.meta_c.append({"origin": origin})


def trace_dump_run(rec: DumpRecorder, tmp, label: str, cfg: str = "Trace_Dump"):
    """TLC validates everything recorded against Trace_Dump (cfg: Trace_Dump = parser_mode yaml, Trace_Dump_json, Trace_Dump_jsonnet)"""
    if not (rec.accepts or rec.leafs or rec.cfgs):
        return []
    # one TLC run per chunk: the whole trace of a thorough run does not fit a 4-8 GB heap once it is a TLC value
    chunk = 12000
    total = len(rec.accepts) + len(rec.leafs) + len(rec.cfgs)
    jobs = []
    if total <= chunk:
        jobs.append(("all", 0, rec.accepts + rec.leafs + rec.cfgs))
    else:
        for kind, lst in (("accept", rec.accepts), ("leaf", rec.leafs), ("cfg", rec.cfgs)):
            for a0 in range(0, len(lst), chunk):
                jobs.append((kind, a0, lst[a0:a0 + chunk]))

    def run_chunk(job):
        kind, a0, part = job
        f = tmp / f"dump_trace_{label}_{kind}_{a0}.json"
        if kind == "all":
            f.write_text(json.dumps({"shapes": rec.shapes, "accepts": rec.accepts, "leafs": rec.leafs, "cfgs": rec.cfgs}))
        else:
            f.write_text(json.dumps({"shapes": rec.shapes, "accepts": part if kind == "accept" else [], "leafs": part if kind == "leaf" else [],
                                     "cfgs": part if kind == "cfg" else []}))
        workers = DEV_WORKERS if (kind == "all" and cfg == "Trace_Dump") else max(4, DEV_WORKERS // 2) if cfg == "Trace_Dump" else max(2, DEV_WORKERS // 4)
        tr = tlc.run("Trace_Dump", cfg, workers=workers, env={"TRACE_FILE": str(f), **JVM_ENV}, timeout=2400, heap=DEV_HEAP)
        f.unlink()
        return job, tr

    from concurrent.futures import ThreadPoolExecutor
    with ThreadPoolExecutor(max_workers=2) as ex:
        return list(ex.map(run_chunk, jobs))


def validate_dump_trace(rep: Report, rec: DumpRecorder, tmp, label: str, results=None, mode: str = "yaml"):
    """classification of what TLC rejects (results: what trace_dump_run returned; run here when not given)"""
    if not (rec.accepts or rec.leafs or rec.cfgs):
        return
    if results is None:
        results = trace_dump_run(rec, tmp, label)
    total = len(rec.accepts) + len(rec.leafs) + len(rec.cfgs)
    by = {}
    tag = "" if mode == "yaml" else f" [parser_mode={mode}]"
    for (kind, a0, part), tr in results:
        rep.add_tlc(f"Trace_Dump{'' if mode == 'yaml' else '_' + mode}[{kind}:{a0}]", tr)
        if tr.errors or tr.distinct != 2 * len(part):
            machinery_failure(PID, f"Trace_Dump{tag}[{kind}:{a0}] failed (distinct={tr.distinct}, expected {2 * len(part)}):\n" + tr.stdout[-3000:])
        for p in tr.printed:
            if isinstance(p, list) and p and p[0] == "R":
                by.setdefault((p[1], p[2] + a0), []).append(p[3])
    rep.traces += len(rec.leafs) + len(rec.cfgs)
    rep.evaluations += total
    # the independent validator (deep typed equality on the python objects) must agree with TLC's Same on every observation
    for kind, lst in (("leaf", rec.leafs), ("cfg", rec.cfgs)):
        for n, o in enumerate(lst, 1):
            tlc_ok = not any(c.startswith("ref") for c in by.get((kind, n), []))
            if o["sn"]:
                continue  # skip_none is lossy by design: Ref is not the identity there
            if tlc_ok != o["same"]:
                by.setdefault((kind, n), []).append("ref-other" if tlc_ok else "alg-validator-disagrees")
    for o in rec.leafs:
        if o["re"]["k"] != "error" and o["v"]["k"] not in ("int", "bool", "null"):
            rep.note_nontrivial("leaf:" + mode + json.dumps([o["t"], o["v"], o["fmt"]], sort_keys=True))
    for o in rec.cfgs:
        rep.note_nontrivial("cfg:" + mode + json.dumps([rec.shapes[o["sh"] - 1], o["cfg"], o["fmt"], o["sn"], o["sd"]], sort_keys=True))
    for (kind, idx), clauses in sorted(by.items()):
        if kind == "accept":
            o = rec.accepts[idx - 1]
            rep.add_drift("Alg prediction of the accepted value differs (C02's concern)" + tag, {"type": show_type(o["t"]), "input": show_value(o["x"]), "stored": show_value(o["v"])})
            continue
        if kind == "leaf":
            o = rec.leafs[idx - 1]
            T, val = show_type(o["t"]), show_value(o["v"])
            case = {"type": T, "value": val, "format": o["fmt"], "route": o["route"], "reparsed": show_value(o["re"]), "failed_clauses": sorted(set(clauses)),
                    "abstract": {"t": o["t"], "v": o["v"], "doc": o["doc"], "re": o["re"]},
                    "parser_mode": mode,
                    "python": f"p=ArgumentParser(exit_on_error=False, parser_mode={mode!r}); p.add_argument('--x', type={T}); cfg=p.parse_object({{'x': ...}})  # cfg.x == {val}; "
                              f"route {o['route']} gave {show_value(o['re'])}"}
            what = f"{T} value {val} written as {o['fmt']} ({o['route']}) is re-parsed as {show_value(o['re'])}{tag}"
        else:
            o = rec.cfgs[idx - 1]
            case = {"shape": rec.shapes[o["sh"] - 1], "cfg": show_value(o["cfg"]), "format": o["fmt"], "skip_none": o["sn"], "skip_default": o["sd"], "route": o["route"],
                    "reparsed": show_value(o["re"]), "failed_clauses": sorted(set(clauses)), "abstract": {"cfg": o["cfg"], "doc": o["doc"], "re": o["re"]}, "parser_mode": mode}
            what = f"configuration {show_value(o['cfg'])} dumped as {o['fmt']} (skip_none={o['sn']}, skip_default={o['sd']}, {o['route']}) is re-parsed as {show_value(o['re'])}{tag}"
        for c in sorted(set(clauses)):
            if c.startswith("ref-dev:"):
                for fam in c[len("ref-dev:"):].split("+"):
                    rep.violation(FAMILY_KEYS.get(fam, f"dump-roundtrip:{fam}"), what, case)
            elif c.startswith("ref"):
                rep.violation(f"dump-roundtrip:other:{'' if mode == 'yaml' else mode + ':'}{kind}:{o['route']}:{(show_type(o['t']) + '=' + show_value(o['v'])) if kind == 'leaf' else show_value(o['cfg'])}"[:160], what, case)
            else:
                rep.add_drift(f"{c}: the real code agrees with Ref but not with the Alg transcription{tag}", case)


def dump_level(rep: Report, tier: str, tmp, mc, rec: "DumpRecorder", mode: str = "yaml") -> None:
    sfx = "" if mode == "yaml" else "_" + mode
    cfgname = f"MC_Dump_{tier}{sfx}"
    rep.add_tlc(cfgname, mc)
    if mc.errors:
        if mc.violated:
            rep.violation("model:dump" + sfx.replace("_", ":") + ":" + ",".join(mc.violated),
                          f"TLC: invariant {mc.violated} violated in {cfgname} (a round-trip failure of the Alg pipeline that no named deviation explains, "
                          "or a serialising branch that does not mirror its deserialising branch)", {"tlc_errors": mc.errors, "counterexample": mc.cex[:6000]})
        else:
            machinery_failure(PID, f"TLC failed on {cfgname}:\n" + mc.stdout[-3000:])
    emitted = [p for p in mc.printed if isinstance(p, dict) and "case" in p]
    cex = [p for p in mc.printed if isinstance(p, dict) and "cex" in p]
    shapes = [p for p in mc.printed if isinstance(p, dict) and "shapes" in p]
    if not mc.errors and (len(emitted) * 2 != mc.distinct or len(shapes) != 1):
        machinery_failure(PID, f"{cfgname} emitted {len(emitted)} cases for {mc.distinct} states")
    if shapes and shapes[0].get("mode", "yaml") != mode:
        machinery_failure(PID, f"{cfgname} ran with ParserMode = {shapes[0].get('mode')}, expected {mode}")
    shapes = shapes[0]["shapes"] if shapes else []
    fams = {}
    for p in cex:
        for h in p["hz"] or ["<none>"]:
            fams[h] = fams.get(h, 0) + 1
    rep.extra["dump_model" + sfx] = {"cases": len(emitted), "leaf_cases": sum(1 for p in emitted if p["case"]["kind"] == "leaf"),
                               "cfg_cases": sum(1 for p in emitted if p["case"]["kind"] == "cfg"),
                               "cases_violating_plain_law_found_by_TLC": len(cex), "families_found_by_TLC": fams,
                               "leaf_inputs_rejected_in_model": sum(1 for p in emitted if p["case"]["kind"] == "leaf" and p["v"]["k"] == "error"),
                               "leaf_inputs_undecided_in_model": sum(1 for p in emitted if p["case"]["kind"] == "leaf" and p["v"]["k"] == "unsure")}
    # non-vacuity of the mode instances: json.loads is exact (no scalar-level family may be needed), jsonnet's re-emission must be FOUND
    if mode == "json" and not mc.errors:
        bad = sorted(set(fams) - {"skip-default-equal-but-other-type", "skip-default-inside-dict-value", "skip-default-required-subcommand-raises", "subcommand-selector-not-dumped",
                                  "union-enum-member-serialises-anything", "decimal-serialised-as-float"})
        if bad:
            machinery_failure(PID, f"{cfgname}: the model needs scalar-level deviations {bad} although json.loads inverts json.dumps")
    if mode == "jsonnet" and not mc.errors and not {"jsonnet-integral-float-read-as-int", "json-nonfinite-float", "json-raw-line-break"} <= set(fams):
        machinery_failure(PID, f"{cfgname}: TLC did not find the jsonnet families (found {sorted(fams)})")
    # ---- replay: every (type, input) and every (shape, configuration) of the model on real parsers
    leaf_cases, seen = [], set()
    for p in sorted(emitted, key=lambda p: json.dumps(p["case"], sort_keys=True)):
        c = p["case"]
        if c["kind"] == "leaf":
            key = json.dumps([c["t"], c["x"]], sort_keys=True)
            if key not in seen:
                seen.add(key)
                leaf_cases.append((c["t"], c["x"]))
    cfg_cases, seen = [], set()
    for p in sorted(emitted, key=lambda p: json.dumps(p["case"], sort_keys=True)):
        c = p["case"]
        if c["kind"] == "cfg":
            key = json.dumps([c["sh"], c["cfg"]], sort_keys=True)
            if key not in seen:
                seen.add(key)
                cfg_cases.append((c["sh"], shapes[c["sh"] - 1], c["cfg"]))
    if mode != "yaml":
        # every parse in jsonnet mode evaluates each text with libjsonnet (~50 ms): the mode instances are replayed on a sample -
        # the (type, input) cases for which TLC predicts a failure, lists a hazard family, or says that the YAML reader would
        # have had one ("hy": where the mode matters) - 1 in n_hot of them - and 1 in n_leaf of the others
        hot = {json.dumps([p["case"]["t"], p["case"]["x"]], sort_keys=True) for p in emitted
               if p["case"]["kind"] == "leaf" and (p["hz"] or p.get("hy") or (p["v"]["k"] not in ("error", "unsure") and json.dumps(p["rt"], sort_keys=True) != json.dumps(p["v"], sort_keys=True)))}
        n_hot, n_leaf, n_cfg = {("json", "quick"): (1, 5, 6), ("json", "thorough"): (1, 3, 3), ("jsonnet", "quick"): (4, 20, 20), ("jsonnet", "thorough"): (4, 12, 12)}[(mode, tier)]
        all_leaf, all_cfg = len(leaf_cases), len(cfg_cases)
        is_hot = [json.dumps([c[0], c[1]], sort_keys=True) in hot for c in leaf_cases]
        rank, nh = [], 0
        for h in is_hot:  # the n-th hot case / the n-th other case
            rank.append(nh if h else None)
            nh += 1 if h else 0
        leaf_cases = [c for i, c in enumerate(leaf_cases) if (is_hot[i] and rank[i] % n_hot == 0) or (not is_hot[i] and i % n_leaf == 0)]
        cfg_cases = [c for i, c in enumerate(cfg_cases) if i % n_cfg == 0]
        rep.extra["dump_replay_sampling" + sfx] = {"leaf_inputs_of_the_model": all_leaf, "replayed": len(leaf_cases), "predicted_failing_or_hazard": len(hot), "configurations_of_the_model": all_cfg,
                                                  "configurations_replayed": len(cfg_cases)}
    work = tmp / ("work" + sfx)
    work.mkdir(exist_ok=True)
    for s in shapes:
        rec.shape_index(s)
    cfg_cases = [(rec.shape_index(shape), shape, cfg) for _, shape, cfg in cfg_cases]
    res = run_pool(run_leaf_case, [(i, t, x, str(work), mode, tier == "thorough") for i, (t, x) in enumerate(leaf_cases)])
    collect_leaf(rec, res, leaf_cases, "model", rep)
    res = run_pool(run_cfg_case, [(i, sh, shape, cfg, str(work), mode) for i, (sh, shape, cfg) in enumerate(cfg_cases)])
    collect_cfg(rec, res, cfg_cases, "model", rep)
    rep.extra["dump_replay" + sfx] = {"leaf_inputs": len(leaf_cases), "configurations": len(cfg_cases), "leaf_observations": len(rec.leafs), "cfg_observations": len(rec.cfgs)}
    if rec.leafs and mode == "yaml":
        rep.sample({"leaf_observation": {"type": show_type(rec.leafs[0]["t"]), "value": show_value(rec.leafs[0]["v"]), "route": rec.leafs[0]["route"],
                                         "reparsed": show_value(rec.leafs[0]["re"])}})
    if rec.cfgs and mode == "yaml":
        o = rec.cfgs[len(rec.cfgs) // 2]
        rep.sample({"cfg_observation": {"cfg": show_value(o["cfg"]), "format": o["fmt"], "skip_none": o["sn"], "skip_default": o["sd"], "route": o["route"], "reparsed": show_value(o["re"])}})


# ---------------------------------------------------------------- hypothesis-driven cases beyond the bounds of MC_Dump
HAZARD_POOL = ["1e3", "1E3", "1e+3", "1.e3", "-9e1", "._1", "._", "1_0e3", "a\x85b", "\x85", "a   b", "a\x7fb", "true", "True", "yes", "on", "off", "no", "null", "~", "",
               "1", "0", "-1", "1.5", "010", "0x1F", "1_000", "1:30", "1:30.5", ".inf", ".nan", "Infinity", "NaN", "2001-01-01", "2001-01-01 10:00:00", "=", "<<",
               " x", "x ", "a: b", "a #b", "- a", "? a", "[1]", "{a}", "{a: 1}", "#c", "!t", "&a", "*a", "|", ">", "'q'", '"q"', "%d", "@a", "`a", "a\nb", "a\n", "\na",
               "a\tb", "\ta", "a\\b", "---", "...", "-", ":", "?", "a:", ":a", "é", "日本", "\U0001f600", "a b", "x" * 90 + " y " + "z" * 30, "abc", "RED", "None", "{}", "[]"]
NAME_POOL = ["a", "b", "c", "x", "y", "lr", "name", "on", "null", "n", "yes", "key1", "A_b"]
ENUM_NAMES = [["RED", "GREEN"], ["on", "off"], ["A", "B", "C"], ["null", "true"], ["x"], ["1e3", "1", "~"], ["yes", "None", ".inf"]]


def V_(k, text):
    return {"k": k, "v": syms(text) if k in ("str", "enum") else list(text)}


def _strategies():
    from hypothesis import strategies as st

    pats = _resolver_patterns()
    text = st.one_of(st.sampled_from(HAZARD_POOL), st.sampled_from(HAZARD_POOL), st.text(max_size=10),
                     st.text(alphabet="0123456789_.eE+-:", min_size=1, max_size=8), st.one_of(*[st.from_regex(rx, fullmatch=True) for rx in pats]))
    text = text.filter(lambda s: len(s) <= 130 and all(not ("\ud800" <= c <= "\udfff") for c in s))
    leaf_t = st.one_of(st.sampled_from([T_("str"), T_("int"), T_("float"), T_("bool"), T_("any")]), st.just(T_("str")),
                       st.sampled_from(ENUM_NAMES).map(lambda ns: T_("enum", [syms(n) for n in ns])),
                       st.lists(st.one_of(text.map(lambda s: V_("str", s)), st.integers(-3, 30).map(lambda i: V_("int", str(i))), st.just(dict(NULLREC))),
                                min_size=1, max_size=3, unique_by=lambda v: json.dumps(v)).map(lambda vs: T_("literal", vs)))
    hashable_t = st.one_of(st.sampled_from([T_("str"), T_("int")]), st.sampled_from(ENUM_NAMES).map(lambda ns: T_("enum", [syms(n) for n in ns])),
                           # round 5: members of several kinds (a serialiser must not need an order on them)
                           st.sampled_from([T_("union", [T_("int"), T_("str")]), T_("union", [T_("int"), T_("none")]), T_("union", [T_("str"), T_("none")]),
                                            T_("union", [T_("float"), T_("str"), T_("none")])]))

    def dc_of(field_types):
        @st.composite
        def mk(draw):
            n = draw(st.integers(1, 3))
            names = draw(st.permutations(["a", "s", "o", "flag", "w"]))[:n]
            fields = []
            for nm in names:
                ft = draw(field_types)
                fields.append([syms(nm), ft, draw(default_for(ft))])
            return T_("dc", fields)
        return mk()

    def default_for(t):
        c = t["c"]
        if c == "str":
            return st.sampled_from(["x", "", "1e3", "d v"]).map(lambda s: V_("str", s))
        if c == "int":
            return st.integers(-2, 9).map(lambda i: V_("int", str(i)))
        if c == "float":
            return st.sampled_from([0.5, 2.0, 1e16]).map(lambda x: a_float(x))
        if c == "bool":
            return st.booleans().map(lambda b: V_("bool", "true" if b else "false"))
        if c == "enum":
            return st.just({"k": "enum", "v": t["p"][0]})
        if c == "union" and any(m["c"] == "none" for m in t["p"]):
            return st.just(dict(NULLREC))
        if c == "list":
            return st.just({"k": "list", "v": []})
        if c in ("odict", "set"):
            return st.just({"k": c, "v": []})
        return st.just(dict(NULLREC))

    simple_field_t = st.one_of(st.sampled_from([T_("str"), T_("int"), T_("float"), T_("bool")]), st.sampled_from([T_("str"), T_("int")]).map(lambda t: T_("union", [t, T_("none")])),
                               st.just(T_("list", [T_("int")])),
                               st.sampled_from([T_("odict", [T_("str"), T_("int")]), T_("set", [T_("union", [T_("int"), T_("str")])])]))  # round 5: as dataclass fields

    REG_TEXTS = {
        "Rpath": ["/x", "a/b", "None", "rel/file.txt", "1e3", "x y", "1:30"], "Rpathlike": ["/x", "a b", "rel/f.txt", "1:30", "yes"],
        "Rtd": ["0:00:01", "1:02:03", "23:59:59", "1 day, 2:03:04", "1 day, 0:00:00", "-1 day, 23:59:59", "-1 day, 0:00:00", "2 days, 0:00:00", "-3 days, 12:00:00",
                "400 days, 1:00:00", "0:00:01.500000", "1 day, 0:00:00.000001", "0:00:00"],
        "Ruuid": ["12345678-1234-5678-1234-567812345678", "00000000-0000-0000-0000-000000000000"],
        "Rcomplex": ["(1+2j)", "3j", "(-4-5j)", "0j", "(1.5-2j)", "1j"],
        "Rrange": ["range(5)", "range(2, 5)", "range(0, 10, 2)", "range(0, 10, 3)", "range(1, 10, 3)", "range(10, 0, -2)", "range(0, -5, -1)", "range(0)", "range(5, 1)",
                   "range(0, 5, 1)", "range(-3,3)", "range( 1 , 4 )", "range(0, 0, 7)", "range(3, 3)", "range(-2)", "range(7, 8, 100)"],
        "Rdec": ["0.5", "3", "-2.25", "0.1", "100", "1.125", "-7", "0.3", "12345.678"],
        "Rbytes": ["aGk=", "", "AAEC", "/+8=", "aGVsbG8gd29ybGQ="], "Rbytearray": ["aGk=", "", "AAEC", "/w=="]}
    RESTR_VALUES = {"PositiveInt": [V_("int", "1"), V_("int", "7"), V_("int", "123456")], "NonNegativeInt": [V_("int", "0"), V_("int", "5")],
                    "PositiveFloat": [a_float(0.5), a_float(1e16), a_float(3.0), a_float(float("inf"))], "NonNegativeFloat": [a_float(0.0), a_float(2.5), V_("int", "2")],
                    "ClosedUnitInterval": [a_float(0.0), a_float(1.0), a_float(0.25), a_float(1e-07)], "OpenUnitInterval": [a_float(0.5), a_float(1e-07)],
                    "Email": [V_("str", "a@b.co"), V_("str", "x.y+z@example.org")]}
    restr_t = st.sampled_from(sorted(RESTRICTED)).map(lambda n: T_("restr", [n, RESTRICTED[n]]))
    reg_t = st.one_of(st.sampled_from(sorted(REG)).map(lambda n: T_("reg", [n])), st.sampled_from(["Rrange", "Rtd", "Rdec"]).map(lambda n: T_("reg", [n])), restr_t)
    reg_shapes = reg_t.flatmap(lambda r: st.sampled_from([
        r, r, T_("dict", [T_("str"), r]), T_("tuple", [r, T_("int")]),
        T_("list", [T_("dc", [[syms("r"), r, dict(NULLREC)], [syms("n"), T_("int"), V_("int", "1")]])]),
        T_("union", [T_("dc", [[syms("r"), T_("union", [r, T_("none")]), dict(NULLREC)]]), T_("none")]),
        T_("list", [T_("union", [r, T_("none")])]), T_("dict", [T_("str"), T_("union", [r, T_("none")])]), T_("tuple", [T_("union", [r, T_("none")]), T_("int")]),
        T_("union", [r, T_("none")]), T_("list", [r]), T_("tuplee", [T_("union", [r, T_("none")])]), T_("list", [T_("list", [T_("union", [r, T_("none")])])]),
        T_("dict", [T_("str"), T_("list", [T_("union", [r, T_("none")])])])]))

    def extend(child):
        # registered / restricted types are Union members only as Optional[T] (reg_shapes): next to another member their serializer
        # accepts foreign values (float('1e3'), str(3)), the class of finding union-enum-member-serialises-anything, kept out here
        nonunion = child.filter(lambda t: t["c"] not in ("union", "none") and '"reg"' not in json.dumps(t) and '"restr"' not in json.dumps(t))
        return st.one_of(
            reg_shapes,
            nonunion.map(lambda t: T_("union", [t, T_("none")])),
            st.lists(nonunion, min_size=2, max_size=3, unique_by=lambda t: t["c"]).map(lambda ts: T_("union", ts)),
            st.tuples(st.lists(nonunion, min_size=2, max_size=2, unique_by=lambda t: t["c"]), st.just(T_("none"))).map(lambda p: T_("union", p[0] + [p[1]])),
            child.map(lambda t: T_("list", [t])),
            hashable_t.map(lambda t: T_("set", [t])),
            st.lists(child, min_size=1, max_size=3).map(lambda ts: T_("tuple", ts)),
            child.map(lambda t: T_("tuplee", [t])),
            st.tuples(st.sampled_from([T_("str"), T_("str"), T_("int")]), child).map(lambda kv: T_("dict", list(kv))),
            st.tuples(st.sampled_from([T_("str"), T_("str"), T_("int")]), child).map(lambda kv: T_("odict", list(kv))),  # round 5: order-sensitive
            st.just(T_("setb")),
            dc_of(simple_field_t).flatmap(lambda d: st.sampled_from([T_("union", [d, T_("none")]), T_("list", [d]), T_("dict", [T_("str"), d]), T_("tuple", [d, T_("int")])])),
            # round 4: a dataclass inside a dataclass (the inner one is a nested group of the outer one's parser)
            dc_of(simple_field_t).flatmap(lambda d: st.sampled_from([
                T_("dc", [[syms("i"), d, {"k": "ns", "v": [[f[0], f[2]] for f in d["p"]]}], [syms("n"), T_("int"), V_("int", "0")]]),
                T_("dc", [[syms("q"), T_("str"), V_("str", "z")], [syms("i"), d, {"k": "ns", "v": [[f[0], f[2]] for f in d["p"]]}]])]))
            .flatmap(lambda d: st.sampled_from([T_("union", [d, T_("none")]), T_("list", [d]), T_("dict", [T_("str"), d])])),
        )

    types = st.recursive(leaf_t, extend, max_leaves=6)

    def depth(t):
        if t["c"] in ("reg", "restr"):
            return 0
        if t["c"] == "dc":
            return 1 + max([depth(f[1]) for f in t["p"]] + [0])
        if t["c"] in ("enum", "literal") or not t["p"]:
            return 0
        return 1 + max(depth(m) for m in t["p"])

    types = types.filter(lambda t: depth(t) <= 4)

    floats = st.one_of(st.floats(), st.sampled_from([float("inf"), float("-inf"), float("nan"), -0.0, 1e16, 1e-7, 1.5, 3.0, 1e22]))
    ints = st.one_of(st.integers(-5, 20), st.integers(-10**12, 10**12), st.sampled_from([2**31, 2**64, -(2**70)]))

    def inputs(t):
        c, p = t["c"], t["p"]
        if c == "str":
            return text.map(lambda s: V_("str", s))
        if c == "int":
            return ints.map(lambda i: V_("int", str(i)))
        if c == "float":
            return st.one_of(floats.map(a_float), st.integers(-3, 3).map(lambda i: V_("int", str(i))))
        if c == "bool":
            return st.booleans().map(lambda b: V_("bool", "true" if b else "false"))
        if c == "none":
            return st.just(dict(NULLREC))
        if c == "any":  # strings that look like numbers / null / mappings, numbers, None, small containers of them
            scal = st.one_of(text.map(lambda s: V_("str", s)), ints.map(lambda i: V_("int", str(i))), floats.map(a_float), st.just(dict(NULLREC)),
                             st.booleans().map(lambda b: V_("bool", "true" if b else "false")))
            return st.one_of(scal, scal, st.lists(scal, max_size=3).map(lambda xs: {"k": "list", "v": xs}),
                             st.lists(st.tuples(text.map(lambda s: V_("str", s)), scal), max_size=2, unique_by=lambda kv: json.dumps(kv[0])).map(lambda kvs: {"k": "dict", "v": [list(kv) for kv in kvs]}))
        if c == "reg":
            texts = st.sampled_from(REG_TEXTS[p[0]]).map(lambda s: V_("str", s))
            if p[0] == "Rdec":
                return st.one_of(texts, st.sampled_from([a_float(0.5), V_("int", "3"), a_float(2.0), a_float(0.1)]))
            return texts
        if c == "restr":
            return st.sampled_from(RESTR_VALUES[p[0]])
        if c == "enum":
            return st.sampled_from(p).map(lambda n: {"k": "str", "v": n})
        if c == "literal":
            return st.sampled_from(p)
        if c == "union":
            return st.one_of(*[inputs(m) for m in p])
        if c in ("list", "tuplee"):
            return st.lists(inputs(p[0]), max_size=3).map(lambda xs: {"k": "list", "v": xs})
        if c == "set":
            return st.lists(inputs(p[0]), max_size=3, unique_by=lambda v: json.dumps(v)).map(lambda xs: {"k": "list", "v": xs})
        if c == "tuple":
            return st.tuples(*[inputs(m) for m in p]).map(lambda xs: {"k": "list", "v": list(xs)})
        if c == "setb":
            scal = st.one_of(text.map(lambda s: V_("str", s)), st.integers(-3, 30).map(lambda i: V_("int", str(i))), st.just(dict(NULLREC)))
            return st.lists(scal, max_size=3, unique_by=lambda v: json.dumps(v)).map(lambda xs: {"k": "list", "v": xs})
        if c in ("dict", "odict"):
            keys = text.map(lambda s: V_("str", s)) if p[0]["c"] == "str" else st.integers(-3, 40).map(lambda i: V_("str", str(i)))
            return st.lists(st.tuples(keys, inputs(p[1])), max_size=3, unique_by=lambda kv: json.dumps(kv[0])).map(lambda kvs: {"k": "dict", "v": [list(kv) for kv in kvs]})
        if c == "dc":
            @st.composite
            def mk(draw):
                out = []
                for name, ft, _ in p:
                    if draw(st.booleans()):
                        out.append([{"k": "str", "v": name}, draw(inputs(ft))])
                return {"k": "dict", "v": out}
            return mk()
        raise ValueError(c)

    cases = types.flatmap(lambda t: st.tuples(st.just(t), inputs(t)))
    return st, types, inputs, cases, text


def hypothesis_leaf_cases(n: int):
    from hypothesis import HealthCheck, Phase, given, seed, settings

    st, types, inputs, cases, text = _strategies()
    out = []

    @settings(max_examples=n, database=None, deadline=None, phases=[Phase.generate], suppress_health_check=list(HealthCheck))
    @seed(common.seed() * 101 + 17)
    @given(cases)
    def collect(c):
        out.append(c)

    collect()
    res, seen = [], set()
    for t, x in out:
        key = json.dumps([t, x], sort_keys=True)
        if key not in seen:
            seen.add(key)
            res.append((t, x))
    return res


def hypothesis_shapes(n: int):
    """random parser shapes (nested groups, sub-commands) with several configurations each: [(shape, [cfg input dicts])]"""
    from hypothesis import HealthCheck, Phase, given, seed, settings

    st, types, inputs, cases, text = _strategies()
    entry_t = st.one_of(st.sampled_from([T_("str"), T_("int"), T_("float"), T_("bool"), T_("union", [T_("str"), T_("none")]), T_("union", [T_("int"), T_("none")]),
                                         T_("list", [T_("int")]), T_("list", [T_("str")]), T_("dict", [T_("str"), T_("int")]), T_("dict", [T_("str"), T_("str")]),
                                         T_("tuple", [T_("int"), T_("str")]), T_("enum", [syms("RED"), syms("GREEN")]), T_("union", [T_("float"), T_("str")]),
                                         T_("union", [T_("enum", [syms("RED"), syms("GREEN")]), T_("none")])]), types.filter(lambda t: "dc" not in json.dumps(t)))

    @st.composite
    def entries(draw, names, max_n):
        n = draw(st.integers(0, max_n))
        out, used = [], set()
        for _ in range(n):
            path = [draw(st.sampled_from(names))]
            if draw(st.integers(0, 3)) == 0:
                path = [draw(st.sampled_from(["g", "h"]))] + path
            if tuple(path) in used or (len(path) == 1 and any(u[0] == path[0] for u in used)) or (len(path) == 2 and (path[0],) in used):
                continue
            used.add(tuple(path))
            t = draw(entry_t)
            tj = json.dumps(t)
            shared_twice = '"reg"' in tj and ('"tuple"' in tj or '"tuplee"' in tj)  # see design.d/C01.md 3: such a default is serialised twice by --print_config=skip_default (C08)
            din = st.just(None) if shared_twice else st.one_of(st.just(None), inputs(t))
            out.append({"p": [syms(x) for x in path], "t": t, "din": draw(din), "vals": draw(st.lists(inputs(t), min_size=1, max_size=3))})
        return out

    @st.composite
    def shape(draw):
        top = draw(entries(NAME_POOL, 4))
        subs = []
        if draw(st.booleans()):
            for nm in draw(st.lists(st.sampled_from(["fit", "test", "a", "b", "run"]), min_size=1, max_size=3, unique=True)):
                if any(txt(e["p"][0]) == nm for e in top):
                    continue
                subs.append([syms(nm), draw(entries(["x", "y", "s", "lr"], 2))])
        return {"top": top, "subs": subs, "required": draw(st.booleans()), "pick": draw(st.lists(st.integers(0, 10**6), min_size=3, max_size=3))}

    out = []

    @settings(max_examples=n, database=None, deadline=None, phases=[Phase.generate], suppress_health_check=list(HealthCheck))
    @seed(common.seed() * 211 + 3)
    @given(shape())
    def collect(s):
        out.append(s)

    collect()
    return [s for s in out if s["top"] or s["subs"]]


def _accepted(t, x, default=None):
    """the python value a real parser stores for input tree x of type t (None, False when rejected)"""
    try:
        p = ArgumentParser(exit_on_error=False)
        p.add_argument("--x", type=g_type(t))
        return p.parse_object({"x": copy.deepcopy(g_tree(x))}).x, True
    except Exception:
        return None, False


def concretise_shape(raw):
    """hypothesis output -> (abstract shape with defaults that the real parser accepted, list of abstract configurations)"""
    def conv(es):
        out, choices = [], []
        for e in es:
            d = dict(NULLREC)
            if e["din"] is not None:
                py, ok = _accepted(e["t"], e["din"])
                if ok:
                    d = a_value(py)
            try:
                if json.dumps(a_value(g_value(e["t"], d)), sort_keys=True) != json.dumps(d, sort_keys=True):
                    d = dict(NULLREC)
            except Exception:
                d = dict(NULLREC)
            vals = [d]
            for x in e["vals"]:
                py, ok = _accepted(e["t"], x)
                if ok:
                    vals.append(a_value(py))
            out.append({"p": e["p"], "t": e["t"], "d": d})
            choices.append(vals)
        return out, choices

    top, tch = conv(raw["top"])
    subs, sch = [], []
    for name, es in raw["subs"]:
        e2, c2 = conv(es)
        subs.append([name, e2])
        sch.append(c2)
    shape = {"top": top, "subs": subs, "required": raw["required"]}
    cfgs = []
    for k, pick in enumerate(raw["pick"]):
        topv = [ch[(pick + i) % len(ch)] for i, ch in enumerate(tch)]
        if subs:
            sel = (pick + k) % (len(subs) + (0 if raw["required"] else 1))
            sel = sel + 1 if raw["required"] else sel
        else:
            sel = 0
        subv = [ch[(pick + i + 1) % len(ch)] for i, ch in enumerate(sch[sel - 1])] if sel else []
        cfgs.append({"k": "cfg", "top": topv, "sel": sel, "sub": subv})
    return shape, cfgs


def dump_traces(rep: Report, tier: str, tmp, rec: "DumpRecorder", leaf_cases, raw_shapes, mode: str = "yaml") -> None:
    sfx = "" if mode == "yaml" else "_" + mode
    work = tmp / ("work2" + sfx)
    work.mkdir(exist_ok=True)
    n0l, n0c = len(rec.leafs), len(rec.cfgs)
    res = run_pool(run_leaf_case, [(i, t, x, str(work), mode, tier == "thorough") for i, (t, x) in enumerate(leaf_cases)])
    collect_leaf(rec, res, leaf_cases, "hypothesis", rep)
    cfg_cases = []
    for raw in raw_shapes:
        try:
            shape, cfgs = concretise_shape(raw)
        except Exception as ex:
            machinery_failure(PID, f"could not concretise a random shape: {type(ex).__name__}: {ex}")
        sh = rec.shape_index(shape)
        seen = set()
        for cfg in cfgs:
            key = json.dumps(cfg, sort_keys=True)
            if key not in seen:
                seen.add(key)
                cfg_cases.append((sh, shape, cfg))
    res = run_pool(run_cfg_case, [(i, sh, shape, cfg, str(work), mode) for i, (sh, shape, cfg) in enumerate(cfg_cases)])
    skipped = sum(1 for r in res if r["note"])
    collect_cfg(rec, [r for r in res if not r["note"]], cfg_cases, "hypothesis", rep)
    rep.extra["dump_traces" + sfx] = {"leaf_inputs": len(leaf_cases), "shapes": len(raw_shapes), "configurations": len(cfg_cases), "configurations_not_fixpoints_skipped": skipped,
                                "leaf_observations": len(rec.leafs) - n0l, "cfg_observations": len(rec.cfgs) - n0c}


# ---------------------------------------------------------------- main
def main(argv):
    from concurrent.futures import ThreadPoolExecutor

    tier = "thorough" if (argv and argv[0] == "thorough") else "quick"
    rep = Report(PID, tier)
    rep.assumptions = [
        "characters are abstracted to the symbols of Scalars.tla (printable ASCII as itself, named line breaks / controls, classes UNI UDIG USP CSP CTL NPR for the rest); "
        "the real round trip is additionally compared on the python objects (deep typed equality) and must agree with TLC's verdict on every observation",
        "numbers are identified by their canonical spelling (str(int), repr(float)); what float a non-canonical spelling denotes is Python's business (kinds are compared)",
        "PyYAML's scanner / emitter for plain and double-quoted scalars, json.dumps / json escapes and float repr are trusted; single-quoted and JSON strings with raw line breaks are modelled",
        "the type grammar is str/int/float/bool/None, Enum, Literal, Optional/Union, List/Set/Tuple/Dict[str|int], dataclasses inside containers, nested groups (two declaration styles) and one level of sub-commands; "
        "Any, registered / restricted types (C20), subclass specs (C14) and links (C15) are outside this check",
        "configurations are those a real parser stored for plain (JSON-like) inputs; dump / save get a deep copy of the configuration because dump rewrites lists nested in tuples of its argument (C08)",
        "--print_config=comments goes through ruyaml, which is not modelled: failures on that route are excused only for values holding strings whose reading depends on the YAML schema",
    ]
    tmp = common.scratch("c01")
    clock = common.Timer()
    timing = rep.extra.setdefault("timing_s", {})

    def mark(name):
        timing[name] = clock.s()

    try:
        MODES = [m for m in ("json", "jsonnet") if "modes" in PARTS]
        with ThreadPoolExecutor(max_workers=6) as pool:
            fut_sc = pool.submit(tlc.run, "MC_Scalars", f"MC_Scalars_{tier}", workers=DEV_WORKERS, timeout=2400, heap=DEV_HEAP, env=JVM_ENV) if "scalars" in PARTS else None
            fut_du = pool.submit(tlc.run, "MC_Dump", f"MC_Dump_{tier}", workers=DEV_WORKERS, timeout=2400, heap=DEV_HEAP, env=JVM_ENV) if "dump" in PARTS else None
            # round 4: the same bounded grammar with ArgumentParser(parser_mode="json" | "jsonnet") (cfg: ParserMode <- ...)
            fut_mode = {m: pool.submit(tlc.run, "MC_Dump", f"MC_Dump_{tier}_{m}", workers=max(2, DEV_WORKERS // 8), timeout=2400, heap=DEV_HEAP, env=JVM_ENV) for m in MODES}
            # meanwhile: the hypothesis-driven inputs (pure python)
            texts = hypothesis_texts(1000 if tier == "quick" else 12000, tier) if "scalars" in PARTS else []
            floats = hypothesis_floats(300 if tier == "quick" else 3000) if "scalars" in PARTS else []
            leaf_cases = hypothesis_leaf_cases(200 if tier == "quick" else 4000) if "hyp" in PARTS else []
            raw_shapes = hypothesis_shapes(30 if tier == "quick" else 500) if "hyp" in PARTS else []
            mark("hypothesis_inputs_generated")
            fut_ts = None
            if fut_sc is not None:
                mc_sc = fut_sc.result()
                mark("MC_Scalars_done")
                scalar_level(rep, tier, tmp, mc_sc)
                mark("scalar_replay_done")
                f, obs, fobs = scalar_traces_observe(tier, tmp, texts, floats)
                mark("scalar_traces_observed")
                fut_ts = pool.submit(tlc.run, "Trace_Scalars", "Trace_Scalars", workers=DEV_WORKERS, env={"TRACE_FILE": str(f), **JVM_ENV}, timeout=2400, heap=DEV_HEAP)
            rec = DumpRecorder()
            recs = {m: DumpRecorder() for m in MODES}
            fut_tr = {}
            for m in MODES:  # the mode instances first: TLC validates their observations while the yaml-mode replay runs
                dump_level(rep, tier, tmp, fut_mode[m].result(), recs[m], m)
                if "hyp" in PARTS:  # hypothesis-driven (type, input) cases beyond the bounds, in that mode (quick: every other one)
                    dump_traces(rep, tier, tmp, recs[m], leaf_cases[:: (2 if m == "json" else 6)] if tier == "thorough" else leaf_cases[(m == "json")::6],
                                raw_shapes[:: (4 if m == "json" else 20)] if tier == "thorough" else [], m)
                fut_tr[m] = pool.submit(trace_dump_run, recs[m], tmp, m, f"Trace_Dump_{m}")
                mark(f"dump_replay_{m}_done")
            if fut_du is not None:
                mc_du = fut_du.result()
                mark("MC_Dump_done")
                dump_level(rep, tier, tmp, mc_du, rec)
                mark("dump_replay_done")
            if "hyp" in PARTS:
                dump_traces(rep, tier, tmp, rec, leaf_cases, raw_shapes)
                mark("dump_traces_observed")
            validate_dump_trace(rep, rec, tmp, "all")
            mark("Trace_Dump_done")
            for m in MODES:
                validate_dump_trace(rep, recs[m], tmp, m, fut_tr[m].result(), m)
            mark("Trace_Dump_modes_done")
            if fut_ts is not None:
                scalar_traces_classify(rep, fut_ts.result(), texts, floats, obs, fobs)
    finally:
        common.rm(tmp)
    rep.rule = ("cases = texts (scalar level), (type, value, format, route) observations and (parser shape, configuration, format, skip_none, skip_default, route) observations; "
                "non-trivial & distinct = distinct texts whose prediction or observation is not the default one (not a plain str read back as itself), distinct (type, value, format) "
                "whose value is not an int / bool / None and whose re-parse did not raise, and distinct (shape, configuration, format, flags)")
    sm, dm = rep.extra.get("scalars_model", {}), rep.extra.get("dump_model", {})
    rep.exhaustive = False
    rep.explanation = (f"MC_Scalars enumerated exhaustively every text over the alphabet '{sm.get('alphabet')}' up to length {sm.get('maxlen')} plus {sm.get('fixed_words')} fixed words "
                       f"({sm.get('texts')} texts, every one replayed on the real dumper / loader); MC_Dump enumerated {dm.get('cases')} (type, input, format) and (shape, configuration, "
                       "format, flags) cases of its bounded grammar, every one replayed on real parsers over the three routes; hypothesis-driven texts, floats, types to depth 4 and "
                       "random parser shapes were recorded and validated by TLC against Trace_Scalars / Trace_Dump. The spaces themselves (all strings, all type hints) are unbounded.")
    return rep.finish()


if __name__ == "__main__":
    args = sys.argv[1:]
    if args and args[0] == "--replay":
        print(open(args[1]).read())
        sys.exit(0)
    sys.exit(main(args))
