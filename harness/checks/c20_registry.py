"""C20 (round 4) -- the global type registry as a state machine: spec/Registry.tla, MC_Registry, Trace_Registry.

  MC      tlc MC_Registry: every sequence of Depth operations of the machines "handlers" (register_type with three
          handlers x fail_already_registered, uses through the RegisteredType.deserializer wrapper / a parser / dump) and
          "create" (restricted_string_type / restricted_number_type with names and specifications that collide in the
          registry key or in the name).  TLC checks that the code-shaped Alg layer refines Ref and emits every behaviour.
  REPLAY  every emitted behaviour is run on the real jsonargparse with fresh classes / names / patterns and each step is
          compared with what TLC printed (Ref -> VIOLATION or the named deviation, Alg -> drift).
  TRACE   seeded random longer behaviours are executed, recorded and validated by TLC (Trace_Registry re-runs Ref and Alg
          over the recorded operations).
"""
from __future__ import annotations

import os
import re as _re

from jsonargparse import ArgumentParser, Namespace
import operator as _op

from jsonargparse.typing import extend_base_type, get_registered_type, register_type, restricted_number_type, restricted_string_type

_CMP = {">": _op.gt, ">=": _op.ge, "<": _op.lt, "<=": _op.le, "==": _op.eq, "!=": _op.ne}


def _attrs_validation(cls, v):
    """validation function of the extend_base_type flavour of machine alias: reads the restrictions from the class attribute _rs"""
    if isinstance(v, bool):
        raise ValueError("not a number")
    if isinstance(v, float) and not v.is_integer():
        raise ValueError("not an integer")
    vv = int(v)
    if not all(_CMP[op](vv, ref) for op, ref in cls._rs):
        raise ValueError(f"{v} does not conform to {cls._rs}")

_COUNTER = [0]


def _uid() -> int:
    _COUNTER[0] += 1
    return _COUNTER[0]


def ser_a(v):
    return "a:" + v.v


def ser_b(v):
    return "b:" + v.v


SER = {"a": ser_a, "b": ser_b}
SER_TAG = {"hA": "a", "hB": "b", "hC": "a"}
DESER_TAG = {"hA": "a", "hB": "b", "hC": "b"}


class World:
    """the concrete objects of one behaviour: fresh user classes, their handler functions, one parser per class (made at the
    first use and kept, so that a later registration meets an existing parser), fresh names / patterns / references"""

    def __init__(self, flavour="list"):
        self.flavour = flavour  # machine alias: "list" = restricted_number_type(name, int, caller's list); "attrs" = extend_base_type(..., extra_attrs=caller's dict)
        self.uid = _uid()
        self.cls = {}
        self.deser = {}
        self.parsers = {}
        self.created = []  # types returned by the creation calls so far
        # machine "alias": the caller-owned list a type is created from (mutated afterwards), the types by name
        self.ref0 = 200000 + 10 * self.uid
        self.bounds = [(">=", self.ref0)]
        self.by_name = {}
        self.aparsers = {}
        self.attrs = {"_rs": tuple(self.bounds), "_expression": "attrs"}  # the caller-owned dict of the "attrs" flavour

    def klass(self, c):
        if c not in self.cls:
            class U:  # noqa: B903
                def __init__(self, v):
                    self.v = v

                def __eq__(self, o):
                    return type(o) is type(self) and o.v == self.v

                def __hash__(self):
                    return hash(self.v)

            U.__name__ = U.__qualname__ = f"C20U{c}{self.uid}"
            self.cls[c] = U

            def deser_a(text, U=U):
                if isinstance(text, str) and text.startswith("a:"):
                    return U(text[2:])
                raise ValueError("expected a:<payload>")

            def deser_b(text, U=U):
                if isinstance(text, str) and text.startswith("b:"):
                    return U(text[2:])
                raise KeyError("expected b:<payload>")

            self.deser[c] = {"a": deser_a, "b": deser_b}
        return self.cls[c]

    def parser(self, c):
        if c not in self.parsers:
            p = ArgumentParser(exit_on_error=False)
            p.add_argument("--x", type=self.klass(c))
            self.parsers[c] = p
        return self.parsers[c]

    # ---- the operations: each returns what was observed
    def reg(self, c, h, fail):
        U = self.klass(c)
        try:
            register_type(U, SER[SER_TAG[h]], self.deser[c][DESER_TAG[h]], fail_already_registered=fail)
            return {"out": "ok"}
        except ValueError:
            return {"out": "raise"}
        except BaseException as ex:  # noqa: BLE001
            return {"out": "raise:" + type(ex).__name__}

    def use(self, c, ttag):
        U = self.klass(c)
        text = ttag + ":x"
        try:
            r = get_registered_type(U).deserializer(text)
            wrapper = "value" if (type(r) is U and r.v == "x") else "other"
        except BaseException as ex:  # noqa: BLE001
            wrapper = type(ex).__name__
        res = {}
        for chan in ("cli", "object"):
            try:
                p = self.parser(c)
                r = p.parse_args(["--x=" + text]).x if chan == "cli" else p.parse_object({"x": text}).x
                res[chan] = "value" if (type(r) is U and r.v == "x") else "other"
            except BaseException as ex:  # noqa: BLE001
                res[chan] = "fail:" + type(ex).__name__
        return {"out": wrapper, **res}

    def dump(self, c):
        U = self.klass(c)
        try:
            text = self.parser(c).dump(Namespace(x=U("x")), format="json")
        except BaseException as ex:  # noqa: BLE001
            return {"out": "raise:" + type(ex).__name__}
        return {"out": "a" if '"a:x"' in text else "b" if '"b:x"' in text else "other:" + text[:40]}

    def create(self, name, spec):
        nm = None if name == "auto" else f"C20R{self.uid}{name}"
        ref = 100000 + self.uid
        try:
            if spec in ("S1", "S1i"):
                T = restricted_string_type(nm, _re.compile(f"^a+$(?#{self.uid})", _re.IGNORECASE if spec == "S1i" else 0))
            elif spec == "S2":
                T = restricted_string_type(nm, f"^b+$(?#{self.uid})")
            else:
                T = restricted_number_type(nm, int, [(">", ref)], join="and" if spec == "Nand" else "or")
        except ValueError as ex:
            return {"out": "raise", "sem": [False, False, False], "msg": str(ex)[:80]}
        except BaseException as ex:  # noqa: BLE001
            return {"out": "raise:" + type(ex).__name__, "sem": [False, False, False]}
        out = "existing" if any(T is t for t in self.created) else "new"
        self.created.append(T)
        probes = ["a", "A", "b"] if spec.startswith("S") else [ref + 1, ref, ref - 1]
        sem = []
        for pr in probes:
            try:
                sem.append(T(pr) == pr)
            except (ValueError, TypeError):
                sem.append(False)
        return {"out": out, "sem": sem, "python_type": getattr(T, "__name__", str(T))}

    # ---- machine "alias"
    def _probe_values(self):
        return [self.ref0 - 1, self.ref0, self.ref0 + 1, self.ref0 + 2]

    def _sem_direct(self, T):
        out = []
        for pr in self._probe_values():
            try:
                out.append(T(pr) == pr)
            except (ValueError, TypeError):
                out.append(False)
        return out

    def createa(self, name):
        nm = f"C20A{self.uid}{name}"
        try:
            if self.flavour == "attrs":  # the caller's dict itself is handed over; docstring and key are values
                T = extend_base_type(nm, int, _attrs_validation, docstring=f"int restricted by {self.attrs['_rs']}", extra_attrs=self.attrs,
                                     register_key=(tuple(sorted(self.bounds)), int, "c20-attrs"))
            else:
                T = restricted_number_type(nm, int, self.bounds)  # the caller's list itself is handed over
        except ValueError as ex:
            return {"out": "raise", "sem": [False] * 4, "msg": str(ex)[:80]}
        except BaseException as ex:  # noqa: BLE001
            return {"out": "raise:" + type(ex).__name__, "sem": [False] * 4}
        out = "existing" if any(T is t for t in self.by_name.values()) else "new"
        self.by_name.setdefault(name, T)
        return {"out": out, "sem": self._sem_direct(T), "expr": self._expr(T), "python_type": T.__name__, "same_as_named": self.by_name[name] is T}

    def _expr(self, T):
        if self.flavour == "attrs":  # what the class says about itself: its _rs attribute, rendered like typing.py:144 renders restrictions
            rs = getattr(T, "_rs", None)
            return "?" if rs is None else " and ".join(f"v{op}{ref}" for op, ref in rs)
        return getattr(T, "_expression", "?")

    def mutate(self, how):
        if how == "append":
            self.bounds.append(("<=", self.ref0 + 1))
        elif how == "clear":
            self.bounds.clear()
        else:
            self.bounds[0] = (">", self.ref0)
        self.attrs["_rs"] = tuple(self.bounds)  # "attrs" flavour: the entry of the caller's dict is replaced
        self.attrs["_added_later"] = len(self.bounds)
        return {"out": "ok", "sem": [False] * 4, "list_now": [[op, r - self.ref0] for op, r in self.bounds]}

    def probe(self, name):
        T = self.by_name[name]
        if name not in self.aparsers:
            p = ArgumentParser(exit_on_error=False)
            p.add_argument("--x", type=T)
            self.aparsers[name] = p
        p = self.aparsers[name]
        res = {"out": "probed", "sem": self._sem_direct(T), "expr": self._expr(T), "python_type": T.__name__, "cli": [], "object": [], "file": []}
        for pr in self._probe_values():
            for chan, call in (("cli", lambda: p.parse_args([f"--x={pr}"]).x), ("object", lambda: p.parse_object({"x": pr}).x), ("file", lambda: p.parse_string(f"x: {pr}\n").x)):
                try:
                    r = call()
                    res[chan].append(bool(r == pr and isinstance(r, T)))
                except BaseException:  # noqa: BLE001
                    res[chan].append(False)
        return res

    def expr_of(self, cont):
        """gamma of a content printed by TLC (sequence of [op, offset]) into the expression text of typing.py:144"""
        return " and ".join(f"v{op}{self.ref0 + off}" for op, off in cont)

    def step(self, o):
        if o["op"] == "createa":
            return self.createa(o["name"])
        if o["op"] == "mutate":
            return self.mutate(o["h"])
        if o["op"] == "probe":
            return self.probe(o["name"])
        if o["op"] == "reg":
            return self.reg(o["c"], o["h"], o["fail"])
        if o["op"] == "use":
            return self.use(o["c"], o["h"])
        if o["op"] == "dump":
            return self.dump(o["c"])
        return self.create(o["name"], o["spec"])


def op_label(o) -> str:
    if o["op"] == "reg":
        return f"register_type({o['c']}, {o['h']}, fail_already_registered={o['fail']})"
    if o["op"] == "use":
        return f"parse {o['h']}:x as {o['c']}"
    if o["op"] == "dump":
        return f"dump {o['c']}('x')"
    if o["op"] == "createa":
        return f"restricted_number_type({o['name']}, int, bounds)"
    if o["op"] == "mutate":
        return {"append": "bounds.append(('<=', r+1))", "clear": "bounds.clear()", "set0": "bounds[0] = ('>', r)"}[o["h"]]
    if o["op"] == "probe":
        return f"probe the type named {o['name']}"
    return f"restricted type {o['spec']} named {o['name']}"


def allowed(ref: str, got: str) -> bool:
    return got in ref.split("|")


def judge_alias(rep, o, exp, want, ob, case, hist, world):
    """machine alias: the type stands for the content it was created from (want = Ref's acceptance vector, exp.cont = that content)"""
    if o["op"] == "mutate":
        return
    expr = world.expr_of(exp["cont"]) if world is not None else None
    if o["op"] == "probe":
        for chan in ("sem", "cli", "object", "file"):
            if list(ob[chan]) != list(want):
                rep.violation(f"create:alias:probe:{'direct' if chan == 'sem' else chan}", f"after {hist[:-1]}: the type named {o['name']} accepts {ob[chan]} on the probes (r-1, r, r+1, r+2) via {'a direct cast' if chan == 'sem' else chan}; "
                              f"the content it was created from accepts {list(want)} (it must not follow the caller's list)", case)
        if expr is not None and ob.get("expr") != expr:
            rep.violation("create:alias:expression", f"after {hist[:-1]}: the type named {o['name']} describes itself as {ob.get('expr')!r}; it was created from {expr!r}", case)
        return
    ok = allowed(exp["ref"], ob["out"]) and (ob["out"] == "raise" or list(ob["sem"]) == list(want))
    if not ok:
        rep.violation(f"create:alias:create:{ob['out']}:{''.join('1' if b else '0' for b in ob['sem'])}",
                      f"after {hist[:-1]}: {hist[-1]} gave {ob['out']} with acceptance {ob['sem']}; the specification allows {exp['ref']} with acceptance {list(want)} (the list holds {exp['cont']})", case)
    elif ob["out"] != exp["alg"]:
        rep.add_drift(f"type creation from a caller-owned list: Alg predicts {exp['alg']} ({exp['why']}), the code gave {ob['out']}", case)
    elif ob["out"] != "raise" and expr is not None and ob.get("expr") != expr:
        rep.violation("create:alias:expression", f"after {hist[:-1]}: {hist[-1]} returned a type that describes itself as {ob.get('expr')!r}; the content is {expr!r}", case)


def judge_step(rep, ops, q, exp, want, ob, origin, world=None):
    """compare one observed step with what the specification says (exp = [ref, alg, why, dev, sem] of that step)"""
    o = ops[q]
    if o["op"] in ("createa", "mutate", "probe"):
        hist = [op_label(x) for x in ops[: q + 1]]
        case = {"origin": origin, "history": hist, "operations": ops[: q + 1], "operation": o, "expected": exp, "expected_acceptance": list(want), "observed": ob}
        rep.note_nontrivial("registry|" + "|".join(hist))
        judge_alias(rep, o, exp, want, ob, case, hist, world)
        return case
    hist = [op_label(x) for x in ops[: q + 1]]
    case = {"origin": origin, "history": hist, "operations": ops[: q + 1], "operation": o, "expected": exp, "observed": ob}
    rep.note_nontrivial("registry|" + "|".join(hist))
    if o["op"] == "reg":
        if ob["out"] != exp["ref"]:
            rep.violation(f"registry:register:{o['h']}:fail={o['fail']}:{ob['out']}", f"after {hist[:-1]}: {hist[-1]} gave {ob['out']}, the specification says {exp['ref']}", case)
    elif o["op"] == "use":
        for chan in ("cli", "object"):
            got = "value" if ob[chan] == "value" else "fail"
            if got != exp["ref"] or ob[chan] == "other":
                rep.violation(f"registry:use:{chan}:{exp['ref']}->{ob[chan]}", f"after {hist[:-1]}: {hist[-1]} via {chan} gave {ob[chan]}, the handler in force says {exp['ref']}", case)
        if ("value" if ob["out"] == "value" else "fail") != exp["ref"]:
            rep.violation(f"registry:use:wrapper:{exp['ref']}->{ob['out']}", f"after {hist[:-1]}: the deserializer in force gave {ob['out']} on {o['h']}:x, expected {exp['ref']}", case)
        elif ob["out"] != exp["alg"]:
            rep.add_drift(f"RegisteredType.deserializer: Alg predicts {exp['alg']}, the code gave {ob['out']}", case)
    elif o["op"] == "dump":
        if ob["out"] != exp["ref"]:
            rep.violation(f"registry:dump:{exp['ref']}->{ob['out']}", f"after {hist[:-1]}: the dump used serializer {ob['out']}, the handler in force has {exp['ref']}", case)
    else:
        ok = allowed(exp["ref"], ob["out"]) and (ob["out"] == "raise" or list(ob["sem"]) == list(want))
        if not ok:
            if exp["dev"] != "-" and ob["out"] == exp["alg"] and list(ob["sem"]) == list(exp["sem"]):
                rep.violation(f"create:{exp['dev']}", f"after {hist[:-1]}: {hist[-1]} returned the type registered before, which accepts {ob['sem']} on the probes (a, A, b) instead of {list(want)} (named deviation {exp['dev']})", case)
            else:
                rep.violation(f"create:{o['spec']}:{o['name']}:{ob['out']}:{''.join('1' if b else '0' for b in ob['sem'])}",
                              f"after {hist[:-1]}: {hist[-1]} gave {ob['out']} with acceptance {ob['sem']}; the specification allows {exp['ref']} with acceptance {list(want)}", case)
        elif ob["out"] != exp["alg"]:
            rep.add_drift(f"type creation: Alg predicts {exp['alg']} ({exp['why']}), the code gave {ob['out']}", case)
    return case


def replay_behaviours(rep, lines, origin="mc"):
    """spec -> code: run every emitted behaviour step by step"""
    n = 0
    for ln in lines:
        for flavour in (("list", "attrs") if ln["mach"] == "alias" else ("list",)):
            w = World(flavour)
            for q, o in enumerate(ln["ops"]):
                ob = w.step(o)
                n += 1
                case = judge_step(rep, ln["ops"], q, ln["outs"][q], ln["want"][q], ob, origin + (":" + flavour if ln["mach"] == "alias" else ""), w)
                if (ln["i"] % 401 == 0 or (ln["mach"] == "alias" and ln["i"] % 97 == 0)) and q == len(ln["ops"]) - 1:
                    rep.sample({"part": "registry", **case}, limit=20)
    return n


def alpha_expr(expr, ref0):
    """the expression text of a type ("v>=200010 and v<=200011") as a content: [[op, offset], ...]; [["?", 0]] when it has another form"""
    if expr is None:
        return [["-", 0]]
    if expr == "":
        return []
    out = []
    for part in expr.split(" and "):
        m = _re.fullmatch(r"v(>=|<=|==|!=|>|<)(-?\d+)", part)
        if not m:
            return [["?", 0]]
        out.append([m.group(1), int(m.group(2)) - ref0])
    return out


def random_behaviours(rnd, count, length):
    """code -> spec: seeded random longer behaviours, executed and recorded for Trace_Registry"""
    out = []
    for _ in range(count):
        mach = rnd.choice(["handlers", "create", "alias"])
        w = World(rnd.choice(["list", "attrs"]) if mach == "alias" else "list")
        ops, obs = [], []
        registered = set()
        shadow = [(">=", 0)]  # what the caller's list holds (bookkeeping of the driver, to pick enabled operations only)
        for _ in range(rnd.randint(4, length)):
            if mach == "alias":
                kinds = ["mutate"] * 2 + (["createa"] * 2 if shadow else []) + (["probe"] * 3 if w.by_name else [])
                kind = rnd.choice(kinds)
                if kind == "mutate":
                    hows = [h for h in ("append", "clear", "set0") if (h == "append" and len(shadow) < 2 and ("<=", 1) not in shadow) or (h == "clear" and shadow) or (h == "set0" and shadow and (">", 0) not in shadow)]
                    if not hows:
                        continue
                    how = rnd.choice(hows)
                    shadow = shadow + [("<=", 1)] if how == "append" else [] if how == "clear" else [(">", 0)] + shadow[1:]
                    o = {"op": "mutate", "c": "-", "h": how, "fail": False, "name": "-", "spec": "-"}
                elif kind == "createa":
                    o = {"op": "createa", "c": "-", "h": "-", "fail": False, "name": rnd.choice(["N1", "N2", "N3"]), "spec": "-"}
                else:
                    o = {"op": "probe", "c": "-", "h": "-", "fail": False, "name": rnd.choice(sorted(w.by_name)), "spec": "-"}
                ob = w.step(o)
                ops.append(o)
                z4 = [False] * 4
                obs.append({"out": ob["out"], "cli": [bool(b) for b in ob.get("cli", z4)], "object": [bool(b) for b in ob.get("object", z4)], "file": [bool(b) for b in ob.get("file", z4)],
                            "sem": [bool(b) for b in ob.get("sem", z4)], "expr": ob.get("expr", "-"), "econt": alpha_expr(ob.get("expr"), w.ref0)})
                continue
            if mach == "handlers":
                kind = rnd.choice(["reg", "reg", "use", "dump"]) if registered else "reg"
                if kind == "reg":
                    c = rnd.choice(["A", "A", "B"])
                    o = {"op": "reg", "c": c, "h": rnd.choice(["hA", "hB", "hC"]), "fail": rnd.random() < 0.5, "name": "-", "spec": "-"}
                    registered.add(c)
                elif kind == "use":
                    o = {"op": "use", "c": rnd.choice(sorted(registered)), "h": rnd.choice(["a", "b"]), "fail": False, "name": "-", "spec": "-"}
                else:
                    o = {"op": "dump", "c": rnd.choice(sorted(registered)), "h": "-", "fail": False, "name": "-", "spec": "-"}
            else:
                spec = rnd.choice(["S1", "S1i", "S2", "Nand", "Nor"])
                o = {"op": "create", "c": "-", "h": "-", "fail": False, "name": rnd.choice(["N1", "N2", "N3"] + (["auto"] if spec.startswith("N") else [])), "spec": spec}
            ob = w.step(o)
            ops.append(o)
            obs.append({"out": ob["out"], "cli": ob.get("cli", "-"), "object": ob.get("object", "-"), "sem": [bool(b) for b in ob.get("sem", [False, False, False])]})
        out.append({"mach": mach, "flavour": w.flavour if mach == "alias" else "-", "ops": ops, "obs": obs})
    return out
