"""C12 — auto_cli calls the component with exactly the parsed values.

  MC      tlc MC_Cli: one behaviour of the Alg machine of spec/Cli.tla (signature -> parser shape -> argv tokens ->
          sub-commands -> required check -> component lookup -> pops -> constructor / call) per case of a bounded
          universe of (component, command line) pairs; invariants AlgRefinesRef (the outcome is one the property
          allows), OneCall, OwnParameters, ReturnPassedThrough, NeverCrashes, ShapeLaws; every finished case is
          emitted as JSON together with the outcome the specification predicts.
  REPLAY  (spec -> code) every emitted case is concretised: a module with the callables is generated (each records
          (name, every parameter with the value it received) and returns a token), the abstract tokens are rendered
          as argv / --config text or file, auto_cli(component, args=...) is run, and the recorded call log and the
          return value are compared with the outcome TLC printed.
  ROUND 4 the same three steps also cover: components that raise / return falsy values / are coroutine functions,
          auto_cli(set_defaults=...), environment variables (default_env / env_prefix through the parser kwargs), untyped
          parameters (fail_untyped=False), class-typed parameters given as class_path specs, keyword-only parameters
          reached through **kwargs (signature resolver) -- see tools/design.d/C12.md, "Round 4".
  TRACE   (code -> spec) seeded random cases beyond TLC's bounds (up to 6 parameters, deeper dicts, classes with up
          to 3 methods inside lists/dicts, shuffled option/word order) are executed the same way; TLC validates every
          recorded observation -- and every replayed one that did not equal the printed outcome -- against
          Trace_Cli (Ref: verdict, Alg: drift).
"""
from __future__ import annotations

import hashlib
import importlib.util
import io
import json
import multiprocessing as mp
import os
import sys
from contextlib import redirect_stderr, redirect_stdout

from ..lib import common, tlc
from ..lib.evidence import Report, machinery_failure

common.check_repo_import()
import jsonargparse  # noqa: E402
from jsonargparse import ArgumentError, auto_cli  # noqa: E402

PID = "C12"
WORKERS = int(os.environ.get("VERIF_TLC_WORKERS", "16"))
HEAP = os.environ.get("VERIF_TLC_HEAP", "8g")

# ---------------------------------------------------------------- gamma: abstract -> real
PYTYPE = {"int": "int", "str": "str", "bool": "bool", "listint": "List[int]", "enum": "Color",
          "dictint": "Dict[str, int]", "tupis": "Tuple[int, str]", "unionis": "Union[int, str]",
          "opt_int": "Optional[int]", "opt_str": "Optional[str]", "opt_bool": "Optional[bool]",
          "opt_listint": "Optional[List[int]]", "opt_enum": "Optional[Color]",
          "opt_dictint": "Optional[Dict[str, int]]", "opt_tupis": "Optional[Tuple[int, str]]",
          "opt_any": None,
          "obj": "Base", "opt_obj": "Optional[Base]"}     # a class-typed parameter (given as a class_path / init_args spec)      # no type hint at all (auto_cli(fail_untyped=False))


def _dict_of(v) -> dict:
    d = v["d"]
    return {} if d == [] else {str(k): int(x) for k, x in d.items()}


def py_literal(v) -> str:
    k = v["k"]
    if k == "int":
        return repr(int(v["i"]))
    if k == "str":
        return repr(v["s"])
    if k == "bool":
        return "True" if v["b"] else "False"
    if k == "null":
        return "None"
    if k == "list":
        return repr([int(x) for x in v["l"]])
    if k == "enum":
        return "Color." + v["e"]
    if k == "dict":
        return repr(_dict_of(v))
    if k == "tup":
        return repr((int(v["ti"]), v["ts"]))
    raise ValueError(f"no literal for {v}")


def sig_text(params, method: bool) -> str:
    parts = ["self"] if method else []
    star = False
    for p in params:
        if p["kind"] == "ko" and not star:
            parts.append("*")
            star = True
        s = f"{p['n']}: {PYTYPE[p['t']]}" if PYTYPE[p["t"]] else p["n"]
        if p["hd"]:
            s += " = " + py_literal(p["d"])
        parts.append(s)
    return ", ".join(parts)


EXC_CLASS = {"boom": "Boom", "typeerr": "TypeError", "keyerr": "KeyError"}
RET_LITERAL = {"none": "None", "zero": "0", "empty": "[]", "false": "False"}


def body_text(logname: str, params, ret: bool, indent: str, attrs=None) -> str:
    """the callable records its arguments, then raises (rz) or returns (rk) what the case says"""
    attrs = attrs or {}
    kw = ", ".join(f"{p['n']!r}: {p['n']}" for p in params)
    out = f"{indent}LOG.append(({logname!r}, {{{kw}}}))\n"
    if attrs.get("rz"):
        out += f"{indent}_e = {EXC_CLASS[attrs['rz']]}({logname!r})\n{indent}RAISED.append(_e)\n{indent}raise _e\n"
    elif ret:
        rk = attrs.get("rk", "tok")
        out += f"{indent}return {RET_LITERAL[rk] if rk in RET_LITERAL else repr('ret:' + logname)}\n"
    return out


def split_kwargs(params):
    """round 4: the trailing keyword-only parameters with a default move into a helper that the callable reaches through
    **kwargs (jsonargparse finds them with its signature resolver, _parameter_resolvers.py); returns (own, moved)"""
    k = len(params)
    while k > 0 and params[k - 1]["kind"] == "ko" and params[k - 1]["hd"] and params[k - 1]["n"] != "config":
        k -= 1      # (a parameter called config stays in the signature: has_parameter(method, "config") of _cli.py looks there)
    return params[:k], params[k:]


def callable_source(defline: str, logname: str, params, ret: bool, indent: str, attrs, method: bool, kwres: bool):
    """source lines of one function / method; with kwres the trailing keyword-only parameters are declared by a helper
    function and received through **kwargs"""
    own, moved = split_kwargs(params) if kwres else (params, [])
    if not moved:
        return [], [f"{indent}{defline}({sig_text(params, method)}):", body_text(logname, params, ret, indent + "    ", attrs)]
    helper = "_kw_" + logname.replace(".", "_")
    hkw = ", ".join(f"{p['n']!r}: {p['n']}" for p in moved)
    helper_src = [f"def {helper}({sig_text(moved, False)}):", f"    return {{{hkw}}}", "", ""]
    out = []
    sig = sig_text(own, method)
    out.append(f"{indent}{defline}({sig + ', ' if sig else ''}**kwargs):")
    body = body_text(logname, own, ret, indent + "    ", attrs)
    first, rest = body.split("\n", 1)
    first = first[:-3] + (", " if own else "") + f"**{helper}(**kwargs)}}))"
    out.append(first + "\n" + rest)
    return helper_src, out


def module_source(leaves, kwres: bool = False) -> str:
    src = ["from enum import Enum", "from typing import Dict, List, Optional, Tuple, Union", "", "LOG = []", "RAISED = []", "", "",
           "class Boom(Exception):", "    pass", "", "",
           "class Color(Enum):", "    A = 1", "    B = 2", "", "",
           "class Base:", "    def __init__(self, x: int = 1):", "        self.x = x", "", "",
           "class Sub(Base):", "    def __init__(self, x: int = 1, y: str = 'y'):", "        super().__init__(x)", "        self.y = y", "", ""]
    seen = set()
    for lf in leaves:
        c = lf["c"]
        if c["name"] in seen:
            raise ValueError("duplicate callable name " + c["name"])
        seen.add(c["name"])
        if c["k"] == "fn":
            helper, lines = callable_source(f"{'async ' if c.get('co') else ''}def {c['name']}", c["name"], c["params"], True, "", c, False, kwres)
            src += helper + lines
        else:
            body = [f"class {c['name']}:", f"    def __init__({sig_text(c['params'], True)}):",
                    body_text(c["name"] + ".__init__", c["params"], False, "        ", {"rz": c.get("rz", "")})]
            for m in c["methods"]:
                helper, lines = callable_source(f"{'async ' if m.get('co') else ''}def {m['name']}", c["name"] + "." + m["name"], m["params"], True, "    ", m, True, kwres)
                src += helper
                body += lines
            src += body
        src.append("")
    return "\n".join(src)


_CUR = {"mod": "?"}      # name of the generated module of the case being rendered (class_path of a spec)


def spec_of(v) -> dict:
    return {"class_path": f"{_CUR['mod']}.{v['c']}", "init_args": {"x": int(v["x"])}}


def text_of(v) -> str:
    """the command line text of a value (Text of Cli.tla; lists as JSON)"""
    k = v["k"]
    if k == "spec":
        return json.dumps(spec_of(v), separators=(",", ":"))
    if k == "str":
        return v["s"]
    if k == "int":
        return str(int(v["i"]))
    if k == "bool":
        return "true" if v["b"] else "false"
    if k == "null":
        return "null"
    if k == "list":
        return json.dumps([int(x) for x in v["l"]], separators=(",", ":"))   # no blank: argparse takes "--x=[1, 2]" for a word
    if k == "dict":
        return json.dumps(_dict_of(v), separators=(",", ":"))
    if k == "tup":
        return json.dumps([int(v["ti"]), v["ts"]], separators=(",", ":"))
    raise ValueError(f"no text for {v}")


def json_of(v):
    k = v["k"]
    if k == "spec":
        return spec_of(v)
    if k == "map":
        m = v["m"]
        return {} if m == [] else {n: json_of(x) for n, x in m.items()}
    if k == "str":
        return v["s"]
    if k == "int":
        return int(v["i"])
    if k == "bool":
        return bool(v["b"])
    if k == "null":
        return None
    if k == "list":
        return [int(x) for x in v["l"]]
    if k == "dict":
        return _dict_of(v)
    if k == "tup":
        return [int(v["ti"]), v["ts"]]
    raise ValueError(f"no json for {v}")


def render_argv(argv, flavour: int, scratch: str, tag: str):
    """abstract tokens -> list of str.  flavour bits: 1 two-token options, 2 config as file, 4 yaml config."""
    out = []
    nfile = 0
    for t in argv:
        if t["k"] == "pos":
            out.append(text_of(t["v"]))
        elif t["k"] == "opt":
            if flavour & 1:
                out += ["--" + t["n"], text_of(t["v"])]
            else:
                out.append("--" + t["n"] + "=" + text_of(t["v"]))
        elif t["k"] == "cfg":
            m = t["m"]
            data = {} if m == [] else {n: json_of(x) for n, x in m.items()}
            if flavour & 4:
                import yaml

                text = yaml.safe_dump(data, default_flow_style=False) if data else "{}"
            else:
                text = json.dumps(data)
            if flavour & 2:
                nfile += 1
                path = os.path.join(scratch, f"cfg_{tag}_{nfile}.yaml")
                with open(path, "w") as f:
                    f.write(text)
                out += ["--config", path]
            else:
                out += ["--config", text] if flavour & 1 else ["--config=" + text]
        else:
            raise ValueError(f"unknown token {t}")
    return out


def py_value(v, mod):
    """the Python object of an abstract value (for set_defaults)"""
    k = v["k"]
    if k == "enum":
        return mod.Color[v["e"]]
    if k == "tup":
        return (int(v["ti"]), v["ts"])
    return json_of(v)


def ret_token(r) -> str:
    """alpha of the value auto_cli returned (type-exact)"""
    if isinstance(r, str):
        return r
    if r is None:
        return "None"
    if type(r) is bool:
        return f"bool:{r}"
    if type(r) is int:
        return f"int:{r}"
    if type(r) is list:
        return "list:" + repr(r)[:40]
    return "?" + repr(r)[:60]


ENV_PREFIXES = ["APP", "my-app", False]     # auto_cli(env_prefix=...): dashes become underscores, False = no prefix


def env_name(prefix, lvl, name) -> str:
    """the variable jsonargparse reads for `name` at level lvl (get_env_var: prefix, levels and name joined, "." -> "__", upper)"""
    parts = [x for x in list(lvl) + [name]]
    body = "__".join(parts)
    if prefix:
        body = prefix.replace("-", "_") + "_" + body
    return body.upper()


def environ_of(case, prefix) -> dict:
    out = {}
    for e in case.get("env") or []:
        if e["k"] == "evar":
            out[env_name(prefix, e["lvl"], e["n"])] = text_of(e["v"])
        elif e["k"] == "esel":
            out[env_name(prefix, e["lvl"], "subcommand")] = e["v"]["s"]
        elif e["k"] == "ecfg":
            m = e["m"]
            out[env_name(prefix, e["lvl"], "config")] = json.dumps({} if m == [] else {n: json_of(x) for n, x in m.items()})
        else:
            raise ValueError(f"unknown environment entry {e}")
    return out


def build_component(mod, case, flavour: int):
    leaves = case["leaves"]
    if len(leaves) == 1 and leaves[0]["path"] == []:
        return getattr(mod, leaves[0]["c"]["name"])
    flat = all(len(lf["path"]) == 1 for lf in leaves)
    if flat and all(lf["path"][0] == lf["c"]["name"] for lf in leaves) and not (flavour & 8):
        return [getattr(mod, lf["c"]["name"]) for lf in leaves]  # a list of components (named by __name__)
    tree: dict = {}
    for lf in leaves:
        d = tree
        for name in lf["path"][:-1]:
            d = d.setdefault(name, {})
        d[lf["path"][-1]] = getattr(mod, lf["c"]["name"])
    return tree


# ---------------------------------------------------------------- alpha: real -> abstract
def alpha(v):
    if v is None:
        return {"k": "null"}
    if type(v) is bool:
        return {"k": "bool", "b": v}
    if type(v) is int:
        return {"k": "int", "i": v} if abs(v) < 2**31 else {"k": "other", "s": repr(v)}
    if type(v) is str:
        return {"k": "str", "s": v}
    if type(v) is list and all(type(x) is int for x in v):
        return {"k": "list", "l": list(v)}
    if type(v) is dict and all(type(k) is str and type(x) is int for k, x in v.items()):
        return {"k": "dict", "d": dict(v)}
    if type(v) is tuple and len(v) == 2 and type(v[0]) is int and type(v[1]) is str:
        return {"k": "tup", "ti": v[0], "ts": v[1]}
    if type(v).__name__ in ("Base", "Sub") and type(getattr(v, "x", None)) is int:
        return {"k": "obj", "c": type(v).__name__, "x": v.x}
    if type(v).__name__ == "Color" and hasattr(v, "name"):
        return {"k": "enum", "e": v.name}
    return {"k": "other", "s": f"{type(v).__name__}:{v!r}"[:80]}


_MODS: dict = {}


def load_module(leaves, scratch: str, kwres: bool = False):
    src = module_source(leaves, kwres)
    h = hashlib.sha1(src.encode()).hexdigest()[:16]
    key = (os.getpid(), h)
    if key not in _MODS:
        path = os.path.join(scratch, f"cli_{os.getpid()}_{h}.py")
        with open(path, "w") as f:
            f.write(src)
        spec = importlib.util.spec_from_file_location(f"verif_cli_{h}", path)
        mod = importlib.util.module_from_spec(spec)
        sys.modules[spec.name] = mod
        spec.loader.exec_module(mod)
        _MODS[key] = mod
    return _MODS[key], h


def execute(case, flavour: int, scratch: str):
    """run one case on the real auto_cli; returns (obs, python reproduction)"""
    kwres = bool(flavour & 128)      # trailing keyword-only parameters of functions are reached through **kwargs (signature resolver)
    mod, h = load_module(case["leaves"], scratch, kwres)
    _CUR["mod"] = mod.__name__
    argv = render_argv(case["argv"], flavour, scratch, f"{os.getpid()}_{h}")
    comp = build_component(mod, case, flavour)
    kwargs = {"as_positional": bool(case["aspos"])}
    if not (flavour & 16):
        kwargs["exit_on_error"] = False
    if any(p["t"] == "opt_any" for lf in case["leaves"] for ps in [lf["c"]["params"]] + [m["params"] for m in lf["c"]["methods"]] for p in ps):
        kwargs["fail_untyped"] = False
    if case.get("sd"):
        kwargs["set_defaults"] = {".".join(list(e["lvl"]) + [e["n"]]): py_value(e["v"], mod) for e in case["sd"]}
    environ = {}
    if case.get("env") or case.get("envon"):
        prefix = ENV_PREFIXES[(flavour >> 5) % 3]
        if any(k in os.environ for k in environ_of(case, prefix)):
            prefix = "VERIFC12"             # (a variable of that name exists in the harness process: use a prefix nobody has)
        kwargs["env_prefix"] = prefix
        if case.get("envon"):
            kwargs["default_env"] = True
        environ = environ_of(case, prefix)
        clash = [k for k in environ if k in os.environ]
        if clash:
            raise ValueError(f"environment variable(s) {clash} already set in the harness process")
    mod.LOG.clear()
    mod.RAISED.clear()
    err = ""
    buf = io.StringIO()
    try:
        os.environ.update(environ)
        try:
            with redirect_stderr(buf), redirect_stdout(buf):
                r = auto_cli(comp, args=list(argv), **kwargs)
        finally:
            for k in environ:
                os.environ.pop(k, None)
        out = "ok"
    except ArgumentError as ex:
        out, r, err = "reject", None, str(ex)[:300]
    except SystemExit as ex:
        out, r = ("reject" if ex.code == 2 else f"exit:{ex.code}"), None
        err = buf.getvalue()[-300:]
    except Exception as ex:  # anything else escaping auto_cli is not an outcome the property allows
        if mod.RAISED and ex is mod.RAISED[-1] and len(mod.RAISED) == 1:
            # the component's own exception, the very object it raised: "propagates unchanged"
            kind = {"Boom": "boom", "TypeError": "typeerr", "KeyError": "keyerr"}.get(type(ex).__name__, "?")
            out, r, err = "raise", f"exc:{kind}:{ex.args[0] if ex.args else '?'}", ""
        else:
            out, r, err = "crash", None, type(ex).__name__ + ": " + str(ex)[:300]
            if mod.RAISED:
                err += "  [the component raised " + repr(mod.RAISED) + "]"
    calls = [{"name": n, "kw": {k: alpha(v) for k, v in kw.items()}} for n, kw in mod.LOG]
    if out == "ok":
        obs = {"out": "ok", "calls": calls, "ret": ret_token(r)}
    elif out == "raise":
        obs = {"out": "raise", "calls": calls, "ret": r}
    elif out == "reject" and not calls:
        obs = {"out": "reject", "calls": [], "ret": ""}
    elif out == "crash":
        obs = {"out": "crash", "calls": [], "ret": ""}      # the calls made before the exception are kept in `err`
        err += f"  [calls before the exception: {[c['name'] for c in calls]}]"
    else:
        obs = {"out": out if not calls else out + "-after-call", "calls": calls, "ret": ""}
    comp_txt = ("list" if isinstance(comp, list) else "dict" if isinstance(comp, dict) else "single")
    py = (f"# module:\n{module_source(case['leaves'], kwres)}\n# auto_cli(<{comp_txt} of the callables above, paths "
          f"{[lf['path'] for lf in case['leaves']]}>, args={argv!r}, {', '.join(f'{k}={v!r}' for k, v in kwargs.items())})"
          + (f"   with os.environ + {environ!r}" if environ else ""))
    return obs, py, err


def canon_outcome(o) -> str:
    def val(x):      # TLC prints an empty function as []
        return {"k": "dict", "d": {}} if x.get("k") == "dict" and x["d"] == [] else x

    def kw(x):
        return {} if x == [] else {n: val(v) for n, v in x.items()}
    return json.dumps({"out": o["out"], "calls": [{"name": c["name"], "kw": kw(c["kw"])} for c in o["calls"]], "ret": o["ret"]},
                      sort_keys=True)


def flavour_of(idx: int, salt: int) -> int:
    r = (idx * 2654435761 + salt * 40503) & 0xFFFFFFFF
    fl = r & 1                      # two-token options
    if (r >> 3) % 5 == 0:
        fl |= 2                     # config through a file
    if (r >> 7) % 3 == 0:
        fl |= 4                     # YAML instead of JSON
    if (r >> 11) % 2 == 0:
        fl |= 8                     # flat components as a dict instead of a list
    if (r >> 13) % 4 == 0:
        fl |= 16                    # default exit_on_error (SystemExit 2)
    fl |= ((r >> 17) % 3) << 5      # env_prefix flavour (only used by cases with an environment)
    if (r >> 21) % 4 == 0:
        fl |= 128                   # functions receive their trailing keyword-only parameters through **kwargs
    return fl


_G = {}


def _work(args):
    idx, case, flavour = args
    try:
        obs, py, err = execute(case, flavour, _G["scratch"])
        return idx, obs, py, err
    except Exception as ex:  # gamma failed: machinery, reported by the parent
        return idx, {"out": "machinery:" + type(ex).__name__ + ":" + str(ex)[:200], "calls": [], "ret": ""}, "", ""


def run_all(cases, flavours, scratch, procs=16):
    _G["scratch"] = scratch
    jobs = [(i, c, flavours[i]) for i, c in enumerate(cases)]
    ctx = mp.get_context("fork")
    with ctx.Pool(procs) as pool:
        res = pool.map(_work, jobs, chunksize=64)
    res.sort(key=lambda r: r[0])
    return res


def run_isolated(case, flavour, scratch):
    """re-run one case in a fresh forked child (confirms that a disagreement is not an artefact of process state)"""
    _G["scratch"] = scratch
    ctx = mp.get_context("fork")
    with ctx.Pool(1) as pool:
        return pool.apply(_work, ((0, case, flavour),))


# ---------------------------------------------------------------- random cases beyond TLC's bounds
TYPES = ["int", "str", "bool", "opt_int", "listint", "enum", "int", "str", "opt_listint", "opt_dictint", "opt_tupis", "dictint", "tupis", "unionis",
         "int", "str", "bool", "opt_int", "listint", "enum", "int", "str", "opt_listint", "opt_dictint", "opt_tupis", "dictint", "tupis", "unionis", "opt_any", "opt_any"]


_RND = {"obj_ok": False}     # class-typed parameters only in cases without positional words (a spec never lands on another parameter)


def rnd_value(rnd, t, src, which=None):
    w = which if which is not None else rnd.randint(1, 3)
    if t in ("obj", "opt_obj"):
        if t == "opt_obj" and rnd.random() < 0.2:
            return {"k": "null"}
        return {"k": "spec", "c": rnd.choice(["Base", "Sub"]), "x": rnd.randint(0, 9)}
    if t.startswith("opt_") and t != "opt_int":
        return {"k": "null"} if rnd.random() < 0.25 else rnd_value(rnd, t[4:], src, which)
    if t == "any":       # an untyped parameter takes anything
        return rnd.choice([{"k": "int", "i": rnd.randint(0, 50)}, {"k": "str", "s": rnd.choice(["ab", "cd", "Zed"])}, {"k": "bool", "b": rnd.random() < 0.5},
                           {"k": "list", "l": [rnd.randint(0, 9) for _ in range(rnd.randint(0, 2))]}, {"k": "dict", "d": {rnd.choice(["k", "q"]): rnd.randint(0, 9)}}])
    if t == "dictint":
        return {"k": "dict", "d": ({} if rnd.random() < 0.3 else {rnd.choice(["k", "q"]): rnd.randint(0, 9)})}
    if t == "tupis":
        return {"k": "tup", "ti": rnd.randint(0, 9), "ts": rnd.choice(["y", "z"])}
    if t == "unionis":
        if src == "argv":
            return rnd.choice([{"k": "str", "s": rnd.choice(["ab", "cd"])}, {"k": "int", "i": rnd.randint(0, 50)}, {"k": "bool", "b": True}])
        return rnd.choice([{"k": "str", "s": rnd.choice(["ab", "7", "40"])}, {"k": "int", "i": rnd.randint(0, 50)}])
    if t == "int":
        return {"k": "int", "i": [3, -2, 40, 0][w % 4] if w < 3 else rnd.randint(-99, 999)}
    if t == "str":
        if src == "argv":
            return rnd.choice([{"k": "str", "s": rnd.choice(["ab", "cd", "x_y", "Zed"])}, {"k": "int", "i": rnd.randint(0, 50)},
                               {"k": "bool", "b": True}, {"k": "null"}])
        return {"k": "str", "s": rnd.choice(["ab", "cd", "x_y", "Zed", "12", "true"])}
    if t == "bool":
        return {"k": "bool", "b": rnd.random() < 0.5}
    if t == "opt_int":
        return {"k": "null"} if rnd.random() < 0.3 else {"k": "int", "i": rnd.randint(-9, 99)}
    if t == "listint":
        return {"k": "list", "l": [rnd.randint(0, 9) for _ in range(rnd.randint(0, 3))]}
    if t == "enum":
        return {"k": "str", "s": rnd.choice(["A", "B"])}
    raise ValueError(t)


def rnd_wrong(rnd, t, src):
    if t.startswith("opt_") and t != "opt_int":
        t = t[4:]
    if t in ("dictint", "tupis", "any", "obj"):
        return {"k": "int", "i": 3}
    if t == "unionis":
        return {"k": "bool", "b": True}
    return {"int": {"k": "str", "s": "ab"}, "str": ({"k": "bool", "b": True} if src == "argv" else {"k": "int", "i": 12}),
            "bool": {"k": "int", "i": 1}, "opt_int": {"k": "bool", "b": True}, "listint": {"k": "int", "i": 3},
            "enum": {"k": "str", "s": "Z"}}[t]


def rnd_default(rnd, t):
    if t in ("obj", "opt_obj"):
        return {"k": "null"}
    if t == "int":
        return rnd.choice([{"k": "int", "i": 7}, {"k": "int", "i": 0}, {"k": "null"}])
    if t == "str":
        return rnd.choice([{"k": "str", "s": "dflt"}, {"k": "str", "s": ""}, {"k": "null"}])
    if t == "bool":
        return {"k": "bool", "b": rnd.random() < 0.5}
    if t == "opt_int":
        return rnd.choice([{"k": "int", "i": 5}, {"k": "null"}])
    if t == "listint":
        return rnd.choice([{"k": "list", "l": [1, 2]}, {"k": "list", "l": []}, {"k": "null"}])
    if t == "enum":
        return rnd.choice([{"k": "enum", "e": "B"}, {"k": "enum", "e": "A"}])
    if t == "any":
        return rnd.choice([{"k": "int", "i": 2}, {"k": "str", "s": "x"}, {"k": "bool", "b": True}, {"k": "list", "l": [1]}])
    if t.startswith("opt_"):
        return rnd.choice([{"k": "null"}, rnd_default(rnd, t[4:])])
    if t == "unionis":
        return rnd.choice([{"k": "str", "s": "ab"}, {"k": "int", "i": 3}, {"k": "str", "s": "5"}])
    if t == "dictint":
        return rnd.choice([{"k": "dict", "d": {"a": 1}}, {"k": "dict", "d": {}}, {"k": "null"}])
    return rnd.choice([{"k": "tup", "ti": 1, "ts": "x"}, {"k": "null"}])


PNAMES = ["a", "b", "c", "d", "e", "f", "x1", "flag", "n_2", "val", "p"]


def rnd_sig(rnd, maxn=6, allow_empty=True):
    n = rnd.randint(0 if allow_empty else 1, maxn)
    names = rnd.sample(PNAMES, n)
    if n and rnd.random() < 0.1:
        names[rnd.randrange(n)] = "_h"
    ps = []
    ko = False
    seen_default = False
    for i, nm in enumerate(names):
        t = rnd.choice(TYPES + ["obj", "opt_obj", "obj"]) if _RND["obj_ok"] else rnd.choice(TYPES)
        hd = rnd.random() < 0.5 or nm == "_h" and rnd.random() < 0.8
        if not ko and (seen_default and not hd or rnd.random() < 0.25):
            ko = True
        seen_default = seen_default or hd
        ps.append({"n": nm, "kind": "ko" if ko else "pk", "t": t, "hd": hd, "d": rnd_default(rnd, t) if hd else {"k": "none"}})
    return ps


def is_required(p):
    return not p["hd"] and not p["t"].startswith("opt_")


def _not_empty(v):
    """an unknown config key whose value is {} is silently dropped by jsonargparse (an empty branch has no leaf key to
    validate; C06's subject): settings for parameters that are NOT offered never use the empty dict"""
    return {"k": "dict", "d": {"k": 1}} if v.get("k") == "dict" and not v["d"] else v


def rnd_level_tokens(rnd, ps, aspos, p_bad=0.06):
    """tokens giving a random subset of the parameters of one level, in random ways"""
    early, late, words, opts = {}, {}, [], []
    no_cfg = any(p["n"] == "config" for p in ps)      # a level with a parameter called config has no config-file option
    for p in ps:
        req = is_required(p) and aspos
        mode = rnd.choices(["absent", "arg", "cfg", "cfg_arg", "arg_cfg", "bad_arg", "bad_cfg", "null"],
                           [2 if not req else 0.4, 6, 3, 1.5, 1.5, p_bad * 10, p_bad * 10, 0.5])[0]
        if no_cfg and mode in ("cfg", "cfg_arg", "arg_cfg", "bad_cfg"):
            mode = "arg"
        if mode == "absent":
            continue
        hidden = p["n"].startswith("_") and not is_required(p)
        if mode in ("cfg", "cfg_arg"):
            early[p["n"]] = _not_empty(rnd_value(rnd, p["t"], "cfg")) if hidden else rnd_value(rnd, p["t"], "cfg")
        if mode in ("arg", "cfg_arg", "arg_cfg", "bad_arg", "null"):
            v = rnd_wrong(rnd, p["t"], "argv") if mode == "bad_arg" else {"k": "null"} if mode == "null" else rnd_value(rnd, p["t"], "argv")
            if req:
                words.append({"k": "pos", "v": v})
            else:
                opts.append({"k": "opt", "n": p["n"], "v": v})
        if mode in ("arg_cfg", "bad_cfg"):
            late[p["n"]] = rnd_wrong(rnd, p["t"], "cfg") if mode == "bad_cfg" else rnd_value(rnd, p["t"], "cfg")
            if hidden:
                late[p["n"]] = _not_empty(late[p["n"]])
    # words keep their order; options are shuffled and interleaved with the words
    rnd.shuffle(opts)
    mid = []
    wi, oi = 0, 0
    while wi < len(words) or oi < len(opts):
        if oi >= len(opts) or (wi < len(words) and rnd.random() < 0.5):
            mid.append(words[wi])
            wi += 1
        else:
            mid.append(opts[oi])
            oi += 1
    toks = ([{"k": "cfg", "m": early}] if early else []) + mid + ([{"k": "cfg", "m": late}] if late else [])
    return toks


def full_map(rnd, leaves, lvl, sel, expl):
    """ONE config for the whole component (FullMap of MC_Cli): settings of every level, sections for all sibling
    sub-commands; expl: the sub-commands along `sel` are selected by "subcommand" keys inside the config"""
    def settings(ps):
        return {p["n"]: rnd_value(rnd, p["t"], "cfg") for p in ps if not (p["n"].startswith("_") and not is_required(p))}

    leaf = next((lf for lf in leaves if lf["path"] == lvl), None)
    out, subs = {}, []
    if leaf is not None:
        out = settings(leaf["c"]["params"])
        if leaf["c"]["k"] == "cls":
            for m in leaf["c"]["methods"]:
                sec = settings(m["params"]) if m["name"] != "config" and all(p["n"] != "config" for p in m["params"]) else {}
                subs.append(m["name"])
                if sec:
                    out[m["name"]] = {"k": "map", "m": sec}
    else:
        is_method = any(lf["path"] == lvl[:-1] and lf["c"]["k"] == "cls" for lf in leaves) if lvl else False
        if not is_method:
            for lf in leaves:
                if lf["path"][:len(lvl)] == lvl and len(lf["path"]) > len(lvl) and lf["path"][len(lvl)] not in subs:
                    subs.append(lf["path"][len(lvl)])
            for name in subs:
                sec = full_map(rnd, leaves, lvl + [name], sel, expl) if name != "config" else {}    # "config" is the option's own dest
                if sec:
                    out[name] = {"k": "map", "m": sec}
    if expl and subs and len(sel) > len(lvl) and sel[:len(lvl)] == lvl:
        out["subcommand"] = {"k": "str", "s": sel[len(lvl)]}
    return out


def rnd_case(rnd, idx):
    aspos = rnd.random() < 0.85
    _RND["obj_ok"] = not aspos
    kind = rnd.choices(["fn", "cls", "list", "dict"], [4, 3, 2, 3])[0]
    fnames = ["f", "g", "h", "run", "fit", "conf"]   # (a component called config is outside the universe: see MC_Cli.tla, shape 8)
    cnames = ["K", "Tool"]
    gnames = ["grp", "top", "mid"]
    mpool = ["m1", "m2", "go", "apply"]
    if rnd.random() < 0.3:
        # names that are also attributes of jsonargparse's Namespace: functions, groups and methods called like that
        ns = ["get", "update", "pop", "clone", "items", "keys", "values"]
        rnd.shuffle(ns)
        fnames = ns[:4] + rnd.sample(fnames, 2)
        gnames = [ns[4], ns[5], rnd.choice(["mid", ns[6]])]
        mpool = rnd.sample(ns, 3) + ["m1"]

    def mk_fn(name, maxn=6):
        return {"k": "fn", "name": name, "params": rnd_sig(rnd, maxn), "methods": []}

    def mk_cls(name):
        mnames = sorted(rnd.sample(mpool, rnd.randint(1, 3)))
        init = [p for p in rnd_sig(rnd, 4) if p["n"] not in mnames]
        meths = [{"name": m, "params": rnd_sig(rnd, 4)} for m in mnames]
        if rnd.random() < 0.06:       # a METHOD parameter called config (recorded deviation)
            m = rnd.choice(meths)
            if m["params"] and all(p["n"] != "config" for p in m["params"]):
                m["params"][-1] = dict(m["params"][-1], n="config")
        return {"k": "cls", "name": name, "params": init, "methods": meths}

    leaves = []
    if kind == "fn":
        leaves = [{"path": [], "c": mk_fn("f")}]
    elif kind == "cls":
        leaves = [{"path": [], "c": mk_cls("K")}]
    elif kind == "list":
        names = rnd.sample(fnames, rnd.randint(2, 3))
        leaves = [{"path": [n], "c": mk_fn(n, 4)} for n in names]
        if rnd.random() < 0.4:
            leaves.insert(rnd.randrange(len(leaves) + 1), {"path": ["K"], "c": mk_cls("K")})
    else:
        pool = rnd.sample(fnames, 4) + rnd.sample(cnames, 1)
        rnd.shuffle(pool)
        g_grp, g_top, g_mid = gnames
        paths = [[g_grp, pool[0]], [g_grp, pool[1]], [pool[2]]]
        if rnd.random() < 0.5:
            paths.append([g_top, g_mid, pool[3]])
        if rnd.random() < 0.4:
            paths.append([g_top, pool[4]] if any(p[0] == g_top for p in paths) else [pool[4]])
        for p in paths:
            leaves.append({"path": p, "c": mk_cls(p[-1]) if p[-1] in cnames else mk_fn(p[-1], 4)})
    # choose the leaf to run and build the command line
    lf = rnd.choice(leaves)
    toks = []
    r = rnd.random()
    for name in lf["path"]:
        toks.append({"k": "pos", "v": {"k": "str", "s": name}})
    if r < 0.04 and lf["path"]:
        toks = toks[:-1]                                   # stops before the leaf
    elif r < 0.07:
        toks.append({"k": "pos", "v": {"k": "str", "s": "zz"}})   # a word nobody takes
    else:
        c = lf["c"]
        toks += rnd_level_tokens(rnd, c["params"], aspos)
        if c["k"] == "cls":
            m = rnd.choice(c["methods"])
            if rnd.random() < 0.93:
                toks.append({"k": "pos", "v": {"k": "str", "s": m["name"]}})
                toks += rnd_level_tokens(rnd, m["params"], aspos)
        # implicit form: everything through one root config (only when nothing is given in another way)
        if rnd.random() < 0.15 and "config" not in lf["path"]:
            sect = {p["n"]: rnd_value(rnd, p["t"], "cfg") for p in c["params"] if rnd.random() < 0.8 and p["n"] != "_h"}
            if c["k"] == "cls":
                m = rnd.choice(c["methods"])
                ms = {p["n"]: rnd_value(rnd, p["t"], "cfg") for p in m["params"] if rnd.random() < 0.8 and p["n"] != "_h"}
                if m["name"] == "config" or any(p["n"] == "config" for p in m["params"]):
                    ms = {}
                if ms:
                    sect[m["name"]] = {"k": "map", "m": ms}
            if sect and (c["k"] == "fn" or any(isinstance(v, dict) and v.get("k") == "map" for v in sect.values())):
                m2 = sect
                for name in reversed(lf["path"]):
                    m2 = {name: {"k": "map", "m": m2}}
                toks = [{"k": "cfg", "m": m2}]
    # --config with sections for ALL siblings (no "subcommand" key) after k words of the path; the words name the component;
    # options for the callable at the end (bindings = its config section overlaid by the options)
    if rnd.random() < 0.15 and (lf["path"] or lf["c"]["k"] == "cls"):
        meth = rnd.choice(lf["c"]["methods"]) if lf["c"]["k"] == "cls" else None
        sel = list(lf["path"]) + ([meth["name"]] if meth else [])
        k = rnd.randint(0, len(lf["path"]))
        m = full_map(rnd, leaves, list(lf["path"][:k]), sel, False)
        final = meth["params"] if meth else lf["c"]["params"]
        if not any(p["n"] == "config" for p in final):
            # (no option tail when the class takes words itself: the method name would be taken for a parameter and an option
            #  like --c={} written for the method would be read by the class level as an abbreviation of --config)
            eats_words = meth is not None and aspos and any(is_required(p) for p in lf["c"]["params"])
            tail = [] if eats_words else [
                {"k": "opt", "n": p["n"], "v": rnd_value(rnd, p["t"], "argv")} for p in final
                if not (is_required(p) and aspos) and not p["n"].startswith("_") and rnd.random() < 0.4]
            words = [{"k": "pos", "v": {"k": "str", "s": n}} for n in sel]
            toks = words[:k] + ([{"k": "cfg", "m": m}] if m else []) + words[k:] + tail
    # the whole component configured by one --config: sections for sibling sub-commands at every level, selection inside
    if rnd.random() < 0.12 and (lf["path"] or lf["c"]["k"] == "cls"):
        sel = list(lf["path"]) + ([rnd.choice(lf["c"]["methods"])["name"]] if lf["c"]["k"] == "cls" else [])
        m = full_map(rnd, leaves, [], sel, rnd.random() < 0.6)
        if m:
            toks = [{"k": "cfg", "m": m}]
    case = {"id": ["R", idx], "aspos": aspos, "leaves": leaves, "argv": toks}
    rnd_round4(rnd, case)
    return case


def rnd_sd_value(rnd, t):
    """a Python-level value of the declared type for set_defaults (None only for Optional types; no str of digits for the Union)"""
    if t == "unionis":
        return rnd.choice([{"k": "str", "s": "cd"}, {"k": "int", "i": rnd.randint(0, 50)}])
    v = rnd_value(rnd, t, "cfg")
    base = t[4:] if t.startswith("opt_") else t
    if base == "enum" and v["k"] == "str":
        return {"k": "enum", "e": v["s"]}
    return v


def rnd_round4(rnd, case):
    """round 4: set_defaults on random parameters of random levels (selected or not), callables that raise / return falsy
    values / are coroutine functions"""
    callables = []          # (level, record, params, is_init)
    for lf in case["leaves"]:
        c = lf["c"]
        callables.append((lf["path"], c, c["params"], c["k"] == "cls"))
        for m in c["methods"]:
            callables.append((lf["path"] + [m["name"]], m, m["params"], False))
    if rnd.random() < 0.3:
        sd = []
        for lvl, _, ps, _ in callables:
            for p in ps:
                if p["n"] == "config" or (p["n"].startswith("_") and not is_required(p)) or p["t"] in ("obj", "opt_obj"):
                    continue
                if rnd.random() < 0.45:
                    sd.append({"lvl": list(lvl), "n": p["n"], "v": rnd_sd_value(rnd, p["t"])})
        if sd:
            case["sd"] = sd
    if rnd.random() < 0.3:
        # the environment: variables for random parameters of random levels (a few ill-typed, one that names nothing),
        # SUBCOMMAND variables for random levels, the config variable with settings of the root level's own parameters
        env = []
        for lvl, _, ps, _ in callables:
            for p in ps:
                if p["n"] != "config" and rnd.random() < 0.4:
                    v = rnd_wrong(rnd, p["t"], "argv") if rnd.random() < 0.04 else rnd_value(rnd, p["t"], "argv")
                    env.append({"k": "evar", "lvl": list(lvl), "n": p["n"], "v": v})
        if rnd.random() < 0.2:
            env.append({"k": "evar", "lvl": list(rnd.choice(callables)[0]), "n": "zz9", "v": {"k": "int", "i": 1}})
        subs: dict = {}
        for lf in case["leaves"]:
            for i in range(len(lf["path"])):
                subs.setdefault(tuple(lf["path"][:i]), [])
                if lf["path"][i] not in subs[tuple(lf["path"][:i])]:
                    subs[tuple(lf["path"][:i])].append(lf["path"][i])
            if lf["c"]["k"] == "cls":
                subs[tuple(lf["path"])] = [m["name"] for m in lf["c"]["methods"]]
        for lvl, names in subs.items():
            if rnd.random() < 0.5:
                env.append({"k": "esel", "lvl": list(lvl), "v": {"k": "str", "s": rnd.choice(names)}})
        root = next((lf["c"] for lf in case["leaves"] if lf["path"] == []), None)
        if root is not None and rnd.random() < 0.25 and all(p["n"] != "config" for p in root["params"]):
            m = {p["n"]: rnd_value(rnd, p["t"], "cfg") for p in root["params"]
                 if not (p["n"].startswith("_") and not is_required(p)) and rnd.random() < 0.6}
            if m:
                env.append({"k": "ecfg", "lvl": [], "m": m})
        elif (rnd.random() < 0.2 and not any(p["n"] == "config" for _, _, ps, _ in callables for p in ps)
              and all(len(lf["path"]) + (1 if lf["c"]["k"] == "cls" else 0) <= 1 for lf in case["leaves"])):
            # (one level of sub-commands only: what _load_env_vars does with sections BELOW a selected sub-command is not transcribed)
            m = full_map(rnd, case["leaves"], [], [], False)       # sections for every sub-command (with a SUBCOMMAND variable: the recorded deviation)
            if m:
                env.append({"k": "ecfg", "lvl": [], "m": m})
        if env:
            rnd.shuffle(env)
            case["envon"] = rnd.random() < 0.85
            case["env"] = env
    if rnd.random() < 0.2:
        rnd.choice(callables)[1]["rz"] = rnd.choice(["boom", "typeerr", "keyerr"])
    if rnd.random() < 0.3:
        for _, rec, _, is_init in callables:
            if not is_init and rnd.random() < 0.5:
                rec["rk"] = rnd.choice(["none", "zero", "empty", "false"])
    if rnd.random() < 0.15:
        for _, rec, _, is_init in callables:
            if not is_init and rnd.random() < 0.5:
                rec["co"] = True


# ---------------------------------------------------------------- classification helpers
def violation_key(case, obs, exp) -> str:
    kinds = sorted({lf["c"]["k"] for lf in case["leaves"]})
    shape = "single" if len(case["leaves"]) == 1 and case["leaves"][0]["path"] == [] else "tree"
    toks = "".join({"pos": "w", "opt": "o", "cfg": "c"}[t["k"]] for t in case["argv"])[:12]
    return f"{shape}:{'+'.join(kinds)}:{toks}:{obs['out']}:expected-{exp}"


def nontrivial_key(case, obs):
    """distinct & non-trivial: the call happened and at least one parameter was bound to a given (non-default) value"""
    if obs["out"] != "ok":
        return None
    sig = json.dumps([[lf["path"], lf["c"]["k"], [[p["t"], p["hd"], p["kind"]] for p in lf["c"]["params"]],
                       [[[p["t"], p["hd"]] for p in m["params"]] for m in lf["c"]["methods"]]] for lf in case["leaves"]])
    toks = json.dumps([case["argv"], case.get("sd"), case.get("env")], sort_keys=True)
    if not case["argv"] and not case.get("env"):
        return None
    return hashlib.sha1((sig + toks).encode()).hexdigest()


# ---------------------------------------------------------------- main
def main(argv):
    tier = "thorough" if (argv and argv[0] == "thorough") else "quick"
    rep = Report(PID, tier)
    rnd = common.rng(PID)
    rep.assumptions = [
        "the conversion of one value to the declared type is shared by Ref and Alg (it is the subject of C02): values are drawn from a vocabulary whose text form is unambiguous (ints, plain words, true/false, null, JSON lists, enum names)",
        "generated callables record every parameter with the value received (so defaults applied by Python itself are visible) and return a token; alpha is type-exact (bool is not int)",
        "grammar: positional-or-keyword and keyword-only parameters of types int, str, bool, Optional[int], List[int], Enum, with/without default (also default None on a non-Optional hint, and a private parameter with default); components: function, list, nested dict, class with 1-3 methods (also inside lists/dicts)",
        "config maps name settings of the sub-command that runs (settings of several sub-commands in one config: only the implicit-selection rule 'first configured choice' is modelled, as an Alg-level choice among the outcomes Ref allows)",
        "error wording and the exception class beyond ArgumentError / SystemExit(2) are not compared",
        "argparse's acceptance of a unique abbreviation (--co for --config) is not modelled: options are only written with their full name and only for parameters that are options at that level",
        "the option strings of a parser are modelled as in this environment (shtab installed: --print_shtab exists, so --p is a prefix of two options)",
        "round 4: a component that raises is observed as outcome 'raise' only when the exception escaping auto_cli IS the object the component raised; exception classes Boom(Exception), TypeError, KeyError; return values: a token, None, 0, [], False; coroutine functions",
        "round 4: set_defaults is given as {dotted key: well-typed Python value} (None only for Optional types, no str of digits for Union[int, str]); nested dicts instead of dotted keys, ill-typed values and private parameters are outside the universe",
        "round 4: environment = variables of parameters at every level, SUBCOMMAND variables, the root CONFIG variable (own settings, or sections for ONE level of sub-commands in random cases); env_prefix 'APP' / 'my-app' / False chosen per case (a prefix nobody has when a variable of that name already exists in the harness process); which of a config-variable SECTION and a sub-command's own variable wins is not pinned (both accepted), an ill-typed variable of a sub-command that does not run may or may not be reported",
        "round 4: untyped parameters (fail_untyped=False) take int / word / bool / list / dict / null values; class-typed parameters use one family (Base, Sub(Base)) and full class_path + init_args.x specs, and appear in random cases only when as_positional=False; the **kwargs flavour moves only keyword-only parameters with a default of functions and methods (never one called config)",
    ]
    scratch = str(common.scratch("c12"))
    try:
        # ---- MC
        cfgname = f"MC_Cli_{tier}"
        mc = tlc.run("MC_Cli", cfgname, workers=WORKERS, timeout=3000, heap=HEAP)
        rep.add_tlc(cfgname, mc)
        if mc.errors:
            if mc.violated:
                rep.violation("model:" + ",".join(mc.violated), f"TLC: invariant {mc.violated} violated in the bounded model (Alg does not refine Ref)",
                              {"tlc_errors": mc.errors, "counterexample": mc.cex[:4000]})
                return rep.finish()
            machinery_failure(PID, "TLC failed on MC_Cli:\n" + mc.stdout[-3000:])
        cases = [p for p in mc.printed if isinstance(p, dict) and "leaves" in p and "exp" in p]
        if not cases:
            machinery_failure(PID, "MC_Cli emitted no case")
        cases.sort(key=lambda c: json.dumps(c["id"]))
        ids = {json.dumps(c["id"]) for c in cases}
        if len(ids) != len(cases):
            machinery_failure(PID, f"duplicate case ids in the emission ({len(cases)} lines, {len(ids)} ids)")
        rep.extra["mc_cases"] = len(cases)
        rep.extra["mc_cases_ok"] = sum(1 for c in cases if c["exp"]["out"] == "ok")
        stages: dict = {}
        for c in cases:   # non-vacuity: how many cases end in which action / failure branch of the Alg machine, per universe
            kk = f"{c['id'][0]}:{c.get('at', '?')}" + (f":{len(c['exp']['calls'])}calls" if c["exp"]["out"] == "ok" else "")
            stages[kk] = stages.get(kk, 0) + 1
        rep.extra["mc_outcome_stage_counts"] = dict(sorted(stages.items()))

        # ---- REPLAY of the emitted cases (thorough: all of them as well; they are cheap)
        # cases whose --config carries sections for siblings and is followed by words are replayed twice: config as a string and as a file
        twice = [dict(c, id=c["id"] + ["file"]) for c in cases if c["id"][0] in ("K", "T") and c["id"][-1] == 8]
        cases = cases + twice
        flav = [flavour_of(i, common.seed()) for i in range(len(cases))]
        for i, c in enumerate(cases):
            if c["id"][0] in ("K", "T") and len(c["id"]) > 1 and 8 in c["id"][-2:]:
                flav[i] = (flav[i] | 2) if c["id"][-1] == "file" else (flav[i] & ~2)
        res = run_all(cases, flav, scratch)
        to_validate = []   # (case, obs, py, err, origin, flavour)
        n_equal = 0
        for (i, obs, py, err), case in zip(res, cases):
            if obs["out"].startswith("machinery:"):
                machinery_failure(PID, f"gamma failed on case {case['id']}: {obs['out']}")
            same = canon_outcome(obs) == canon_outcome(case["exp"])
            n_equal += 1 if same else 0
            if same and case["exp"]["out"] != "crash" and not case.get("dev"):
                k = nontrivial_key(case, obs)
                if k:
                    rep.note_nontrivial(k)
            else:
                to_validate.append((case, obs, py, err, "replay", flav[i]))
            if i in (0, len(cases) // 3, 2 * len(cases) // 3):
                rep.sample({"origin": "replay of a TLC-emitted case", "case": {k: case[k] for k in ("id", "aspos", "leaves", "argv", "sd", "envon", "env") if k in case},
                            "expected": case["exp"], "observed": obs, "python": py})
        rep.extra["replayed"] = len(cases)
        rep.extra["replay_equal_to_printed_outcome"] = n_equal
        rep.extra["mc_cases_with_deviation"] = sum(1 for c in cases if c.get("dev"))

        # ---- random cases beyond the bounds
        nrand = 2000 if tier == "quick" else 25000
        rcases = [rnd_case(rnd, i) for i in range(nrand)]
        rflav = [flavour_of(i, common.seed() + 17) for i in range(nrand)]
        rres = run_all(rcases, rflav, scratch)
        for (i, obs, py, err), case in zip(rres, rcases):
            if obs["out"].startswith("machinery:"):
                machinery_failure(PID, f"gamma failed on random case {i}: {obs['out']}\n{json.dumps(case)[:2000]}")
            to_validate.append((case, obs, py, err, "random", rflav[i]))
        rep.extra["random_cases"] = nrand

        # ---- TRACE: TLC validates the recorded observations
        rejects = {}
        chunk = 20000
        for c0 in range(0, len(to_validate), chunk):
            part = to_validate[c0:c0 + chunk]
            f = os.path.join(scratch, f"trace_{c0}.json")
            with open(f, "w") as fh:
                json.dump([{"cs": {k: c[k] for k in ("aspos", "leaves", "argv", "sd", "envon", "env") if k in c}, "obs": o} for c, o, *_ in part], fh)
            tr = tlc.run("Trace_Cli", "Trace_Cli", workers=WORKERS, env={"TRACE_FILE": f}, timeout=3000, heap=HEAP)
            rep.add_tlc(f"Trace_Cli[{c0}]", tr)
            done = {p[1] for p in tr.printed if isinstance(p, list) and p and p[0] == "D"}
            if tr.errors or len(done) != len(part):
                machinery_failure(PID, f"trace validation failed (finished {len(done)} of {len(part)} cases):\n" + tr.stdout[-3000:])
            for p in tr.printed:
                if isinstance(p, list) and p and p[0] == "R":
                    rejects.setdefault(c0 + p[1] - 1, set()).add(p[2])
            os.unlink(f)

        n_rand_ok = 0
        n_confirm = 0
        for j, (case, obs, py, err, origin, fl) in enumerate(to_validate):
            clauses = rejects.get(j, set())
            if origin == "random":
                k = nontrivial_key(case, obs)
                if k and "ref" not in clauses:
                    rep.note_nontrivial(k)
                    n_rand_ok += 1
                if j % max(1, len(to_validate) // 3) == 1:
                    rep.sample({"origin": "random case validated by TLC (Trace_Cli)", "case": case, "observed": obs, "python": py})
            if not clauses:
                if origin == "replay" and canon_outcome(obs) != canon_outcome(case["exp"]):
                    machinery_failure(PID, f"case {case['id']}: the replay differs from the outcome MC_Cli printed but Trace_Cli accepts it (MC and Trace disagree)")
                continue
            info = {"case": case, "observed": obs, "error_text": err, "failed_clauses": sorted(clauses), "origin": origin, "python": py,
                    "flavour": fl}
            if "ref-dev-envcfg-as-alg" in clauses:
                rep.violation("env-config-section:lost-with-subcommand-variable", "settings of a sub-command given through the config environment variable are lost when the SUBCOMMAND environment variable selects that sub-command", info)
                continue
            if "ref-dev-subconfig-as-alg" in clauses:
                rep.violation("sub-named-config:rejected", "a component / method called config cannot be selected: its name is taken for the --config option's value and the parse is rejected", info)
                continue
            if "ref-dev-cfgparam-as-alg" in clauses:
                rep.violation("method-parameter-named-config:dropped", "the value of a method parameter called config is dropped by _run_component", info)
                continue
            if "ref-dev-uniondefault-as-alg" in clauses:
                rep.violation("union-default-digits:int", "the signature default '5' of a Union[int, str] parameter reaches the callee as 5", info)
                continue
            if "ref-dev-abbrev-as-alg" in clauses:
                rep.violation("abbrev-ambiguity:sub-option-prefix-of-parent-options", "an option of a sub-command is rejected as ambiguous by an enclosing parser", info)
                continue
            if "ref-dev-as-alg" in clauses:
                rep.violation("private-optional-no-default:crash", "a private Optional parameter without default is skipped but Python requires it: TypeError", info)
                continue
            if "ref-dev-other" in clauses:
                clauses = (clauses - {"ref-dev-other"}) | {"ref"}
            if "alg-not-ref" in clauses:
                rep.violation("model:alg-not-ref", "on a recorded case the transcribed algorithm produces an outcome the property does not allow", info)
                continue
            if "ref" in clauses:
                # confirm in a fresh process before reporting (the first 40; a flood of disagreements is not an artefact)
                n_confirm += 1
                obs2 = run_isolated(case, fl, scratch)[1] if n_confirm <= 40 else obs
                info["confirmed_in_fresh_process"] = n_confirm <= 40
                if canon_outcome(obs2) != canon_outcome(obs):
                    info["isolated_rerun"] = obs2
                    rep.violation("state-dependent:" + violation_key(case, obs, "?"),
                                  "the outcome of a case depends on what the process ran before (differs in a fresh child)", info)
                    continue
                exp = "reject" if obs["out"] == "ok" else "ok-or-other"
                rep.violation(violation_key(case, obs, exp), "auto_cli's call log / return value / rejection is not an outcome the property allows", info)
            else:
                rep.add_drift("real code agrees with Ref but not with the Alg transcription", info)
        rep.traces = len(cases) + nrand
        rep.evaluations = rep.traces
        rep.extra["validated_by_trace_spec"] = len(to_validate)
        rep.extra["random_cases_ok_nontrivial"] = n_rand_ok
        rep.rule = ("cases = (component, command line) pairs: every case of the bounded universe of MC_Cli (replayed on the real auto_cli and compared with "
                    "the outcome TLC printed) plus seeded random cases validated by TLC against Trace_Cli; non-trivial & distinct = distinct "
                    "(signatures, tokens) pairs for which the component was really called (outcome ok) with at least one token on the command line")
        rep.exhaustive = False
        rep.explanation = (f"MC_Cli explored one behaviour per case of its universe ({len(cases)} cases, {mc.distinct} states) with all invariants; all {len(cases)} emitted "
                           f"cases were replayed on the real auto_cli ({n_equal} equal to the printed outcome), {nrand} random cases beyond the bounds were executed; "
                           f"{len(to_validate)} observations were validated by TLC against Trace_Cli. Exhaustive only w.r.t. the stated universe of MC_Cli.")
    finally:
        common.rm(scratch)
    return rep.finish()


if __name__ == "__main__":
    args = sys.argv[1:]
    if args and args[0] == "--replay":
        print(open(args[1]).read())
        sys.exit(0)
    sys.exit(main(args))
