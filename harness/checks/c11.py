"""C11 — Namespace behaves as a nested mapping addressed by dotted keys.

  MC      tlc MC_Namespace: every history up to MaxOps over the bounded universe; invariants
          AlgRefinesRef / RefLaws / AlgReadYourWrite / ObserversSane; emits every distinct reachable
          state and the operation universe as JSON.
  REPLAY  (spec -> code) every emitted state is rebuilt as a real Namespace (through the public API,
          with the clash name rotated through the method names), every operation of the universe
          (quick: all of them on the shallow states, a seeded sample on the deep ones) is executed and
          the call, its result and alpha(before/after) are recorded.
  TRACE   (code -> spec) seeded random histories (<= 40 steps, more names, deeper keys) are recorded
          the same way.
  All recorded steps and all distinct post states (with the answers of every observer) are then
  validated by TLC against Trace_Namespace (Ref: verdict, Alg: drift).
"""
from __future__ import annotations

import json
import sys

from ..lib import common, tlc
from ..lib.evidence import Report, machinery_failure

common.check_repo_import()
from jsonargparse import Namespace, dict_to_namespace, namespace_to_dict  # noqa: E402
import jsonargparse._namespace as _nsmod  # noqa: E402

PID = "C11"
CLASH = ["items", "keys", "get", "update", "pop", "clone", "values", "as_dict"]
_del_mark = getattr(_nsmod, "del_clash_mark", lambda k: k)


def unmark(k):
    try:
        return _del_mark(k) if isinstance(k, str) and k else k
    except Exception:
        return k


# ---------------------------------------------------------------- value vocabulary (codes of MC_Namespace)
MAKE = {
    "i1": lambda: 1,
    "i2": lambda: 2,
    "none": lambda: None,
    "L1": lambda: [1, 2],
    "T1": lambda: (1, 2),
    "LN": lambda: [Namespace(a=1)],
    "LD": lambda: [{"a": 1}],
    "LM": lambda: [Namespace(a=1), 1],
    "LMd": lambda: [{"a": 1}, 1],
    "dflt": lambda: "DFLT",
    "true": lambda: True,
    "false": lambda: False,
    "s": lambda: "text",
    "f": lambda: 1.5,
    "L0": lambda: [],
    "LL": lambda: [[1], [2]],
    "T0": lambda: (),
    "TN": lambda: (Namespace(a=1),),
    "TL": lambda: ([1], {"k": 2}),
    "zero": lambda: 0,
    "es": lambda: "",
    "S0": lambda: set(),
}


def code(v) -> str:
    if v is None:
        return "none"
    if v is True:
        return "true"
    if v is False:
        return "false"
    for c, mk in MAKE.items():
        w = mk()
        if type(w) is type(v) and w == v and c not in ("none", "true", "false"):
            if c in ("LN", "LM", "LD", "LMd", "TN"):
                if [type(x) for x in w] != [type(x) for x in v]:
                    continue
            return c
    return "?" + type(v).__name__ + ":" + repr(v)[:60]


def alpha_val(v, ren=None) -> list:
    """value -> rooted tree as ordered [path, code] pairs (root first)."""
    out = []

    def name_of(k, in_dict=False):
        base = unmark(k)
        marked = in_dict and base != k  # a marked name used as a dict key stays visible ("~name")
        base = ren.get(base, base) if ren else base
        return ("~" + base) if marked else base

    def walk(x, path):
        if isinstance(x, Namespace):
            out.append([path, "ns"])
            for k, sub in vars(x).items():
                walk(sub, path + [name_of(k)])
        elif type(x) is dict and all(isinstance(k, str) for k in x):
            out.append([path, "dict"])
            for k, sub in x.items():
                walk(sub, path + [name_of(k, True)])
        else:
            out.append([path, code(x)])

    walk(v, [])
    return out


def alpha(ns, ren=None) -> list:
    return [pc for pc in alpha_val(ns, ren) if pc[0]]


def canon(pairs) -> str:
    return json.dumps(sorted(pairs))


def gamma_val(pairs, ren=None):
    """rooted tree pairs -> fresh real value."""
    tree = {tuple(p): c for p, c in pairs}

    def nm(x):
        if x.startswith("~"):
            return _nsmod.clash_mark + nm(x[1:])
        return ren.get(x, x) if ren else x

    def build(path):
        c = tree[path]
        kids = [p for p in tree if len(p) == len(path) + 1 and p[: len(path)] == path]
        kids.sort(key=lambda p: [i for i, (q, _) in enumerate(pairs) if tuple(q) == p][0])
        if c == "ns":
            n = Namespace()
            for k in kids:
                n[nm(k[-1])] = build(k)
            return n
        if c == "dict":
            return {nm(k[-1]): build(k) for k in kids}
        return MAKE[c]()

    return build(())


def gamma_state(pairs, ren=None):
    return gamma_val([[[], "ns"]] + [list(x) for x in pairs], ren)


def dotted(path, ren=None):
    return ".".join((ren.get(x, x) if ren else x) for x in path)


# ---------------------------------------------------------------- executing one operation on a real Namespace
def apply_op(ns, o, ren=None, use_attr=False):
    """returns res = {"r": ok|raise, "v": rooted tree pairs or [], "exc": class name}"""
    op, key = o["op"], dotted(o["p"], ren)
    inv = {v: k for k, v in ren.items()} if ren else None
    try:
        if op == "set":
            val = gamma_val(o["v"], ren)
            if use_attr:
                setattr(ns, key, val)
            else:
                ns[key] = val
            ret = None
        elif op == "getitem":
            ret = ("v", getattr(ns, key) if (use_attr and "." not in key and key not in _nsmod.clash_names) else ns[key])
        elif op == "get":
            ret = ("v", ns.get(key, gamma_val(o["v"], ren)))
        elif op == "contains":
            ret = ("v", key in ns)
        elif op == "del":
            if use_attr and "." not in key and key not in _nsmod.clash_names:
                delattr(ns, key)
            else:
                del ns[key]
            ret = None
        elif op == "pop":
            ret = ("v", ns.pop(key, gamma_val(o["v"], ren)))
        elif op == "update_ns":
            val = Namespace()
            for rp, sub in o["items"]:
                val[dotted(rp, ren)] = gamma_val(sub, ren)
            r = ns.update(val, key or None, only_unset=o["ou"]) if o.get("kw", True) else ns.update(val, key or None, o["ou"])
            if r is not ns:
                return {"r": "ok", "v": [[[], "?update-returned-other"]], "exc": ""}
            ret = None
        elif op == "update_val":
            r = ns.update(gamma_val(o["v"], ren), key or None, only_unset=o["ou"])
            if r is not ns:
                return {"r": "ok", "v": [[[], "?update-returned-other"]], "exc": ""}
            ret = None
        else:
            raise AssertionError(op)
    except Exception as ex:  # the class is Alg-level; Ref only says "raises"
        return {"r": "raise", "v": [], "exc": type(ex).__name__}
    return {"r": "ok", "v": alpha_val(ret[1], inv) if ret else [], "exc": ""}


def observe(ns, names) -> dict:
    """answers of every observer in the current state (abstract encoding)."""
    tree = alpha(ns)
    paths = [tuple(p) for p, _ in tree]
    uni = set(tuple(x.lstrip("~") for x in p) for p in paths if len(p) <= 4)
    for p in list(uni) + [()]:
        if len(p) <= 3:
            for n in names[:3]:
                uni.add(p + (n,))
    uni = sorted(uni)[:60]
    keys_b = [k.split(".") for k in ns.keys(branches=True)]
    clone = ns.clone()
    before = canon(tree)
    c2 = ns.clone()
    _mutate_everything(c2)
    rebuilt = gamma_state(tree)
    changed = gamma_state(tree)
    changed["zz_new_key"] = 1
    # the conversions return COPIES: the dictionary given to dict_to_namespace is left as it was, two conversions of
    # one dictionary share nothing with each other or with the dictionary, namespace_to_dict shares nothing with ns
    d_in = namespace_to_dict(ns)
    r1, r2 = dict_to_namespace(d_in), dict_to_namespace(d_in)
    _mutate_everything(r1)
    d2n_second, d2n_input_after = alpha(r2), [pc for pc in alpha_val(d_in) if pc[0]]
    n2d_copy = namespace_to_dict(ns)
    _mutate_everything(n2d_copy)
    n2d_indep = canon(alpha(ns)) == before
    return {
        "d2n_second": d2n_second,
        "d2n_input_after": d2n_input_after,
        "n2d_indep": n2d_indep,
        "keys": [k.split(".") for k in ns.keys()],
        "keys_b": keys_b,
        "items_keys": [k.split(".") for k, _ in ns.items()],
        "vals": [[k, alpha_val(ns[".".join(k)])] for k in keys_b] + [[k.split("."), alpha_val(v)] for k, v in ns.items()]
                + [[k, alpha_val(v)] for k, v in zip([k.split(".") for k in ns.keys()], ns.values())],
        "sorted_keys": [k.split(".") for k in ns.get_sorted_keys()],
        "flat_keys": [k.split(".") for k in vars(ns.as_flat())],
        "as_dict": [pc for pc in alpha_val(ns.as_dict()) if pc[0]],
        "n2d": [pc for pc in alpha_val(namespace_to_dict(ns)) if pc[0]],
        "d2n": alpha(dict_to_namespace(ns.as_dict())),
        "rt": [pc for pc in alpha_val(dict_to_namespace(ns.as_dict()).as_dict()) if pc[0]],
        "ctor": alpha(Namespace(ns.as_dict())),
        "clone": alpha(clone),
        "clone_eq": bool(clone == ns) and not bool(clone != ns),
        "clone_indep": canon(alpha(ns)) == before,
        "eq_rebuilt": bool(rebuilt == ns),
        "ne_changed": bool(changed != ns),
        "contains": [list(p) for p in uni if ".".join(p) in ns],
        "universe": [list(p) for p in uni],
    }


def _mutate_everything(x):
    if isinstance(x, Namespace):
        for v in list(vars(x).values()):
            _mutate_everything(v)
        x["zz_mut"] = 1
    elif isinstance(x, dict):
        for v in list(x.values()):
            _mutate_everything(v)
        x["zz_mut"] = 1
    elif isinstance(x, list):
        for v in x:
            _mutate_everything(v)
        x.append("zz_mut")


# ---------------------------------------------------------------- recording
class Recorder:
    def __init__(self):
        self.steps = []
        self.states = {}
        self.state_list = []
        self.meta = []
        self.max_states = 40000  # distinct states whose observers are recorded (each costs ~25 observer calls and a TLC evaluation)

    def step(self, tid, prev, pre, o, res, post, how):
        self.steps.append({"tid": tid, "prev": prev, "pre": pre, "op": {k: o[k] for k in ("op", "p", "v", "items", "ou")},
                           "res": {"r": res["r"], "v": res["v"]}, "post": post})
        self.meta.append({"exc": res["exc"], "how": how})
        return len(self.steps)

    def state(self, ns, names):
        c = canon(alpha(ns))
        if '"~' in c:
            return  # a marked name leaked into a dict value (through-dict deviation): observers are not compared there
        if c not in self.states and len(self.state_list) < self.max_states:
            self.states[c] = len(self.state_list)
            try:
                ob = observe(ns, names)
            except Exception as ex:
                ob = {"error": f"{type(ex).__name__}: {ex}"}
            self.state_list.append({"tree": alpha(ns), "obs": ob})


def replay_model_states(rec, states, ops, rnd, tier):
    """spec -> code: rebuild each TLC state, run operations of the universe on it."""
    n_cases = 0
    for si, st in enumerate(states):
        pairs, depth = st["state"], st["n"]
        # DFS-ish order so that parents are created before children
        pairs = sorted(pairs, key=lambda pc: (len(pc[0]), pc[0]))
        full = depth <= 1
        if tier == "thorough" and depth >= 3 and si % 7:
            continue  # thorough: every 7th of the depth-3 states (the model checker has visited all of them)
        chosen = ops if full else rnd.sample(ops, 12 if tier == "quick" else (60 if depth == 2 else 15))
        for oi, o in enumerate(chosen):
            ren = {"items": CLASH[(si + oi) % len(CLASH)]}
            inv = {v: k for k, v in ren.items()}
            try:
                ns = gamma_state(pairs, ren)
            except Exception as ex:
                rec.step(0, 0, [], {"op": "set", "p": ["?construct"], "v": [[[], "i1"]], "items": [], "ou": False},
                         {"r": "raise", "v": [], "exc": type(ex).__name__}, pairs, "construct")
                continue
            pre = alpha(ns, inv)
            if canon(pre) != canon(pairs):
                # building the state through the public API did not give the state: itself a disagreement on `set`
                rec.step(0, 0, [], {"op": "set", "p": ["?construct"], "v": [[[], "i1"]], "items": [], "ou": False},
                         {"r": "ok", "v": [], "exc": ""}, pre, "construct:" + json.dumps(pairs))
                continue
            use_attr = (si + oi) % 3 == 0
            res = apply_op(ns, o, ren, use_attr=use_attr)
            post = alpha(ns, inv)
            rec.step(0, 0, pre, o, res, post, f"model-state {si} clash={ren['items']} attr={use_attr}")
            n_cases += 1
            if ren["items"] == "items" or not any("items" in p for p, _ in post):
                rec.state(_unrename(ns, inv), ["a", "items", "b"])
    return n_cases


def _unrename(ns, inv):
    return gamma_state(alpha(ns, inv))


NAMES_RANDOM = ["a", "b", "c"] + CLASH
LEAVES = ["i1", "i2", "none", "L1", "T1", "LN", "LM", "LD", "LMd", "s", "f", "L0", "LL", "T0", "TN", "TL", "zero", "es", "false", "S0"]


def random_value(rnd, depth=0):
    r = rnd.random()
    if r < 0.55 or depth >= 2:
        return [[[], rnd.choice(LEAVES)]]
    kind = "ns" if r < 0.8 else "dict"
    out = [[[], kind]]
    for n in rnd.sample(NAMES_RANDOM, rnd.randint(0, 3)):
        for rp, c in random_value(rnd, depth + 1):
            out.append([[n] + rp, c])
    return out


def random_key(rnd, ns_tree):
    existing = [p for p, _ in ns_tree]
    r = rnd.random()
    if existing and r < 0.55:
        p = [x.lstrip("~") for x in rnd.choice(existing)]
        if rnd.random() < 0.3 and len(p) < 4:
            p = p + [rnd.choice(NAMES_RANDOM)]
        return p
    return [rnd.choice(NAMES_RANDOM) for _ in range(rnd.randint(1, 3))]


def random_traces(rec, rnd, ntraces, maxlen):
    for tid in range(1, ntraces + 1):
        ns = Namespace()
        prev = 0
        for _ in range(rnd.randint(3, maxlen)):
            pre = alpha(ns)
            kind = rnd.choices(["set", "getitem", "get", "contains", "del", "pop", "update_ns", "update_val"],
                               [30, 6, 6, 6, 10, 10, 12, 8])[0]
            o = {"op": kind, "p": random_key(rnd, pre), "v": [[[], "dflt"]], "items": [], "ou": False}
            if kind == "set":
                o["v"] = random_value(rnd)
            elif kind == "update_val":
                o["v"] = random_value(rnd)
                if o["v"][0][1] == "ns":
                    o["v"] = [[[], rnd.choice(LEAVES)]]
                o["ou"] = rnd.random() < 0.5
                if rnd.random() < 0.1:
                    o["p"] = []
            elif kind == "update_ns":
                o["ou"] = rnd.random() < 0.5
                if rnd.random() < 0.5:
                    o["p"] = []
                # items of a random namespace value, in its own order (leaves only, prefix-free)
                val = Namespace()
                for _k in range(rnd.randint(0, 3)):
                    val[".".join(rnd.choice(NAMES_RANDOM) for _ in range(rnd.randint(1, 2)))] = gamma_val(random_value(rnd, 1))
                o["items"] = _items_of(val)
            res = apply_op(ns, o, None, use_attr=rnd.random() < 0.3)
            post = alpha(ns)
            prev = rec.step(tid, prev, pre, o, res, post, f"random trace {tid}")
            rec.state(ns, NAMES_RANDOM)


def _items_of(val) -> list:
    """what value.items() yields, from the raw storage (not through items() itself)."""
    out = []

    def walk(x, path):
        for k, sub in vars(x).items():
            if isinstance(sub, Namespace):
                walk(sub, path + [unmark(k)])
            else:
                out.append([path + [unmark(k)], alpha_val(sub)])

    walk(val, [])
    return out


# ---------------------------------------------------------------- main
def main(argv):
    tier = "thorough" if (argv and argv[0] == "thorough") else "quick"
    rep = Report(PID, tier)
    rnd = common.rng(PID)
    rep.assumptions = [
        "alpha reads the raw storage vars(ns) and strips the clash mark with jsonargparse._namespace.del_clash_mark; gamma builds states through __setitem__ only and the result is compared with the intended state",
        "insertion order of keys is not part of the abstract state (Python dict equality ignores it)",
        "the class of a raised exception is Alg-level (drift), only raise / return is compared for the verdict",
        "leaf values are drawn from a fixed vocabulary of 15 values (ints, None, str, float, list, tuple, lists of namespaces/dicts)",
    ]
    # ---- MC: design-level check and emission of the behaviours to replay
    cfgname = f"MC_Namespace_{tier}"
    mc = tlc.run("MC_Namespace", cfgname, workers=16, timeout=3000, check=False, heap="12g")
    rep.add_tlc(cfgname, mc)
    if mc.errors:
        if mc.violated:
            rep.violation("model:" + ",".join(mc.violated), f"TLC: invariant {mc.violated} violated in the bounded model (Alg does not refine Ref)",
                          {"tlc_errors": mc.errors, "counterexample": mc.cex[:4000]})
        else:
            machinery_failure(PID, "TLC failed on MC_Namespace:\n" + mc.stdout[-3000:])
    states = [p for p in mc.printed if isinstance(p, dict) and "state" in p]
    opsl = [p for p in mc.printed if isinstance(p, dict) and "ops" in p]
    if not opsl or len(states) != mc.distinct:
        machinery_failure(PID, f"emitted {len(states)} states for {mc.distinct} distinct states, ops lines={len(opsl)}")
    ops = sorted(opsl[0]["ops"], key=lambda o: json.dumps(o, sort_keys=True))
    states.sort(key=lambda st: (st["n"], canon(st["state"])))  # TLC's 16 workers print in no fixed order
    rec = Recorder()
    n_replay = replay_model_states(rec, states, ops, rnd, tier)
    n_steps_replay = len(rec.steps)
    random_traces(rec, rnd, 150 if tier == "quick" else 1500, 40)
    rep.extra["replayed_model_transitions"] = n_replay
    rep.extra["random_trace_steps"] = len(rec.steps) - n_steps_replay
    rep.extra["distinct_states_observed"] = len(rec.state_list)

    # ---- TRACE: TLC validates everything that was recorded, in chunks
    tmp = common.scratch("c11")
    try:
        chunk = 60000
        rejects = []
        bad_obs = [i for i, s in enumerate(rec.state_list) if "error" in s["obs"]]
        for i in bad_obs:
            rep.violation("observer-raised", f"an observer raised on state {rec.state_list[i]['tree']}: {rec.state_list[i]['obs']['error']}",
                          {"state": rec.state_list[i]["tree"], "error": rec.state_list[i]["obs"]["error"]})
        good_states = [s for s in rec.state_list if "error" not in s["obs"]]
        nchunks = max(1, (len(rec.steps) + chunk - 1) // chunk)
        for c in range(nchunks):
            part = rec.steps[c * chunk : (c + 1) * chunk]
            base = c * chunk
            # `prev` indexes are global; make them local to the chunk (0 when the predecessor is elsewhere)
            loc = []
            for s in part:
                s2 = dict(s)
                s2["prev"] = s["prev"] - base if s["prev"] > base else 0
                loc.append(s2)
            per = (len(good_states) + nchunks - 1) // nchunks
            sts = good_states[c * per : (c + 1) * per]
            f = tmp / f"trace{c}.json"
            f.write_text(json.dumps({"steps": loc, "states": sts}))
            tr = tlc.run("Trace_Namespace", "Trace_Namespace", workers=16, env={"TRACE_FILE": str(f)}, timeout=3000, heap="12g")
            rep.add_tlc(f"Trace_Namespace[{c}]", tr)
            if tr.errors or tr.distinct != len(loc) + len(sts):
                machinery_failure(PID, f"trace validation run failed (distinct={tr.distinct}, expected {len(loc) + len(sts)}):\n" + tr.stdout[-3000:])
            for p in tr.printed:
                if isinstance(p, list) and p and p[0] == "R":
                    rejects.append((p[1], p[2] + (base if p[1] == "step" else c * per), p[3]))
            f.unlink()
    finally:
        common.rm(tmp)

    rep.traces = len(rec.steps) + len(good_states)
    rep.evaluations = rep.traces
    # non-trivial: distinct (abstract pre-state, operation) pairs whose operation changed the state or raised
    for s in rec.steps:
        if canon(s["pre"]) != canon(s["post"]) or s["res"]["r"] == "raise":
            rep.note_nontrivial(canon(s["pre"]) + json.dumps(s["op"], sort_keys=True))
    rep.rule = ("cases = (abstract state, operation) pairs: every TLC-emitted state x operations of the model universe, plus steps of seeded "
                "random histories; non-trivial & distinct = distinct (pre-state, operation) pairs that change the state or raise")
    rep.exhaustive = False
    rep.explanation = (f"MC_Namespace explored exhaustively all histories up to its MaxOps bound ({mc.distinct} states); the replay covered "
                       f"{n_replay} (state, operation) pairs of it on the real Namespace, {rep.extra['random_trace_steps']} further steps came from random histories; "
                       f"every step and {len(good_states)} distinct states with all observers were validated by TLC against Trace_Namespace")
    for idx in (0, len(rec.steps) // 2, len(rec.steps) - 1):
        if rec.steps:
            rep.sample({"step": rec.steps[idx], "how": rec.meta[idx]})
    if good_states:
        rep.sample({"state": good_states[-1]})

    # ---- classification of TLC's rejections
    by_step = {}
    for kind, idx, clause in rejects:
        by_step.setdefault((kind, idx), []).append(clause)
    for (kind, idx), clauses in sorted(by_step.items()):
        if kind == "step":
            s, m = rec.steps[idx - 1], rec.meta[idx - 1]
            case = {"step": s, "exception": m["exc"], "how": m["how"], "failed_clauses": clauses,
                    "python": _python_repro(s)}
            if m["how"].startswith("construct"):
                rep.violation("construct-state", "building a model state through __setitem__ did not produce that state", case)
                continue
            verdict = [c for c in clauses if c.startswith("ref") or c in ("malformed", "chain")]
            if not verdict:
                rep.add_drift("real code agrees with Ref but not with the Alg transcription", case)
                continue
            op = s["op"]["op"]
            if "ref-td-as-alg" in clauses:
                rep.violation(f"through-dict/as-alg:{op}", f"{op} with a dotted key that walks through a dict value", case)
            elif "ref-td-other" in clauses:
                rep.violation(f"through-dict/other:{op}:{s['res']['r']}", f"{op} through a dict value behaves neither like the nested dict nor like the recorded deviation", case)
            else:
                rep.violation(f"{op}:{s['res']['r']}:{_shape(s)}", f"{op} disagrees with the reference nested dictionary ({clauses})", case)
        else:
            st = good_states[idx - 1]
            for c in clauses:
                rep.violation(f"observer:{c}", f"observer {c} disagrees with the reference on a reachable state", {"state": st["tree"], "obs": st["obs"], "clause": c})
    return rep.finish()


def _shape(s) -> str:
    """coarse description of the failing case, so that different failures get different keys"""
    pre = {tuple(p): c for p, c in s["pre"]}
    p = tuple(s["op"]["p"])
    kinds = []
    for i in range(1, len(p) + 1):
        c = pre.get(p[:i])
        kinds.append("absent" if c is None else c if c in ("ns", "dict", "none") else "leaf")
    return "/".join(kinds) or "nokey"


def _python_repro(s) -> str:
    return (f"ns = gamma_state({json.dumps(s['pre'])}); apply_op(ns, {json.dumps(s['op'])})  "
            f"# observed {s['res']['r']} -> alpha(ns) = {json.dumps(s['post'])}")


if __name__ == "__main__":
    args = sys.argv[1:]
    if args and args[0] == "--replay":
        print(open(args[1]).read())
        sys.exit(0)
    sys.exit(main(args))
