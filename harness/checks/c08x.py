"""C08, round 4 - executions for the two extensions of Heap.tla (helpers of c08.py; every function runs in a forked child).

  proc    calls that are handed a path (a jsonargparse Path object created while the process was in directory <home>, a
          Path_fr value returned by an earlier parse, an absolute text) made while the process is in directory <entry>:
          the process state (cwd, current_path_dir, digests of os.environ / sys.argv / sys.path, argparse.Namespace) is
          recorded before and after - also when the call raises - together with what user code run by the call saw.
  freshd  class families generated as real modules of a scratch package (a parameter whose default is an instance of a
          class; the owner inherits __init__ unchanged / through **kwargs from a base in the same or in another module):
          two parses, three instantiations, the identities of all built objects.
Nothing is judged here: the events go to Trace_Heap (CheckProc / CheckFreshDefault).
"""
from __future__ import annotations

import argparse
import hashlib
import importlib
import json
import os
import signal
import sys

from ..lib import common

common.check_repo_import()
from jsonargparse import ActionConfigFile, ArgumentParser, Namespace, Path, lazy_instance  # noqa: E402
from jsonargparse._util import current_path_dir  # noqa: E402
from jsonargparse.typing import Path_fr  # noqa: E402

_STD_NAMESPACE = argparse.Namespace
SEEN: list = []
ROOT = [""]


def rel(p) -> str:
    if not p:
        return ""
    p = os.path.realpath(p)
    r = ROOT[0]
    if p == r:
        return "."
    return os.path.relpath(p, r) if p.startswith(r + os.sep) else "outside:" + p


def cwd_or_gone() -> str:
    try:
        return rel(os.getcwd())
    except OSError:
        return "gone"


def probe(v):
    """the type of --n: user code that looks at the process state while the call is running."""
    SEEN.append([cwd_or_gone(), rel(current_path_dir.get())])
    return int(v)


def proc_state() -> dict:
    return {"cwd": cwd_or_gone(), "cpd": rel(current_path_dir.get()),
            "env": hashlib.sha1(json.dumps(sorted(os.environ.items())).encode()).hexdigest()[:12],
            "argv": hashlib.sha1(repr(sys.argv).encode()).hexdigest()[:12],
            "syspath": hashlib.sha1(repr(sys.path).encode()).hexdigest()[:12],
            "ns": "std" if argparse.Namespace is _STD_NAMESPACE else "patched"}


def make_tree(root: str) -> None:
    for home in ("A", "B", "C"):
        for sub in ("conf", "out"):
            os.makedirs(os.path.join(root, home, sub), exist_ok=True)
        conf = os.path.join(root, home, "conf")
        for name, text in (("x.yaml", "n: 3\np: inner.yaml\n"), ("inner.yaml", "n: 5\n"), ("bad.yaml", "n: x\n"), ("badp.yaml", "n: 3\np: nodata.txt\n")):
            with open(os.path.join(conf, name), "w") as f:
                f.write(text)
        out = os.path.join(root, home, "out", "saved.yaml")
        if os.path.exists(out):
            os.remove(out)


def path_parser(dcf=None):
    p = ArgumentParser(prog="paths", exit_on_error=False, default_config_files=dcf or [])
    p.add_argument("--cfg", action=ActionConfigFile)
    p.add_argument("--n", type=probe, default=1)
    p.add_argument("--p", type=Path_fr)
    return p


CONF_OF = {"ok": "x.yaml", "badval": "bad.yaml", "badpath": "badp.yaml", "missing": "x.yaml"}


def prepare_proc(pc: dict, root: str):
    """in directory <home>: create the path object; returns the call (to be made from directory <entry>)."""
    op, fl, home = pc["op"], pc["fl"], pc["home"]
    os.chdir(os.path.join(root, home))
    if op == "parse_path":
        po = Path("conf/" + CONF_OF[fl], mode="fr")
        if fl == "missing":
            os.remove(os.path.join(root, home, "conf", "x.yaml"))
        p = path_parser()
        return lambda: p.parse_path(po), po
    if op == "parse_path_res":
        po = path_parser().parse_path("conf/x.yaml").p  # a Path_fr created while the process was in <home>/conf
        if fl == "missing":
            os.remove(os.path.join(root, home, "conf", "inner.yaml"))
        p = path_parser()
        return lambda: p.parse_path(po), po
    if op == "rpc":
        po = Path("conf/x.yaml", mode="fr")

        def body():
            with po.relative_path_context() as d:
                probe(0)
                if fl == "raises":
                    raise RuntimeError("the body of the with statement raises")
                return d
        return body, po
    if op in ("save", "save1"):
        po = Path("out/saved.yaml", mode="fc")
        p = path_parser()
        if fl == "refuse":
            with open(po.absolute, "w") as f:
                f.write("n: 0\n")
        cfg = Namespace(n="x" if fl == "invalid" else 4)
        return lambda: p.save(cfg, po, overwrite=fl != "refuse", multifile=op == "save"), po
    if op.startswith("dcf_"):
        po = Path("conf/" + CONF_OF[fl], mode="fr")
        p = path_parser([po])
        if op == "dcf_get_defaults":
            return lambda: p.get_defaults(), po
        if op == "dcf_format_help":
            return lambda: p.format_help(), po
        return lambda: p.parse_args([]), po
    if op == "cfgarg":
        text = os.path.join(root, home, "conf", CONF_OF[fl])
        p = path_parser()
        return lambda: p.parse_args(["--cfg", text]), text
    raise AssertionError(op)


def replay_proc(task: dict) -> list:
    signal.alarm(600)
    root = os.path.realpath(str(common.scratch("c08p")))
    ROOT[0] = root
    events = []
    try:
        for pc in task["cases"]:
            make_tree(root)
            current_path_dir.set(None)
            call, po = prepare_proc(pc, root)
            entry = root if pc["entry"] == "." else os.path.join(root, pc["entry"])
            os.chdir(entry)
            del SEEN[:]
            pre = proc_state()
            po_before = repr(po)
            try:
                call()
                ok, exc = True, ""
            except BaseException as ex:  # noqa: BLE001
                ok, exc = False, f"{type(ex).__name__}: {str(ex)[:160]}"
            post = proc_state()
            seen = sorted({(a, b) for a, b in SEEN})
            # the path object itself is an argument too: its text form (relative path, creation cwd) must not change
            post["argv"] = post["argv"] if repr(po) == po_before else "path-object-changed"
            events.append({"kind": "proc", "pc": {k: pc[k] for k in ("op", "fl", "entry", "home")}, "ok": ok, "seen": [list(x) for x in seen],
                           "pre": pre, "post": post, "_exc": exc, "_case": pc, "_path": po_before})
            os.chdir(root)
        return events
    finally:
        os.chdir("/")
        common.rm(root)


# ------------------------------------------------------------------------------------------------ class families
DFORM = {"kw": "Cal{k}(firstweekday=1)", "nokw": "Cal{k}()", "lazy": "lazy_instance(Cal{k}, firstweekday=1)", "pos": "Cal{k}(1)",
         "nonconst": "Cal{k}(firstweekday=K)"}
_FAMILIES: dict = {}


def family_modules(pkgdir: str, pkg: str, dform: str, nis: bool, ann: str = "plain"):
    """the two generated modules of one (default form, name-in-subclass-module) pair; class names carry the number k."""
    key = (dform, nis, ann)
    if key in _FAMILIES:
        return _FAMILIES[key]
    k = len(_FAMILIES) + 1
    base, sub = f"fbase{k}", f"fsub{k}"
    with open(os.path.join(pkgdir, base + ".py"), "w") as f:
        hint = f"Optional[Cal{k}]" if ann == "optional" else f"Cal{k}"
        f.write(f'''from typing import Optional

from jsonargparse import lazy_instance

K = 2


class Cal{k}:
    def __init__(self, firstweekday: int = 0):
        self.firstweekday = firstweekday


class Base{k}:
    def __init__(self, cal: {hint} = {DFORM[dform].format(k=k)}, n: int = 0):
        self.cal = cal
        self.n = n


class SubSame{k}(Base{k}):
    pass


class SubSameInit{k}(Base{k}):
    def __init__(self, m: int = 0, **kwargs):
        super().__init__(**kwargs)
        self.m = m
''')
    names = f"Base{k}, Cal{k}" if nis else f"Base{k}"
    with open(os.path.join(pkgdir, sub + ".py"), "w") as f:
        f.write(f'''from .{base} import {names}


class SubOther{k}(Base{k}):
    pass


class SubOtherInit{k}(Base{k}):
    def __init__(self, m: int = 0, **kwargs):
        super().__init__(**kwargs)
        self.m = m
''')
    importlib.invalidate_caches()
    mb = importlib.import_module(f"{pkg}.{base}")
    ms = importlib.import_module(f"{pkg}.{sub}")
    _FAMILIES[key] = (k, mb, ms)
    return _FAMILIES[key]


def owner_class(fam: dict, k: int, mb, ms):
    if fam["owner"] == "base":
        return getattr(mb, f"Base{k}")
    stem = "Sub" + ("Same" if fam["where"] == "same" else "Other") + ("Init" if fam["owner"] == "subinit" else "")
    return getattr(mb if fam["where"] == "same" else ms, f"{stem}{k}")


def live_instances(x, classes: tuple, acc: set, seen: set) -> None:
    if id(x) in seen:
        return
    seen.add(id(x))
    if isinstance(x, classes):
        acc.add(id(x))
        for v in vars(x).values():
            live_instances(v, classes, acc, seen)
    elif isinstance(x, Namespace):
        for v in vars(x).values():
            live_instances(v, classes, acc, seen)
    elif isinstance(x, dict):
        for v in x.values():
            live_instances(v, classes, acc, seen)
    elif isinstance(x, (list, tuple)):
        for v in x:
            live_instances(v, classes, acc, seen)


def replay_fresh(task: dict) -> list:
    signal.alarm(600)
    d = os.path.realpath(str(common.scratch("c08f")))
    pkg = "c08fam_%d" % os.getpid()
    pkgdir = os.path.join(d, pkg)
    os.makedirs(pkgdir)
    with open(os.path.join(pkgdir, "__init__.py"), "w") as f:
        f.write("")
    sys.path.insert(0, d)
    os.chdir(d)
    events = []
    try:
        for fam in task["cases"]:
            k, mb, ms = family_modules(pkgdir, pkg, fam["dform"], fam["nis"], fam.get("ann", "plain"))
            cls = owner_class(fam, k, mb, ms)
            base = getattr(mb, f"Base{k}")
            cal = getattr(mb, f"Cal{k}")
            p = ArgumentParser(prog="fam", exit_on_error=False)
            argv = []
            if fam["use"] == "class_args":
                p.add_class_arguments(cls, "o")
            elif fam["use"] == "typed_lazy":
                p.add_argument("--o", type=cls, default=lazy_instance(cls))
            elif fam["use"] == "subclass_args":
                p.add_subclass_arguments(cls, "o")
                argv = ["--o", cls.__name__]
            else:  # a class_path given for an argument typed with the base
                p.add_argument("--o", type=base)
                argv = ["--o", cls.__module__ + "." + cls.__name__]
            c1 = p.parse_args(argv)
            c2 = p.parse_args(argv)
            old: set = set()
            for a in p._actions:
                live_instances(a.default, (base, cal), old, set())
            live_instances(c1, (base, cal), old, set())
            live_instances(c2, (base, cal), old, set())
            builds = [p.instantiate_classes(c1), p.instantiate_classes(c1), p.instantiate_classes(c2)]
            own, cals = [], []
            for b in builds:
                o = b.o
                if not isinstance(o, cls):
                    raise RuntimeError(f"family {fam}: instantiate_classes did not build the owner: {o!r}")
                own.append([str(id(o))])
                cals.append([str(id(o.cal))])  # whatever object the parameter received
            events.append({"kind": "freshd", "fam": {x: fam[x] for x in ("owner", "where", "nis", "dform", "use", "ann")},
                           "own1": own[0], "own1b": own[1], "own2": own[2], "cal1": cals[0], "cal1b": cals[1], "cal2": cals[2],
                           "old": sorted(str(x) for x in old), "_case": fam, "_owner": cls.__module__.split(".")[-1] + "." + cls.__name__,
                           "_default": DFORM[fam["dform"]].format(k=k), "_cfg": repr(c1)[:300], "_keep": builds})
        for ev in events:
            ev.pop("_keep", None)
        return events
    finally:
        os.chdir("/")
        sys.path.remove(d)
        common.rm(d)
