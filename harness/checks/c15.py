"""C15 — a linked argument always equals the function of its sources (links applied on parse).

  MC      tlc MC_LinksParse: every parser shape of the family (targets: plain argument, parameter of a class group,
          init_args of a class argument, items of a list of classes; single / multiple / group-valued sources; with and
          without defaults; inside a sub-command) x every sequence of supplied items up to the bound (source values
          through environment, config, command line, object; values for the target itself through its option, a config,
          an object, the enclosing class / group spec): the transcription of ActionLink / apply_parsing_links /
          set_target_value / strip_link_target_keys (Alg) satisfies TargetEq, NotRequired, PlainOptionRejected,
          DumpHidesTarget and Reconstructed (Ref); link creation rules (no chains, no double targets).
  REPLAY  (spec -> code) every emitted case is run on a fresh real parser: parse, dump, parse of the dump; the outcome
          TLC printed (checked against Ref by TLC) is compared with what the real code did.
          Round 4: compute functions that raise, several sources with an Optional one, the parser used through
          ActionParser, a default config file as a channel, dump(skip_default=True) and histories (the sources of the
          returned namespace are edited and the namespace parsed again) -- all predicted by TLC and compared here.
  TRACE   (code -> spec) whatever differs, and seeded random cases beyond the bound (three links at once, longer item
          sequences, other values, parse_string), are recorded and validated by TLC against Trace_LinksParse.
"""
from __future__ import annotations

import json
import multiprocessing as mp
import os
import shutil
import sys
import tempfile
import dataclasses
import types
from typing import Dict, List, Optional, Union

from ..lib import common, tlc
from ..lib.evidence import Report, machinery_failure

common.check_repo_import()
import yaml  # noqa: E402
from jsonargparse import ActionConfigFile, ActionParser, ArgumentParser, Namespace  # noqa: E402

PID = "C15"
WORKERS = int(os.environ.get("VERIF_TLC_WORKERS", "16"))
HEAP = os.environ.get("VERIF_TLC_HEAP", "8g")
NPROC = int(os.environ.get("VERIF_PROCS", "16"))

# ------------------------------------------------------------------------------------- generated classes / functions
GEN = types.ModuleType("verif_lp_gen")
sys.modules["verif_lp_gen"] = GEN
OPT = Optional[Union[int, str, List[int]]]  # the Optional value domain: None, 0, 3, '', []
GEN.OPT = OPT
GEN.Optional = Optional
GEN.dataclass = dataclasses.dataclass
exec('''
class Base:
    def __init__(self, p: OPT = 0, q: int = 0): self.p, self.q = p, q
class Sub(Base):
    def __init__(self, p: OPT = 0, q: int = 0, r: int = 0): self.p, self.q, self.r = p, q, r
class NoP(Base):
    def __init__(self, q: int = 0): self.q = q
class BaseR:
    def __init__(self, p: OPT, q: int = 0): self.p, self.q = p, q
class SubR(BaseR):
    def __init__(self, p: OPT, q: int = 0, r: int = 0): self.p, self.q, self.r = p, q, r
class NoPR(BaseR):
    def __init__(self, q: int = 0): self.q = q
class G:
    def __init__(self, x: int = 1, y: int = 2): self.x, self.y = x, y
class Src:
    def __init__(self, limit: OPT = None, q: int = 0): self.limit, self.q = limit, q
class SrcSub(Src):
    def __init__(self, limit: OPT = 5, q: int = 0): self.limit, self.q = limit, q
class SrcNoL(Src):
    def __init__(self, q: int = 0): self.q = q
@dataclass
class AugD:
    seed: int
    r: int = 0
class InnerC:
    def __init__(self, seed: int, r: int = 0): self.seed, self.r = seed, r
class ModelO:
    def __init__(self, aug: Optional[AugD] = None, q: int = 0): self.aug, self.q = aug, q
class ModelP:
    def __init__(self, aug: AugD, q: int = 0): self.aug, self.q = aug, q
class ModelD:
    def __init__(self, aug: InnerC, q: int = 0): self.aug, self.q = aug, q
def f_one(a): return a * 10 + 7
def f_lin(a, b): return a * 10 + b
def f_grp(g): return g.x * 10 + g.y
def f_tot(v): return 91 if v is None else 92 if v == "" else 93 if v == [] else v * 10 + 7
def f_cls(v): return 94 if v is None else {"Src": 1, "SrcSub": 2}.get(v["class_path"].rsplit(".", 1)[-1], 3)
def f_par(a):
    if a == 3: raise ValueError("f_par does not accept 3")
    return a * 10 + 7
def f_paro(v): return v * 10 + 7       # TypeError for None, '' and []
def f_linp(v, a): return v * 10 + a    # TypeError unless v is an integer
def f_lino(v, a): return f_tot(v) * 10 + a
''', GEN.__dict__)
for _n in ("Base", "Sub", "NoP", "BaseR", "SubR", "NoPR", "G", "Src", "SrcSub", "SrcNoL", "AugD", "InnerC", "ModelO", "ModelP", "ModelD"):
    GEN.__dict__[_n].__module__ = "verif_lp_gen"
FN = {"id": None, "one": GEN.f_one, "lin": GEN.f_lin, "grp": GEN.f_grp, "asdict": None, "tot": GEN.f_tot, "cls": GEN.f_cls,
      "par": GEN.f_par, "paro": GEN.f_paro, "linp": GEN.f_linp, "lino": GEN.f_lino}


NMODEL = {"dco": "ModelO", "dcp": "ModelP", "deep": "ModelD"}


def build(shape, late=0, dcf=None):
    """gamma: shape -> top parser.  The last `late` links are not created yet: top._verif_add_late() creates them
    (a parser that has already parsed once gets another link)."""
    R = "R" if shape["req"] else ""
    kw = {"default_config_files": [dcf]} if dcf else {}  # (only for shapes whose links live in the top parser)
    top = ArgumentParser(exit_on_error=False, default_env=True, env_prefix="APP", **kw)
    p = ArgumentParser(exit_on_error=False, default_env=True, env_prefix="APP") if shape["sub"] or shape.get("ap") else top
    (top if shape.get("ap") else p).add_argument("--cfg", action=ActionConfigFile)
    p.add_argument("--a", type=int, default=1)
    p.add_argument("--b", type=int, default=2)
    p.add_class_arguments(GEN.G, "g")
    tg = {l["tgt"] for l in shape["links"]}
    srcs = {x for l in shape["links"] for x in l["srcs"]}
    if srcs & {"s", "sl"}:
        p.add_argument("--s", type=Optional[GEN.Src], default=None)
    if "o" in srcs:
        p.add_argument("--o", type=OPT, default=None)
    if "t" in tg:
        # a target fed by the identity link from an Optional source has the Optional type itself
        ttype = OPT if any(l["tgt"] == "t" and l["fn"] == "id" and l["srcs"][0] in ("o", "sl") for l in shape["links"]) else int
        if shape["req"]:
            p.add_argument("--t", type=ttype, required=True)
        else:
            p.add_argument("--t", type=ttype, default=9)
    if "d" in tg:
        if shape["req"]:
            p.add_argument("--d", type=Dict[str, int], required=True)
        else:
            p.add_argument("--d", type=Dict[str, int], default={"z": 9})
    if "mp" in tg:
        base = GEN.__dict__["Base" + R]
        if shape["mkind"] == "init":
            p.add_argument("--m", type=base, enable_path=True)
        elif shape["mkind"] == "list":
            p.add_argument("--m", type=List[base])
        else:
            p.add_class_arguments(base, "m")
    if "np" in tg:  # (round 5) the target is a mandatory field of a nested dataclass / class value of a class argument
        p.add_argument("--n", type=GEN.__dict__[NMODEL[shape["nkind"]]])
    def add(links):
        for l in links:
            srcs = tuple({"sl": "s.init_args.limit"}.get(x, x) for x in l["srcs"])
            tgt = {"t": "t", "d": "d", "mp": "m.p" if shape["mkind"] == "grp" else "m.init_args.p",
                   "np": "n.init_args.aug.init_args.seed" if shape.get("nkind") == "deep" else "n.init_args.aug.seed"}[l["tgt"]]
            p.link_arguments(srcs if len(srcs) > 1 else srcs[0], tgt, FN[l["fn"]])

    n = len(shape["links"]) - late
    add(shape["links"][:n])
    if shape["sub"]:
        top.add_subcommands().add_subcommand("fit", p)
    if shape.get("ap"):  # the parser that declares the links is used through ActionParser (all links exist by then)
        add(shape["links"][n:])
        n = len(shape["links"])
        top.add_argument("--inner", action=ActionParser(parser=p))
    top._verif_add_late = lambda: add(shape["links"][n:])
    return top


def plain(v):
    """abstract value -> python value"""
    k = v["k"]
    if k == "int":
        return v["v"]
    if k == "none":
        return None
    if k == "dict":
        return {"x": v["x"], "y": v["y"]}
    if k == "str":
        return v["v"]
    if k == "elist":
        return []
    raise AssertionError(v)


def given_of(spec):
    g = spec["given"]
    return {} if not g else {k: plain(v) for k, v in g.items()}


def concrete_spec(shape, spec, n=0):
    R = "R" if shape["req"] else ""
    g = given_of(spec)
    cp = f"verif_lp_gen.{spec['c']}{R}"
    if not g and n % 2 == 0:
        return {"class_path": cp}
    return {"class_path": cp, "init_args": g}


def item_value(shape, it, n=0):
    """the python value an item assigns, and the dotted key it assigns to"""
    key, val = it["key"], it["val"]
    if key in ("a", "b", "t", "o"):
        return key, plain(val)
    if key == "s":
        if val["k"] == "null":
            return "s", None
        g = given_of(val)
        cp = f"verif_lp_gen.{val['c']}"
        return "s", ({"class_path": cp} if not g and n % 2 == 0 else {"class_path": cp, "init_args": g})
    if key == "sl":
        return ("s.limit" if n % 2 else "s.init_args.limit"), plain(val)
    if key in ("gx", "gy"):
        return "g." + key[1], plain(val)
    if key == "d":
        return "d", plain(val)
    if key == "m":
        if shape["mkind"] == "init":
            return "m", concrete_spec(shape, val, n)
        if shape["mkind"] == "list":
            return "m", [concrete_spec(shape, s, n + j) for j, s in enumerate(val["v"] or [])]
        return "m", given_of(val)
    if key == "n":
        spec = {"class_path": "verif_lp_gen." + NMODEL[shape["nkind"]]}
        inner = val["inner"]
        if inner["k"] == "in":
            given = {k: plain(v) for k, v in (inner["ia"] or {}).items()}
            spec["init_args"] = {"aug": {"class_path": "verif_lp_gen.InnerC", "init_args": given} if shape["nkind"] == "deep" else given}
        return "n", spec
    if key == "mq":
        return ("m.q" if shape["mkind"] == "grp" or n % 2 else "m.init_args.q"), plain(val)
    if key == "mp":
        return ("m.p" if shape["mkind"] == "grp" or n % 2 else "m.init_args.p"), plain(val)
    raise AssertionError(it)


def nest(dotted, value):
    out = value
    for part in reversed(dotted.split(".")):
        out = {part: out}
    return out


def merge(a, b):
    for k, v in b.items():
        if isinstance(v, dict) and isinstance(a.get(k), dict):
            merge(a[k], v)
        else:
            a[k] = v
    return a


def concretise(shape, api, items, n=0, write=False):
    """-> (environ additions, argv) for parse_args, or (None, object) for parse_object / parse_string.
    Items of the channels "file" / "cfgfile" name files in the current directory; they are written when write=True."""
    if api in ("object", "string"):
        obj = {}
        for j, it in enumerate(items):
            k, v = item_value(shape, it, 1)  # objects use the short keys m.p / m.q only for groups; class args go through init_args
            if it["key"] in ("mq", "mp") and shape["mkind"] != "grp":
                k = "m.init_args." + k.rsplit(".", 1)[1]
            if it["key"] == "sl":
                k = "s.init_args.limit"
            merge(obj, nest(k, v))
        return None, ({"subcommand": "fit", "fit": obj} if shape["sub"] else {"inner": obj} if shape.get("ap") else obj)
    env, argv = {}, (["fit"] if shape["sub"] else [])
    ap = "inner." if shape.get("ap") else ""
    dcf = {}
    for j, it in enumerate(items):
        k, v = item_value(shape, it, n + j)
        k = ap + k
        if it["chan"] == "dcf":  # the default config file of the parser (written below)
            merge(dcf, nest(k, v))
        elif it["chan"] == "env":
            name = "APP_" + ("FIT__" if shape["sub"] else "") + k.upper().replace(".", "__")
            env[name] = json.dumps(v) if not isinstance(v, str) else v
        elif it["chan"] == "cfg":
            argv.append("--cfg=" + json.dumps(nest(k, v)))
        elif it["chan"] in ("file", "cfgfile"):  # the value lives in its own file (it will carry __path__)
            sub = f"{k}_{j}.yaml"
            if write:
                with open(sub, "w") as f:
                    f.write(yaml.safe_dump(v))
            if it["chan"] == "file":
                argv.append(f"--{k}={sub}")
            else:
                if write:
                    with open(f"main_{j}.yaml", "w") as f:
                        f.write(yaml.safe_dump({k: sub}))
                argv.append(f"--cfg=main_{j}.yaml")
        else:
            argv.append(f"--{k}=" + (json.dumps(v) if not isinstance(v, str) else v))
    if dcf and write:
        with open("dcf.yaml", "w") as f:
            f.write(yaml.safe_dump(dcf))
    return env, argv


# ------------------------------------------------------------------------------------- alpha
def a_val(v):
    if v is None:
        return {"k": "none"}
    if isinstance(v, bool):
        return {"k": "other", "r": repr(v)}
    if isinstance(v, int):
        return {"k": "int", "v": v} if -2 ** 30 < v < 2 ** 30 else {"k": "other", "r": str(v)}
    if v == "" and isinstance(v, str):
        return {"k": "str", "v": ""}
    if v == [] and isinstance(v, list):
        return {"k": "elist"}
    if isinstance(v, dict) and set(v) == {"x", "y"} and all(isinstance(x, int) and not isinstance(x, bool) for x in v.values()):
        return {"k": "dict", "x": v["x"], "y": v["y"]}
    return {"k": "other", "r": repr(v)[:60]}


def is_meta(k) -> bool:
    return isinstance(k, str) and k.startswith("__") and k.endswith("__")


def a_cls(d):
    d = {k: v for k, v in d.items() if not is_meta(k)}
    cp = d.get("class_path")
    name = cp.rsplit(".", 1)[-1] if isinstance(cp, str) else "?"
    if name.endswith("R") and name[:-1] in ("Base", "Sub", "NoP"):
        name = name[:-1]
    ia = d.get("init_args") or {}
    extra = set(d) - {"class_path", "init_args"}
    if extra or not isinstance(ia, dict):
        return {"k": "other", "r": repr(d)[:60]}
    return {"k": "cls", "c": name, "ia": {k: a_val(v) for k, v in ia.items() if not is_meta(k)}}


def a_m(v):
    """the value of m (in a configuration, or the content of its sub-config file)"""
    if v is None:
        return {"k": "none"}
    if isinstance(v, str):
        return {"k": "ref"}  # the name of a sub-config file
    if isinstance(v, list):
        return {"k": "list", "v": [a_cls(x) if isinstance(x, dict) else {"k": "other", "r": repr(x)[:40]} for x in v]}
    if isinstance(v, dict) and "class_path" in v:
        return a_cls(v)
    if isinstance(v, dict):
        return {"k": "grp", "ia": {k: a_val(x) for k, x in v.items() if not is_meta(k)}}
    return {"k": "other", "r": repr(v)[:60]}


def a_n(v, shape):
    """the value of n: Model(aug, q) with a nested dataclass / class value"""
    if v is None:
        return {"k": "none"}
    if not (isinstance(v, dict) and isinstance(v.get("class_path"), str) and v["class_path"].endswith(NMODEL[shape["nkind"]])):
        return {"k": "other", "r": repr(v)[:60]}
    ia = {k: x for k, x in (v.get("init_args") or {}).items() if not is_meta(k)}
    aug = ia.get("aug")
    if set(ia) - {"aug", "q"} or set(v) - {"class_path", "init_args"} - {k for k in v if is_meta(k)}:
        return {"k": "other", "r": repr(v)[:60]}
    if aug is None:
        inner = {"k": "none"}
    elif shape["nkind"] == "deep":
        if not (isinstance(aug, dict) and str(aug.get("class_path", "")).endswith("InnerC") and not set(aug) - {"class_path", "init_args"}):
            return {"k": "other", "r": repr(v)[:60]}
        inner = {"k": "in", "ia": {k: a_val(x) for k, x in (aug.get("init_args") or {}).items()}}
    elif isinstance(aug, dict) and "class_path" not in aug:
        inner = {"k": "in", "ia": {k: a_val(x) for k, x in aug.items() if not is_meta(k)}}
    else:
        return {"k": "other", "r": repr(v)[:60]}
    return {"k": "nest", "q": a_val(ia.get("q")), "inner": inner}


def alpha(cfg, shape) -> dict:
    """a parsed configuration (Namespace or dict read from a dump) -> the abstract configuration of LinksParse.tla"""
    d = cfg.as_dict() if isinstance(cfg, Namespace) else (cfg or {})
    if shape["sub"]:
        d = d.get("fit") or {}
    if shape.get("ap"):
        d = d.get("inner") or {}
    g = d.get("g") if isinstance(d.get("g"), dict) else {}
    tg = {l["tgt"] for l in shape["links"]}
    srcs = {x for l in shape["links"] for x in l["srcs"]}
    out = {"a": a_val(d.get("a")), "b": a_val(d.get("b")), "gx": a_val(g.get("x")), "gy": a_val(g.get("y")),
           "t": a_val(d["t"]) if "t" in d else {"k": "absent"}, "d": a_val(d["d"]) if "d" in d else {"k": "absent"}}
    # declared arguments that a dump leaves out because they are None read as None
    out["m"] = a_m(d["m"]) if "m" in d else ({"k": "none"} if "mp" in tg else {"k": "absent"})
    if srcs & {"s", "sl"}:
        out["s"] = {"k": "none"} if d.get("s") is None else (a_cls(d["s"]) if isinstance(d["s"], dict) else {"k": "other", "r": repr(d["s"])[:60]})
    else:
        out["s"] = {"k": "absent"} if "s" not in d else {"k": "other", "r": "unexpected s"}
    if "o" in srcs:
        out["o"] = a_val(d.get("o"))
    else:
        out["o"] = {"k": "absent"} if "o" not in d else {"k": "other", "r": "unexpected o"}
    out["n"] = (a_n(d.get("n"), shape) if "np" in tg else {"k": "absent"} if "n" not in d else {"k": "other", "r": "unexpected n"})
    out["mpath"] = {"k": "path"} if isinstance(d.get("m"), dict) and "__path__" in d["m"] else {"k": "absent"}
    extra = {k for k in d if not is_meta(k)} - {"a", "b", "g", "t", "d", "m", "s", "o", "n", "cfg"}
    if extra:
        out["a"] = {"k": "other", "r": "unexpected keys " + ",".join(sorted(extra))}
    return out


PLACEHOLDER = {"a": {"k": "int", "v": 1}, "b": {"k": "int", "v": 2}, "gx": {"k": "int", "v": 1}, "gy": {"k": "int", "v": 2},
               "t": {"k": "absent"}, "d": {"k": "absent"}, "m": {"k": "absent"}, "s": {"k": "absent"}, "o": {"k": "absent"}, "n": {"k": "absent"}, "mpath": {"k": "absent"}}
ABSENT = {"k": "absent"}
ALL_OBS = False  # thorough: every kind of observation on every case
WORKBASE = None  # scratch directory of the run (set before the worker pool is forked)


def observe_save(parser, cfg, shape, ob):
    """save() in both modes into fresh directories: read EVERY written file back"""
    os.makedirs("sm")
    os.makedirs("ss")
    parser.save(cfg, "sm/main.yaml")
    raw = yaml.safe_load(open("sm/main.yaml").read()) or {}
    ob["smain"] = alpha(raw, shape)
    inner = (raw.get("fit") or {}) if shape["sub"] else raw
    names = {"main.yaml"}
    if isinstance(inner.get("m"), str):
        names.add(inner["m"])
        ob["ssub"] = a_m(yaml.safe_load(open(os.path.join("sm", inner["m"])).read())) if os.path.isfile(os.path.join("sm", inner["m"])) else {"k": "other", "r": "missing sub-config file"}
    # any further file (sub-configs of other groups): it must not hold a target either
    tkeys = {"t", "d", "p"} & ({l["tgt"] for l in shape["links"]} | ({"p"} if any(l["tgt"] == "mp" for l in shape["links"]) else set()))
    for f in sorted(os.listdir("sm")):
        if f not in names:
            txt = yaml.safe_load(open(os.path.join("sm", f)).read())
            if isinstance(txt, dict) and (tkeys & set(txt) or tkeys & set(txt.get("init_args") or {})):
                ob["ssub"] = {"k": "other", "r": f"target in extra file {f}"}
    parser.save(cfg, "ss/main.yaml", multifile=False)
    if sorted(os.listdir("ss")) != ["main.yaml"]:
        ob["ssingle"] = dict(PLACEHOLDER, a={"k": "other", "r": "single-file save wrote " + ",".join(sorted(os.listdir("ss")))})
    else:
        ob["ssingle"] = alpha(yaml.safe_load(open("ss/main.yaml").read()), shape)
    ob["saved"] = True
    try:
        ob["sre"] = {"ok": True, "c": alpha(parser.parse_path("sm/main.yaml"), shape)}
    except BaseException as ex:
        ob["exc"] = f"parse of the saved file: {type(ex).__name__}: {ex}"[:200]


def observe_print(shape, env, arg, ob, dcf=None):
    """--print_config on a fresh parser with the same input: what is printed"""
    import contextlib
    import io
    parser = build(shape, dcf=dcf)
    buf = io.StringIO()
    os.environ.update(env)
    try:
        with contextlib.redirect_stdout(buf):
            parser.parse_args(list(arg) + ["--print_config"])
        ob["exc"] = "print_config did not exit"
    except SystemExit as ex:
        if ex.code in (0, None):
            loaded = yaml.safe_load(buf.getvalue())
            ob["printed"] = alpha({"fit": loaded} if shape["sub"] else loaded, shape)
            ob["pok"] = True
        else:
            ob["exc"] = f"print_config exit status {ex.code}"
    except BaseException as ex:
        ob["exc"] = f"print_config: {type(ex).__name__}: {ex}"[:200]
    finally:
        for k in env:
            os.environ.pop(k, None)


def other(v, opt=False):
    """the edit of a source in a returned namespace (input generation; mirrors Changed of LinksParse.tla, whose result
    TLC emits as `hin` -- what is judged is alpha of the namespace that was really parsed again)"""
    return ({"k": "none"} if opt else {"k": "int", "v": 4}) if v == {"k": "int", "v": 3} else {"k": "int", "v": 3}


def observe_history(parser, cfg, shape, ob):
    """the caller edits every source of the links in the returned namespace and parses the namespace again"""
    c = ob["out"]["c"]
    srcs = {x for l in shape["links"] for x in l["srcs"]}
    pre = "fit." if shape["sub"] else ""
    ns = cfg.clone()
    edits = []
    for s, key, dotted in (("a", "a", "a"), ("b", "b", "b"), ("g", "gx", "g.x")):
        if s in srcs:
            edits.append((dotted, plain(other(c[key]))))
    if "o" in srcs:
        edits.append(("o", plain(other(c["o"], True))))
    if "sl" in srcs and c["s"]["k"] == "cls" and "limit" in c["s"]["ia"]:
        edits.append(("s.init_args.limit", plain(other(c["s"]["ia"]["limit"], True))))
    for k, v in edits:
        ns[pre + k] = v
    ob["htried"] = True
    ob["hin"] = alpha(ns, shape)
    ob["call"] += f"; ns = cfg.clone(); " + "; ".join(f"ns[{pre + k!r}] = {v!r}" for k, v in edits) + "; parser.parse_object(ns)"
    try:
        ob["hist"] = {"ok": True, "c": alpha(parser.parse_object(ns), shape)}
    except BaseException as ex:
        ob["hexc"] = f"{type(ex).__name__}: {ex}"[:200]


def observe_skip_default(parser, cfg, shape, ob):
    """dump(skip_default=True) and the parse of its text"""
    ob["sdtried"] = True
    try:
        text = parser.dump(cfg, skip_default=True)
        ob["sd"] = alpha(yaml.safe_load(text), shape)
        ob["sdok"] = True
    except BaseException as ex:
        ob["exc"] = f"dump(skip_default=True): {type(ex).__name__}: {ex}"[:200]
        return
    try:
        ob["sdre"] = {"ok": True, "c": alpha(parser.parse_string(text), shape)}
    except BaseException as ex:
        ob["exc"] = f"parse of the skip_default dump: {type(ex).__name__}: {ex}"[:200]


def run_case(shape, api, items, n=0, do_save=True, do_print=False, do_hist=True, do_sd=True):
    """the real code on one case -> observation (runs in a scratch directory of its own)"""
    ob = {"out": {"ok": False, "c": PLACEHOLDER}, "dumped": False, "dump": PLACEHOLDER, "re": {"ok": False, "c": PLACEHOLDER}, "exc": "", "call": "",
          "ptried": False, "pok": False, "printed": PLACEHOLDER, "htried": False, "hin": PLACEHOLDER, "hist": {"ok": False, "c": PLACEHOLDER},
          "sdtried": False, "sdok": False, "sd": PLACEHOLDER, "sdre": {"ok": False, "c": PLACEHOLDER},
          "saved": False, "tried_save": False, "smain": PLACEHOLDER, "ssub": ABSENT, "ssingle": PLACEHOLDER, "sre": {"ok": False, "c": PLACEHOLDER}}
    here = os.getcwd()
    work = tempfile.mkdtemp(prefix="case-", dir=WORKBASE)
    os.chdir(work)
    saved = {k: os.environ.get(k) for k in list(os.environ) if k.startswith("APP_")}
    for k in saved:
        del os.environ[k]
    try:
        # every other case with two or more links: the last link is created after the parser has parsed once
        late = 1 if len(shape["links"]) >= 2 and n % 2 == 1 and not shape.get("ap") else 0
        dcf = os.path.join(work, "dcf.yaml") if any(it["chan"] == "dcf" for it in items) else None
        env, arg = concretise(shape, api, items, n, write=True)
        parser = build(shape, late, dcf)
        if dcf:
            ob["call"] = f"default config file {open(dcf).read()!r}; "
        if late:
            os.environ.update(env or {})
            try:
                parser.parse_args(arg) if api == "args" else parser.parse_object(arg) if api == "object" else parser.parse_string(json.dumps(arg))
            except BaseException:
                pass  # e.g. a target that is still required
            for k in (env or {}):
                os.environ.pop(k, None)
            parser._verif_add_late()
            ob["call"] += "(last link added after a first parse of the same input) "
        try:
            if api == "args":
                os.environ.update(env)
                ob["call"] += f"environ {env}; parser.parse_args({arg})"
                cfg = parser.parse_args(arg)
            elif api == "object":
                ob["call"] += f"parser.parse_object({arg})"
                cfg = parser.parse_object(arg)
            else:
                ob["call"] += f"parser.parse_string({json.dumps(arg)!r})"
                cfg = parser.parse_string(json.dumps(arg))
        except BaseException as ex:  # the class of the failure is C03's business
            ob["exc"] = f"{type(ex).__name__}: {ex}"[:200]
            return ob
        finally:
            for k in (env or {}):
                os.environ.pop(k, None)
        ob["out"] = {"ok": True, "c": alpha(cfg, shape)}
        try:
            text = parser.dump(cfg)
            ob["dump"] = alpha(yaml.safe_load(text), shape)
            ob["dumped"] = True
        except BaseException as ex:
            ob["exc"] = f"dump: {type(ex).__name__}: {ex}"[:200]
            return ob
        try:
            ob["re"] = {"ok": True, "c": alpha(parser.parse_string(text), shape)}
        except BaseException as ex:
            ob["exc"] = f"reparse: {type(ex).__name__}: {ex}"[:200]
        if shape.get("ap"):  # (only parse, dump and re-parse are observed through ActionParser)
            return ob
        if do_save or ob["out"]["c"]["mpath"]["k"] == "path":
            ob["tried_save"] = True
            try:
                observe_save(parser, cfg, shape, ob)
            except BaseException as ex:
                ob["exc"] = f"save: {type(ex).__name__}: {ex}"[:200]
        if do_print and api == "args":
            ob["ptried"] = True
            observe_print(shape, env, arg, ob, dcf)
        if do_sd and not shape["sub"]:  # (skip_default with a required sub-command is a recorded defect of C01)
            observe_skip_default(parser, cfg, shape, ob)
        if do_hist:
            try:
                observe_history(parser, cfg, shape, ob)
            except Exception as ex:
                ob["exc"] = f"history: {type(ex).__name__}: {ex}"[:200]
        return ob
    finally:
        os.environ.update({k: v for k, v in saved.items() if v is not None})
        os.chdir(here)
        shutil.rmtree(work, ignore_errors=True)


def norm(x):
    """TLC prints an empty function as [] : normalise ia / given"""
    if isinstance(x, dict):
        return {k: ({} if k in ("ia", "given") and v == [] else norm(v)) for k, v in x.items()}
    if isinstance(x, list):
        return [norm(v) for v in x]
    return x


def _case_chunk(args):
    cases, base = args
    out = []
    for ci, c in enumerate(cases):
        # save() is observed whenever m carries __path__ (predicted or real) and on every fourth other case
        do_save = c["smain"]["m"]["k"] == "ref" or any(it["chan"] in ("file", "cfgfile") for it in c["items"]) or (base + ci) % 4 == 0
        try:
            # quick: the history on every fourth case and on every case with a partial compute function, skip_default on every
            # eighth case; thorough: on all
            partial = any(l["fn"] in ("par", "paro", "linp") for l in c["shape"]["links"])
            ob = run_case(c["shape"], c["api"], c["items"], base + ci, do_save=do_save, do_print=(base + ci) % 8 == 0,
                          do_hist=ALL_OBS or partial or (base + ci) % 4 == 2, do_sd=ALL_OBS or (base + ci) % 8 == 1)
        except Exception as ex:  # gamma could not build the case
            out.append((base + ci, False, {"gamma_error": f"{type(ex).__name__}: {ex}"[:300]}))
            continue
        same = ob["out"]["ok"] == c["ok"]
        if same and c["ok"]:
            same = ob["out"]["c"] == c["c"] and ob["dumped"] and ob["dump"] == c["dump"] and ob["re"]["ok"] == c["reok"] and (not c["reok"] or ob["re"]["c"] == c["rec"])
        if same and c["ok"] and ob["tried_save"]:
            same = (ob["saved"] and ob["smain"] == c["smain"] and ob["ssub"] == c["ssub"] and ob["ssingle"] == c["dump"]
                    and ob["sre"]["ok"] == c["sreok"] and (not c["sreok"] or ob["sre"]["c"] == c["srec"]))
        if same and c["ok"] and ob["sdtried"]:
            same = ob["sdok"] and ob["sd"] == c["sd"] and ob["sdre"]["ok"] == c["sdreok"] and (not c["sdreok"] or ob["sdre"]["c"] == c["sdrec"])
        if same and c["ok"] and ob["htried"]:
            same = ob["hin"] == c["hin"] and ob["hist"]["ok"] == c["hok"] and (not c["hok"] or ob["hist"]["c"] == c["hc"])
        if ob["ptried"] and ob["out"]["ok"]:
            ob["to_trace"] = True  # the printed configuration is judged by TLC (it is not part of the prediction)
        out.append((base + ci, same, ob))
    return out


# ------------------------------------------------------------------------------------- random cases beyond the bound
def random_case(rnd):
    I = lambda n: {"k": "int", "v": n}
    cand = [(["a"], "id", "t"), (["a"], "one", "t"), (["a", "b"], "lin", "t"), (["b", "a"], "lin", "t"), (["g"], "grp", "t"), (["g"], "asdict", "d"),
            (["a"], "id", "mp"), (["b"], "one", "mp"), (["a", "b"], "lin", "mp"), (["g"], "grp", "mp"),
            (["sl"], "id", "t"), (["sl"], "tot", "t"), (["sl"], "id", "mp"), (["sl"], "tot", "mp"), (["s"], "cls", "t"), (["o"], "id", "t"), (["o"], "tot", "t"), (["o"], "id", "mp"),
            (["a"], "par", "t"), (["b"], "par", "mp"), (["o", "a"], "lino", "t"), (["o", "b"], "lino", "mp"), (["sl", "a"], "linp", "t"), (["sl", "b"], "linp", "mp"),
            (["o"], "paro", "t"), (["sl"], "paro", "mp")]
    links, used = [], set()
    for s, f, t in rnd.sample(cand, rnd.randint(1, 4)):
        if t not in used:
            used.add(t)
            links.append({"srcs": s, "fn": f, "tgt": t})
    srcs = {x for l in links for x in l["srcs"]}
    opt = bool(srcs & {"s", "sl", "o"})
    shape = {"links": links, "mkind": rnd.choice(["init", "grp"] if opt else ["init", "list", "grp"]) if "mp" in used else "init", "req": rnd.random() < 0.5,
             "nkind": "dco", "sub": (not opt) and rnd.random() < 0.25, "ap": False}
    if not opt and not shape["sub"] and shape["mkind"] != "list" and rnd.random() < 0.08:
        shape["ap"] = True
    OV = [{"k": "none"}, I(0), I(3), I(2), {"k": "str", "v": ""}, {"k": "elist"}]
    api = rnd.choice(["args", "args", "object", "string"])
    chans = ["env", "cfg", "argv"] if api == "args" else ["obj"]
    items = []
    spec = lambda: {"k": "spec", "c": rnd.choice(["Base", "Sub", "NoP"]), "given": rnd.choice([{}, {"q": I(rnd.randint(0, 4))}, {"p": I(5)}, {"p": I(6), "q": I(3)}])}

    def fix(sp):  # NoP has no p
        if sp["c"] == "NoP":
            sp["given"] = {k: v for k, v in sp["given"].items() if k != "p"}
        return sp

    use_dcf = api == "args" and not shape["sub"] and not shape["ap"] and rnd.random() < 0.3
    for _ in range(rnd.randint(0, 6)):
        ch = rnd.choice(chans + ["dcf"] if use_dcf else chans)
        keys = ["a", "b", "gx", "gy"] + [t for t in ("t",) if t in used]
        if "o" in srcs and ch in ("argv", "cfg", "obj", "dcf"):
            keys += ["o", "o"]
        if srcs & {"s", "sl"} and ch in ("argv", "cfg", "obj"):
            keys += ["s", "s", "sl"]
        if "mp" in used and ch not in ("env", "dcf"):
            keys += ["m", "m"] + (["mq", "mp"] if shape["mkind"] != "list" and ch in ("argv",) else []) + (["mp"] if shape["mkind"] == "grp" and ch in ("cfg", "obj") else [])
        if "d" in used and ch in ("cfg", "obj", "dcf"):
            keys.append("d")
        key = rnd.choice(keys)
        if key in ("a", "b", "gx", "gy"):
            val = I(rnd.randint(0, 4))
        elif key in ("o", "sl"):
            val = rnd.choice(OV)
        elif key == "s":
            val = rnd.choice([{"k": "null"}, {"k": "spec", "c": "Src", "given": {}}, {"k": "spec", "c": "Src", "given": {"limit": rnd.choice(OV)}},
                              {"k": "spec", "c": "SrcSub", "given": {}}, {"k": "spec", "c": "SrcSub", "given": {"limit": rnd.choice(OV)}}, {"k": "spec", "c": "SrcNoL", "given": {}}])
        elif key == "t":
            val = I(5)
        elif key == "d":
            val = {"k": "dict", "x": 7, "y": 7}
        elif key in ("mq", "mp"):
            val = I(5 if key == "mp" else rnd.randint(0, 4))
        elif shape["mkind"] == "init":
            val = fix(spec())
        elif shape["mkind"] == "list":
            val = {"k": "specs", "v": [fix(spec()) for _ in range(rnd.randint(0, 3))]}
        else:
            val = {"k": "spec", "c": "Base", "given": rnd.choice([{"q": I(3)}, {"p": I(5)}, {"p": I(5), "q": I(2)}])}
        if key == "m" and ch == "argv" and shape["mkind"] != "list" and not shape["sub"] and not shape["ap"] and rnd.random() < 0.4:
            ch = rnd.choice(["file", "cfgfile"])  # the spec comes from its own file
        items.append({"chan": ch, "key": key, "val": val})
    # --s.limit on a class without that parameter is an invalid input
    if any(it["key"] == "sl" for it in items):
        items = [it for it in items if not (it["key"] == "s" and it["val"].get("c") == "SrcNoL")]
    if api == "args":
        items.sort(key=lambda it: {"dcf": 0, "env": 1}.get(it["chan"], 2))  # the default config file, then the environment, are read first
        seen = set()
        items = [it for it in items if not (it["chan"] in ("env", "dcf") and ((it["chan"], it["key"]) in seen or seen.add((it["chan"], it["key"]))))]
    else:  # one dict: distinct keys, and no m.q / m.p next to a whole m
        seen, keep = set(), []
        for it in items:
            grp = "m" if it["key"] in ("m", "mq", "mp") else "s" if it["key"] in ("s", "sl") else it["key"]
            if grp not in seen:
                seen.add(grp)
                keep.append(it)
        items = keep
    return {"shape": shape, "api": api, "items": items}


def _random_chunk(args):
    cases, base = args
    out = []
    for i, c in enumerate(cases):
        try:
            out.append((base + i, c, run_case(c["shape"], c["api"], c["items"], base + i, do_print=(base + i) % 2 == 0, do_sd=ALL_OBS or (base + i) % 2 == 1)))
        except Exception as ex:
            out.append((base + i, c, {"gamma_error": f"{type(ex).__name__}: {ex}"[:300]}))
    return out


def link_creation_cases():
    """(created link, new link) over the keys a, b, t, t2: what the real link_arguments does"""
    keys = ["a", "b", "t", "t2"]
    srcs = [(x,) for x in keys] + [(x, y) for x in keys for y in keys]
    links = [(s, t) for s in srcs for t in keys if t not in s]
    out = []
    for l1 in links:
        for l2 in links:
            p = ArgumentParser(exit_on_error=False)
            for k in keys:
                p.add_argument("--" + k, type=int, default=0)
            f = lambda *a: 0
            try:
                p.link_arguments(l1[0] if len(l1[0]) > 1 else l1[0][0], l1[1], f if len(l1[0]) > 1 else None)
            except Exception:
                continue
            try:
                p.link_arguments(l2[0] if len(l2[0]) > 1 else l2[0][0], l2[1], f if len(l2[0]) > 1 else None)
                ok = True
            except ValueError:
                ok = False
            out.append({"l1": {"srcs": list(l1[0]), "tgt": l1[1]}, "l2": {"srcs": list(l2[0]), "tgt": l2[1]}, "accepted": ok})
    return out


RETRIED = []


def run_mc(module, cfg, workers=None, timeout=3000):
    """one model-checking run; a run that ended with an error which is not a violated invariant (resource trouble on
    a shared machine: out of memory, killed JVM, time-out) is repeated once; what happened is kept for the evidence"""
    mc = None
    for attempt in (1, 2):
        mc = tlc.run(module, cfg, workers=workers or WORKERS, timeout=timeout, heap=HEAP)
        if mc.violated or not mc.errors:
            return mc
        RETRIED.append({"run": cfg, "attempt": attempt, "rc": mc.rc, "errors": mc.errors[:3], "tail": mc.stdout[-600:]})
    return mc


def run_trace(module, path, expect, soft=False):
    """one trace-validation run; a run that TLC did not complete (resource trouble on a shared machine) is retried once.
    soft: return None instead of failing when TLC reports an EVALUATION error (the caller isolates the observation)"""
    tr = None
    for attempt in (1, 2):
        tr = tlc.run(module, module, workers=WORKERS, env={"TRACE_FILE": str(path)}, timeout=2400, heap=HEAP)
        if not tr.errors and tr.distinct == expect:
            return tr
    if soft and tr.errors and any("evaluating" in e or "Attempted" in e for e in tr.errors):
        return None
    i = tr.stdout.find("Error")
    machinery_failure(PID, f"trace validation failed twice (distinct={tr.distinct}, expected {expect}, errors={tr.errors[:5]}):\n"
                      + (tr.stdout[max(0, i - 200):i + 2500] if i >= 0 else tr.stdout[-3000:]))


# ------------------------------------------------------------------------------------- main
def shape_tag(sh) -> str:
    return sh["mkind"] + ":" + "+".join(l["tgt"] + "<" + l["fn"] for l in sh["links"]) + (":req" if sh["req"] else "") + (":sub" if sh["sub"] else "") + (":ap" if sh.get("ap") else "") + (":" + sh["nkind"] if any(l["tgt"] == "np" for l in sh["links"]) else "")


def main(argv):
    tier = "thorough" if (argv and argv[0] == "thorough") else "quick"
    rep = Report(PID, tier)
    rnd = common.rng(PID)
    rep.assumptions = [
        "compute functions are injective and asymmetric on the value domain (a*10+7, a*10+b, g.x*10+g.y), so a stale, swapped or wrong-source target is visible",
        "the configuration is observed through Namespace.as_dict(); the dump is observed by reading the dumped yaml text back with yaml.safe_load",
        "the class of a parse failure is not compared (C03); a failure of any kind counts as 'rejected'",
        "the rest of the parse pipeline is modelled as the fold of the supplied items in precedence order (environment before command line, config and options left to right); precedence itself is C04's property",
        "a failed parse has no observable configuration: its FINAL source values are taken from the fold of the supplied items (Pre of LinksParse.tla) when the spec decides whether a compute function had to raise",
        "quick tier: the history (edit the sources of the returned namespace, parse it again) is observed on every fourth case and on every case with a partial compute function, dump(skip_default=True) on every eighth case and never below a sub-command (recorded C01 defect); thorough: on every case",
        "through ActionParser only parse, dump and re-parse are observed",
        "every case runs on a freshly built parser in a worker process whose APP_* environment is restored after the case",
    ]
    global WORKBASE, ALL_OBS
    ALL_OBS = tier == "thorough"
    tmp = common.scratch("c15")
    WORKBASE = str(tmp)  # the workers (forked next) run every case in a directory of its own below it
    pool = mp.get_context("fork").Pool(NPROC)
    clock = common.Timer()
    timing = rep.extra.setdefault("timing_s", {})
    try:
        cfgname = f"MC_LinksParse_{tier}"
        mc = run_mc("MC_LinksParse", cfgname)
        rep.add_tlc(cfgname, mc)
        cases = []
        if mc.errors:
            if mc.violated:
                rep.violation("model:" + ",".join(mc.violated), f"TLC: {mc.violated} violated in {cfgname}: the transcription of the link code does not satisfy the property on the model",
                              {"tlc_errors": mc.errors, "counterexample": mc.cex[:4000]})
            else:
                machinery_failure(PID, f"TLC failed on {cfgname}:\n" + mc.stdout[-3000:])
        else:
            cases = [norm(p) for p in mc.printed if isinstance(p, dict) and "shape" in p]
            seeds = [p for p in mc.printed if isinstance(p, list) and p and p[0] == "SEEDS"]
            if not seeds or len(cases) != mc.distinct - seeds[0][1]:
                machinery_failure(PID, f"{cfgname}: {len(cases)} emitted cases for {mc.distinct} distinct states (seeds {seeds})")
            cases.sort(key=lambda c: json.dumps([c["shape"], c["api"], c["items"]], sort_keys=True))
        timing["mc"] = clock.s()

        # ---------------------------------------------------------------- REPLAY
        obs = []  # (case, observation, origin)
        n_same = n_dev = n_print = n_apdev = n_subdev = n_dcfdev = 0
        fatal = None
        chunks = [(cases[i:i + 250], i) for i in range(0, len(cases), 250)]
        for res in pool.imap_unordered(_case_chunk, chunks):
            for idx, same, ob in res:
                c = cases[idx]
                if "gamma_error" in ob:  # (reported after the pool has been drained: leaving the loop early can block the pool)
                    fatal = fatal or f"gamma could not run case {json.dumps(c)[:500]}: {ob['gamma_error']}"
                    continue
                if ob.get("to_trace"):
                    n_same += 1 if same else 0
                    n_print += 1
                    obs.append((c, ob, "model"))
                elif same and c["apdev"]:
                    n_apdev += 1
                    rep.violation("actionparser-drops-links", "the parse links of a parser that is used through ActionParser are not applied",
                                  {"shape": c["shape"], "api": c["api"], "items": c["items"], "python": ob["call"] + "; parser.dump(cfg)", "observed": ob, "origin": "model"})
                elif same and c["subdev"]:
                    n_subdev += 1
                    rep.violation("fn-called-on-nonfinal-sources:subcommand-env", "inside a sub-command a compute_fn is called on the sub-command's defaults + environment (not the final sources) and its exception fails the parse",
                                  {"shape": c["shape"], "api": c["api"], "items": c["items"], "python": ob["call"], "observed": ob, "origin": "model"})
                elif same and c["dcfdev"]:
                    n_dcfdev += 1
                    rep.violation("fn-called-on-nonfinal-sources:default-config-file", "a compute_fn is called on the declared defaults + default config file (not the final sources) and its exception fails every parse",
                                  {"shape": c["shape"], "api": c["api"], "items": c["items"], "python": ob["call"], "observed": ob, "origin": "model"})
                elif same and c["dev"]:
                    n_dev += 1
                    rep.violation("dump-keeps-target:list-item", "dump() keeps the link target inside the items of a list of classes",
                                  {"shape": c["shape"], "api": c["api"], "items": c["items"], "python": ob["call"] + "; parser.dump(cfg)", "observed": ob, "origin": "model"})
                elif same:
                    n_same += 1
                else:
                    obs.append((c, ob, "model"))
        if fatal:
            machinery_failure(PID, fatal)
        for c in cases:
            if c["items"]:
                rep.note_nontrivial(json.dumps([c["shape"], c["api"], c["items"]], sort_keys=True))
        rep.extra["cases_emitted"] = len(cases)
        rep.extra["cases_identical_to_prediction"] = n_same
        rep.extra["cases_in_recorded_deviation"] = n_dev
        rep.extra["cases_in_actionparser_deviation"] = n_apdev
        rep.extra["cases_in_subcommand_env_deviation"] = n_subdev
        rep.extra["cases_in_default_config_file_deviation"] = n_dcfdev
        rep.extra["cases_with_a_default_config_file"] = sum(1 for c in cases if any(it["chan"] == "dcf" for it in c["items"]))
        rep.extra["cases_where_a_compute_fn_raises"] = sum(1 for c in cases if c["raises"])
        rep.extra["histories_rejected_by_spec"] = sum(1 for c in cases if c["ok"] and not c["shape"]["ap"] and not c["hok"])
        rep.extra["cases_with_print_config_sent_to_tlc"] = n_print
        rep.extra["cases_rejected_by_spec"] = sum(1 for c in cases if not c["ok"])
        rep.extra["cases_supplying_the_target"] = sum(1 for c in cases if any(it["key"] in ("t", "d", "mp") or (it["key"] in ("m", "n") and ("\"p\"" in json.dumps(it["val"]) or "\"seed\"" in json.dumps(it["val"]))) for it in c["items"]))
        rep.extra["shapes"] = len({json.dumps(c["shape"], sort_keys=True) for c in cases})
        for c in (cases[:: max(1, len(cases) // 3)])[:3]:
            env, arg = concretise(c["shape"], c["api"], c["items"])
            rep.sample({"shape": c["shape"], "api": c["api"], "items": c["items"], "python": f"environ {env}; parse {arg}", "spec_ok": c["ok"], "spec_config": c["c"], "spec_dump": c["dump"]})
        timing["replay"] = clock.s()

        # ---------------------------------------------------------------- link creation rules
        lc = link_creation_cases()
        rep.extra["link_creation_pairs"] = len(lc)

        # ---------------------------------------------------------------- random cases beyond the bound
        nrand = 1500 if tier == "quick" else 20000
        rcases = [random_case(rnd) for _ in range(nrand)]
        chunks = [(rcases[i:i + 250], i) for i in range(0, len(rcases), 250)]
        rres = []
        for res in pool.imap_unordered(_random_chunk, chunks):
            rres += res
        rres.sort(key=lambda x: x[0])
        for _i, c, ob in rres:
            if "gamma_error" in ob:
                machinery_failure(PID, f"gamma could not run random case {json.dumps(c)[:500]}: {ob['gamma_error']}")  # (the pool is idle here)
            obs.append((c, ob, "random"))
            if c["items"]:
                rep.note_nontrivial("R" + json.dumps(c, sort_keys=True))
        rep.extra["random_cases"] = nrand
        timing["random"] = clock.s()

        # ---------------------------------------------------------------- TRACE
        rejects = []
        CH = 6000
        for cidx in range(max(1, (len(obs) + CH - 1) // CH)):
            part = obs[cidx * CH:(cidx + 1) * CH]
            f = tmp / f"trace{cidx}.json"
            f.write_text(json.dumps({"obs": [{"shape": c["shape"], "items": c["items"], "out": ob["out"], "dumped": ob["dumped"], "dump": ob["dump"], "re": ob["re"],
                                              "ptried": ob["ptried"] and ob["out"]["ok"], "pok": ob["pok"], "printed": ob["printed"],
                                              "tried": ob["tried_save"], "saved": ob["saved"], "smain": ob["smain"], "ssub": ob["ssub"], "ssingle": ob["ssingle"], "sre": ob["sre"],
                                              "htried": ob["htried"], "hin": ob["hin"], "hout": ob["hist"],
                                              "sdtried": ob["sdtried"], "sdok": ob["sdok"], "sd": ob["sd"], "sdre": ob["sdre"]}
                                             for c, ob, _o in part], "links": lc if cidx == 0 else []}))
            tr = run_trace("Trace_LinksParse", f, len(part) + (len(lc) if cidx == 0 else 0), soft=True)
            if tr is None:
                # TLC could not EVALUATE the spec on some observation of this chunk (an evaluation error, e.g. a comparison of
                # values of two kinds that the encoding of a rare random case produces): isolate those observations by
                # bisection, validate everything else, and report them as not validated (never as a verdict)
                f.unlink()
                stack = [(0, len(part), cidx == 0)]
                while stack:
                    lo, hi, with_links = stack.pop()
                    sub = json.loads(json.dumps({"obs": [], "links": lc if with_links else []}))
                    sub["obs"] = [{"shape": c["shape"], "items": c["items"], "out": ob["out"], "dumped": ob["dumped"], "dump": ob["dump"], "re": ob["re"],
                                   "ptried": ob["ptried"] and ob["out"]["ok"], "pok": ob["pok"], "printed": ob["printed"],
                                   "tried": ob["tried_save"], "saved": ob["saved"], "smain": ob["smain"], "ssub": ob["ssub"], "ssingle": ob["ssingle"], "sre": ob["sre"],
                                   "htried": ob["htried"], "hin": ob["hin"], "hout": ob["hist"],
                                   "sdtried": ob["sdtried"], "sdok": ob["sdok"], "sd": ob["sd"], "sdre": ob["sdre"]} for c, ob, _o in part[lo:hi]]
                    g = tmp / f"trace{cidx}_{lo}_{hi}.json"
                    g.write_text(json.dumps(sub))
                    t2 = run_trace("Trace_LinksParse", g, (hi - lo) + (len(lc) if with_links else 0), soft=True)
                    g.unlink()
                    if t2 is None:
                        if hi - lo <= 1:
                            rep.extra.setdefault("observations_tlc_could_not_evaluate", []).append({"shape": part[lo][0]["shape"], "items": part[lo][0]["items"]} if hi > lo else {"links": True})
                            if len(rep.extra["observations_tlc_could_not_evaluate"]) > 20:
                                machinery_failure(PID, "TLC could not evaluate Trace_LinksParse on more than 20 observations")
                            continue
                        mid = (lo + hi) // 2
                        stack.append((lo, mid, with_links))
                        stack.append((mid, hi, False))
                        continue
                    rep.add_tlc(f"Trace_LinksParse[{cidx}:{lo}-{hi}]", t2)
                    for p in t2.printed:
                        if isinstance(p, list) and p and p[0] == "R":
                            rejects.append((p[1], p[2] + ((cidx * CH + lo) if p[1] == "parse" else 0), p[3]))
                continue
            rep.add_tlc(f"Trace_LinksParse[{cidx}]", tr)
            for p in tr.printed:
                if isinstance(p, list) and p and p[0] == "R":
                    rejects.append((p[1], p[2] + (cidx * CH if p[1] == "parse" else 0), p[3]))
            f.unlink()
        timing["trace"] = clock.s()

        rep.traces = len(cases) + nrand + len(lc)
        rep.evaluations = rep.traces
        rep.rule = ("cases = (parser shape, API, sequence of supplied items); non-trivial & distinct = distinct cases that supply at least one item "
                    "(a source value through some channel or a value for the target itself)")
        rep.exhaustive = True
        rep.explanation = (f"MC_LinksParse enumerated every shape of its family ({rep.extra['shapes']} shapes) x every item sequence up to its bound: {len(cases)} cases, all checked against Ref by TLC "
                           f"and all replayed on fresh real parsers (parse, dump, re-parse); {len(obs)} observations (differences and {nrand} seeded random cases beyond the bound) and "
                           f"{len(lc)} link-creation pairs were validated by TLC against Trace_LinksParse. Exhaustive within the bound only.")

        by = {}
        for kind, idx, clause in rejects:
            by.setdefault((kind, idx), []).append(clause)
        for (kind, idx), clauses in sorted(by.items()):
            ref = [c for c in clauses if c.startswith("ref")]
            if kind == "link":
                case = {"pair": lc[idx - 1], "failed_clauses": clauses}
                if ref:
                    rep.violation(f"link-creation:{'accepted' if lc[idx - 1]['accepted'] else 'rejected'}:{ref[0][4:]}", "link_arguments accepts / rejects a second link against the no-chain / no-double-target rule", case)
                else:
                    rep.add_drift("link creation differs from the transcription", case)
                continue
            c, ob, origin = obs[idx - 1]
            case = {"shape": c["shape"], "api": c["api"], "items": c["items"], "python": ob["call"], "observed": ob, "origin": origin, "failed_clauses": clauses}
            if not ref:
                rep.add_drift("the real parser satisfies the property but differs from the transcription", case)
                continue
            for cl in ref:
                if cl == "ref-dev-list-item-as-alg":
                    rep.violation("dump-keeps-target:list-item", "dump() keeps the link target inside the items of a list of classes", case)
                elif cl == "ref-dev-sub-env-as-alg":
                    rep.violation("fn-called-on-nonfinal-sources:subcommand-env", "inside a sub-command a compute_fn is called on the sub-command's defaults + environment (not the final sources) and its exception fails the parse", case)
                elif cl == "ref-dev-dcf-as-alg":
                    rep.violation("fn-called-on-nonfinal-sources:default-config-file", "a compute_fn is called on the declared defaults + default config file (not the final sources) and its exception fails every parse", case)
                elif cl == "ref-dev-ap-as-alg":
                    rep.violation("actionparser-drops-links", "the parse links of a parser that is used through ActionParser are not applied", case)
                else:
                    rep.violation(f"{cl[4:]}:{shape_tag(c['shape'])}", f"links applied on parse: {cl}", case)
        if RETRIED:
            rep.extra["tlc_runs_repeated"] = RETRIED
        return rep.finish()
    finally:
        pool.terminate()
        common.rm(tmp)


if __name__ == "__main__":
    args = sys.argv[1:]
    if args and args[0] == "--replay":
        data = json.load(open(args[1]))
        case = data.get("case", {})
        if "shape" in case and "items" in case:
            print(json.dumps({"case": {k: case[k] for k in ("shape", "api", "items")}, "observed_now": run_case(case["shape"], case.get("api", "args"), case["items"])}, indent=1))
        else:
            print(json.dumps(data, indent=1))
        sys.exit(0)
    sys.exit(main(args))
