"""C20 — restricted and registered scalar types validate exactly and serialise losslessly.

  MC      tlc MC_Restricted: one state per case of the bounded instance of spec/Restricted.tla
            num     every restricted number type with 1..MaxCmp comparisons x 64 candidate values
            named   the predefined types of typing.py:361-370 (PositiveInt ... OpenUnitInterval)
            create  well- / ill-formed restriction specifications
            str     14 regular expressions (incl. NotEmptyStr, Email) x every text over 6 characters up to StrLen
            reg     registered types x values (paths over a YAML hazard alphabet, ranges, timedeltas, base64 groups,
                    decimals, uuids, complex) x channels yaml / json / cli
            secret  SecretStr in every dump context
          invariants: Alg refines Ref (also through the parser channels), idempotence, join / complement laws,
          grammar formulations agree, ser/deser inverse, resolver laws, named deviations are exactly the failures.
          TLC emits every case with the outcome the specification expects.
  REPLAY  (spec -> code) every emitted case is concretised (gamma), run on the real jsonargparse
          (restricted_number_type / restricted_string_type / ArgumentParser dump + parse) and the abstracted
          outcome (alpha) is compared with what TLC printed.
  TRACE   (code -> spec) seeded random types, candidates, regexes, texts, registered values and secrets beyond the
          bounds of the instance are run on the real code, recorded, and validated by TLC (Trace_Restricted).
  ROUND 4 (extension): part strx (counted repetition, IGNORECASE groups, MULTILINE anchors), parts regm / pmode (parser modes json, jsonnet, toml:
          registered round trips in the mode's dump formats and the restricted types through such parsers), part regc (registered values inside
          List / Dict / Optional / Union / dataclass fields / defaults, os.PathLike), pydantic.SecretStr as a second flavour of part secret, and the type
          registry as a state machine (spec/Registry.tla, MC_Registry, Trace_Registry; driver in c20_registry.py).
  Verdict: Ref clauses (accept/reject, value, idempotence, round trip "eq", no leak) -> VIOLATION (or KNOWN-FINDING when
  the real code behaves exactly as the named deviation of the Alg layer); Alg-only clauses -> drift.
"""
from __future__ import annotations

import base64
import contextlib
import dataclasses
import datetime
import decimal
import io
import json
import math
import os
import pathlib
import re as _re
import sys
import uuid
from fractions import Fraction
from typing import Dict, List, Optional, Tuple, Union

from ..lib import common, tlc
from ..lib.evidence import Report, machinery_failure

common.check_repo_import()
import jsonargparse  # noqa: E402
from jsonargparse import ArgumentParser, Namespace  # noqa: E402
from jsonargparse import typing as jtyping  # noqa: E402
from jsonargparse.typing import SecretStr, restricted_number_type, restricted_string_type  # noqa: E402

from . import c20_registry as regy  # noqa: E402  (round 4: the type registry as a state machine; imports jsonargparse)

PID = "C20"
WORKERS = int(os.environ.get("VERIF_TLC_WORKERS", "16"))
HEAP = os.environ.get("VERIF_TLC_HEAP", "6g")
NLCH = "|"  # the spec's stand-in for the newline character in candidate texts
INF = float("inf")


# ================================================================ gamma: abstract -> real
def txt(chars) -> str:
    return "".join(chars).replace(NLCH, "\n")


def chars_of(s: str) -> list:
    return [NLCH if c == "\n" else c for c in s]


def gamma_cand(c):
    """a candidate value of parts num / str"""
    k = c["k"]
    s, n, d = c["v"]
    if k == "int":
        return 10**400 if s == "huge" else n // d
    if k == "float":
        return {"pinf": INF, "ninf": -INF, "nan": float("nan")}.get(s, n / d if s == "fin" else None)
    if k == "bool":
        return bool(n)
    if k == "str":
        return txt(c["t"])
    if k == "bytes":
        return txt(c["t"]).encode()
    if k == "none":
        return None
    if k == "list":
        return [1]
    if k == "dict":
        return {"a": 1}
    raise AssertionError(k)


def ref_py(base, n, d):
    if n % d == 0:
        return n // d  # integral references are passed as ints (also for float: 1 == float(1))
    return n / d


_BASES = {"int": int, "float": float, "str": str}


_NUM_TYPES: dict = {}  # canonical key -> created type (restricted_number_type registers one class per key and name)


def num_key(tj):
    return (tj["base"], tj["join"], tuple(sorted((op, Fraction(n, d)) for op, n, d in tj["r"])))


def bind_named(named_lines):
    """the predefined types of jsonargparse.typing own their keys: a specification equal to one of them IS that type"""
    for ln in named_lines:
        _NUM_TYPES[num_key(ln["type"])] = getattr(jtyping, ln["name"])


def build_num_type(tj, cache=True, float_refs=False):
    key = num_key(tj)
    if cache and key in _NUM_TYPES:
        return _NUM_TYPES[key]
    restr = [(op, ref_py(tj["base"], n, d)) for op, n, d in tj["r"]]
    if float_refs:  # round 4: integral references spelled as floats (1.0 == int(1.0) passes typing.py:134 for both bases; same registry key)
        restr = [(op, float(r)) for op, r in restr]
    T = restricted_number_type(f"C20Num{len(_NUM_TYPES)}_{os.getpid()}", _BASES[tj["base"]], restr, join=tj["join"])
    _NUM_TYPES[key] = T
    return T


def re_pattern(t) -> str:
    """regular expression term -> Python pattern text"""
    k = t["k"]
    if k == "chr":
        cs = sorted(("\n" if c == NLCH else c) for c in t["s"])
        if not cs:
            return r"[\s\S]" if t["neg"] else r"(?!)"
        body = "".join("\\n" if c == "\n" else _re.escape(c) for c in cs)
        if len(cs) == 1 and not t["neg"]:
            return body
        return "[" + ("^" if t["neg"] else "") + body + "]"
    if k == "cat":
        return "".join(re_pattern(x) for x in t["a"])
    if k == "alt":
        return "(?:" + "|".join(re_pattern(x) for x in t["a"]) + ")"
    if k in ("star", "plus", "opt"):
        return "(?:" + re_pattern(t["r"]) + ")" + {"star": "*", "plus": "+", "opt": "?"}[k]
    if k == "rep":  # round 4: counted repetition, hi < 0 = unbounded
        return "(?:" + re_pattern(t["r"]) + "){" + str(t["lo"]) + "," + (str(t["hi"]) if t["hi"] >= 0 else "") + "}"
    if k == "ci":  # a group under IGNORECASE
        return "(?i:" + re_pattern(t["r"]) + ")"
    return {"bol": "^", "eol": "$", "eos": r"\Z", "mbol": "(?m:^)", "meol": "(?m:$)"}[k]


_STR_TYPES: dict = {}


def build_str_type(pattern: str):
    if pattern not in _STR_TYPES:
        _STR_TYPES[pattern] = restricted_string_type(f"C20Str{len(_STR_TYPES)}", pattern)
    return _STR_TYPES[pattern]


REG_HINT = {"range": range, "timedelta": datetime.timedelta, "bytes": bytes, "bytearray": bytearray, "Decimal": decimal.Decimal,
            "DecimalX": decimal.Decimal, "Path": pathlib.Path, "PosixPath": pathlib.PosixPath, "UUID": uuid.UUID, "complex": complex}

_CTX = decimal.Context(prec=600)  # exact arithmetic for building decimals (the default context rounds to 28 digits)

# exemplars of the opaque decimals, by the two facts <<exact as a double, class of the number of significant digits>>
DECX = {
    ("exact", "le15"): ["123456789012.5", "-450359962737049", "0.000030517578125"],
    ("exact", "mid"): ["6013962492946358", "-0.00003528594970703125", "4503599627370497"],
    ("inexact", "mid"): ["0.1234567890123456", "-54352.11405154006", "12345678901234567"],
    ("exact", "gt17"): [str(_CTX.power(decimal.Decimal(2), -60)), "1267650600228229401496703205376", "-" + str(_CTX.multiply(_CTX.power(decimal.Decimal(2), -40), 3))],
    ("inexact", "le15"): ["1234567890.1", "-0.000000000000123", "1E-20", "9.99999999999999E+200"],
    ("inexact", "gt17"): ["0.1234567890123456789", "3.14159265358979323846264338327950288", "1E+400", "-1E+400", "1E-400", "123456789012345678.1"],
}


def dec_facts(v: decimal.Decimal):
    """alpha of a finite Decimal into the spec's vocabulary (facts about the INPUT only):
    sign, coefficient, exponent, `exact` (the value is a double: reduced denominator a power of two, odd part of the
    numerator within 53 bits, magnitude within the normal range), `dcls` (significant digits: le15 / mid = 16-17 / gt17 or beyond the normal range)."""
    sign, digits, exp = v.as_tuple()
    coef = int("".join(map(str, digits))) if digits else 0
    if coef == 0:
        return sign, 0, exp, True, "le15"
    q = Fraction(coef) * Fraction(10) ** exp
    n, d = q.numerator, q.denominator
    while n % 2 == 0:
        n //= 2
    mag = q.numerator.bit_length() - q.denominator.bit_length()
    exact = (d & (d - 1)) == 0 and n.bit_length() <= 53 and -1000 < mag < 1000
    nd = len(str(coef).rstrip("0"))
    dcls = "gt17" if (nd > 17 or abs(v.adjusted()) >= 300) else "le15" if nd <= 15 else "mid"
    return sign, coef, exp, exact, dcls


def gamma_reg(ty, f):
    if ty == "range":
        return range(*f)
    if ty == "timedelta":
        return datetime.timedelta(days=f[0], seconds=f[1], microseconds=f[2])
    if ty == "bytes":
        return bytes(f)
    if ty == "bytearray":
        return bytearray(f)
    if ty == "Decimal":
        return decimal.Decimal((f[0], tuple(int(c) for c in str(f[1])), f[2]))
    if ty in ("Path", "PosixPath"):
        return pathlib.Path("".join(f))
    if ty == "UUID":
        return uuid.UUID("".join(f))
    if ty == "complex":
        return complex("".join(f))
    raise AssertionError(ty)


# ================================================================ alpha: real -> abstract
def alpha_num(r):
    if isinstance(r, bool):
        return "bool", ["fin", int(r), 1]
    if isinstance(r, int):
        if abs(r) < 2**30:
            return "int", ["fin", int(r), 1]
        return "int", (["huge", 0, 1] if r > 10**308 else ["big", 0, 1])
    if isinstance(r, float):
        if r != r:
            return "float", ["nan", 0, 1]
        if r in (INF, -INF):
            return "float", ["pinf" if r > 0 else "ninf", 0, 1]
        n, d = r.as_integer_ratio()
        return "float", (["fin", n, d] if abs(n) < 2**30 and d < 2**30 else ["big", 0, 1])
    return type(r).__name__, ["none", 0, 1]


def same_py(a, b) -> bool:
    return type(a) is type(b) and (a == b or (a != a and b != b))


def observe(T, base_cls, call):
    """run `call()` (a cast or a parse returning the value) and abstract what came back"""
    try:
        r = call()
    except BaseException as ex:  # noqa: BLE001  the class is Alg-level
        name = type(ex).__name__
        return {"r": "raise", "k": "rejected", "v": ["none", 0, 1], "t": [], "exc": "ValueError" if name == "ArgumentError" else name,
                "idem": True, "inst": True}
    if isinstance(r, str):
        k, v, t = "str", ["none", 0, 1], chars_of(r)
    else:
        (k, v), t = alpha_num(r), []
    try:
        r2 = T(r)
        idem = same_py(r2, r)
    except BaseException:  # noqa: BLE001
        idem = False
    inst = isinstance(r, T) and isinstance(r, base_cls) and not isinstance(r, bool)
    return {"r": "ok", "k": k, "v": v, "t": t, "exc": "", "idem": bool(idem), "inst": bool(inst)}


def make_parser(T, **kw):
    p = ArgumentParser(exit_on_error=False)
    p.add_argument("--x", type=T, **kw)
    return p


def run_channel(T, base_cls, parser, chan, value):
    if chan == "direct":
        return observe(T, base_cls, lambda: T(value))
    if chan == "object":
        return observe(T, base_cls, lambda: parser.parse_object({"x": value}).x)
    return observe(T, base_cls, lambda: parser.parse_args(["--x=" + value]).x)


def outcome_matches(exp, ob) -> bool:
    """exp: ValJ printed by TLC (k, v=[s,num,den], t); ob: observation"""
    if exp["k"] == "rejected":
        return ob["r"] == "raise"
    if ob["r"] != "ok" or ob["k"] != exp["k"]:
        return False
    if exp["k"] == "str":
        return ob["t"] == list(exp["t"])
    (s1, n1, d1), (s2, n2, d2) = exp["v"], ob["v"]
    if s1 != s2:
        return False
    return s1 != "fin" or Fraction(n1, d1) == Fraction(n2, d2)


def cand_label(c) -> str:
    if c["k"] in ("str", "bytes"):
        return c["k"] + ":" + "".join(c["t"])
    if c["k"] in ("int", "float", "bool"):
        s, n, d = c["v"]
        return c["k"] + ":" + (s if s != "fin" else (str(n) if d == 1 else f"{n}/{d}"))
    return c["k"]


def type_label(tj) -> str:
    return tj["base"] + "[" + (" " + tj["join"] + " ").join(f"{op}{ref_py(tj['base'], n, d)}" for op, n, d in tj["r"]) + "]"


# ================================================================ registered types: one round trip
_REG_PARSERS: dict = {}


def reg_parser(ty):
    if ty not in _REG_PARSERS:
        _REG_PARSERS[ty] = make_parser(REG_HINT[ty])
    return _REG_PARSERS[ty]


def representation(parser, v):
    """the config representation of v as the parser serialises it (a str or a float), read with the stdlib json"""
    return json.loads(parser.dump(Namespace(x=v), format="json"), parse_constant=lambda c: float(c.replace("Infinity", "inf").replace("NaN", "nan")))["x"]


def roundtrip(ty, v, chan):
    """-> (outcome class, representation record, written text)"""
    parser = reg_parser(ty)
    try:
        rep = representation(parser, v)
    except BaseException as ex:  # noqa: BLE001
        return "dump-raise:" + type(ex).__name__, {"k": "none", "t": []}, ""
    rrec = {"k": "str", "t": list(rep)} if isinstance(rep, str) else {"k": "float", "t": []}
    try:
        if chan == "cli":
            text = rep if isinstance(rep, str) else repr(rep)
            back = parser.parse_args(["--x=" + text]).x
        else:
            text = parser.dump(Namespace(x=v), format=chan)
            back = parser.parse_string(text).x
    except BaseException:  # noqa: BLE001
        return "reject", rrec, locals().get("text", "")
    if type(back) is type(v) and back == v:
        return "eq", rrec, text
    if isinstance(v, decimal.Decimal) and type(back) is decimal.Decimal:
        try:
            via = decimal.Decimal(repr(float(v))) if chan == "cli" else decimal.Decimal(float(v))
            if back == via or (back != back and via != via):
                return "via-float", rrec, text
        except BaseException:  # noqa: BLE001
            pass
    return "other", rrec, text


# ---------------------------------------------------------------- round 4: parser modes json / jsonnet / toml
_MODE_PARSERS: dict = {}
MODE_FORMATS = {"json": ["json", "json_indented", "parser_mode"], "jsonnet": ["parser_mode"], "toml": ["parser_mode", "toml"]}


def mode_parser(hint, mode, key=None):
    k = (key or hint, mode)
    if k not in _MODE_PARSERS:
        p = ArgumentParser(exit_on_error=False, parser_mode=mode)
        p.add_argument("--x", type=hint)
        _MODE_PARSERS[k] = p
    return _MODE_PARSERS[k]


def roundtrip_mode(ty, v, mode, chan, fmt="parser_mode"):
    """one round trip through a parser of the given mode -> (outcome class, representation record, written text)"""
    parser = mode_parser(REG_HINT[ty], mode)
    try:
        rep = representation(parser, v)
    except BaseException as ex:  # noqa: BLE001
        return "dump-raise:" + type(ex).__name__, {"k": "none", "t": []}, ""
    rrec = {"k": "str", "t": list(rep)} if isinstance(rep, str) else {"k": "float", "t": []}
    text = ""
    try:
        if chan == "cli":
            text = rep if isinstance(rep, str) else repr(rep)
            back = parser.parse_args(["--x=" + text]).x
        else:
            text = parser.dump(Namespace(x=v), format=fmt)
            back = parser.parse_string(text).x
    except BaseException:  # noqa: BLE001
        return "reject", rrec, text
    if type(back) is type(v) and back == v:
        return "eq", rrec, text
    if isinstance(v, decimal.Decimal) and type(back) is decimal.Decimal:
        with contextlib.suppress(BaseException):
            via = decimal.Decimal(repr(float(v))) if chan == "cli" else decimal.Decimal(float(v))
            if back == via or (back != back and via != via):
                return "via-float", rrec, text
    return "other", rrec, text


def loaded_kind_mode(text, mode):
    """what load_value makes of a text under the loader of `mode` (the assumption LdOfM of the spec, from the real loader)"""
    from jsonargparse._common import parser_context
    from jsonargparse._loaders_dumpers import get_loader_exceptions, load_value

    try:
        with parser_context(load_value_mode=mode):
            try:
                v = load_value(text) if text.strip() != "" else text
            except get_loader_exceptions():
                return "text"
    except Exception:  # noqa: BLE001  load_value itself raises (TypeError / ValueError today): the class "crash"
        return "crash"
    if v is None:
        return "none"
    if isinstance(v, list):
        return "list"
    if isinstance(v, dict):
        return "dict"
    return "text" if isinstance(v, (str, int, float, bool)) else None


def real_tags(text):
    """what the real resolvers say about a plain scalar (binding of part 6 of the spec), as (dumper, loader)"""
    import yaml
    from jsonargparse._loaders_dumpers import get_yaml_default_loader

    import jsonargparse._loaders_dumpers as _ld

    get_dumper = getattr(_ld, "get_yaml_default_dumper", None)  # the class yaml_dump hands to PyYAML (since f3cd0b1)
    d = (get_dumper() if get_dumper else yaml.SafeDumper)(io.StringIO()).resolve(yaml.ScalarNode, text, (True, False)).rsplit(":", 1)[-1]
    ldr = get_yaml_default_loader()("")
    try:
        ltag = ldr.resolve(yaml.ScalarNode, text, (True, False)).rsplit(":", 1)[-1]
    finally:
        with contextlib.suppress(Exception):
            ldr.dispose()
    return d, ltag


# ================================================================ SecretStr: dumps of a configuration holding a secret
@dataclasses.dataclass
class _SecretDC:
    pw: SecretStr = SecretStr("dc-default")
    n: int = 1


_FLAVOUR = ["jsonargparse"]  # which secret type the SecretStr helpers below use (set per case by replay_secret)


def _secret_cls():
    if _FLAVOUR[0] == "pydantic":
        import pydantic

        return pydantic.SecretStr
    return SecretStr


_SECRET_DC: dict = {}


def _secret_dc():
    S = _secret_cls()
    if _FLAVOUR[0] == "jsonargparse":
        return _SecretDC
    if "p" not in _SECRET_DC:
        _SECRET_DC["p"] = dataclasses.make_dataclass("_SecretDCp", [("pw", S, dataclasses.field(default=S("dc-default"))), ("n", int, dataclasses.field(default=1))])
    return _SECRET_DC["p"]


def secret_parser(ctx, secret):
    """-> (parser, config object to parse)"""
    SecretStr = _secret_cls()  # noqa: N806
    _SecretDC = _secret_dc()  # noqa: N806
    hint = {"bare": SecretStr, "optional": Optional[SecretStr], "list": List[SecretStr], "dict": Dict[str, SecretStr],
            "tuple": Tuple[SecretStr, int], "union": Union[int, SecretStr], "dataclass": _SecretDC, "default": SecretStr}[ctx]
    obj = {"bare": secret, "optional": secret, "list": [secret, "other"], "dict": {"a": secret}, "tuple": [secret, 1], "union": secret,
           "dataclass": {"pw": secret}, "default": None}[ctx]
    p = ArgumentParser(exit_on_error=False)
    if ctx == "default":
        p.add_argument("--x", type=hint, default=SecretStr(secret))
        p.add_argument("--y", type=int, default=1)
        return p, {}
    p.add_argument("--x", type=hint)
    p.add_argument("--y", type=int, default=1)
    return p, {"x": obj}


def other_secret(secret: str) -> str:
    """a different secret that neither contains nor is contained in `secret`"""
    for cand in ("otherSECRET9", "Qq7Ww8Ee9", "zzzzzzzz", "0000000000000"):
        if secret not in cand and cand not in secret:
            return cand
    return "".join(chr(ord("A") + (i * 7) % 26) for i in range(len(secret) + 3))


def holds_secret(val, secret) -> bool:
    if isinstance(val, (SecretStr, _secret_cls())):
        return val.get_secret_value() == secret
    if isinstance(val, (list, tuple)):
        return any(holds_secret(x, secret) for x in val)
    if isinstance(val, dict):
        return any(holds_secret(x, secret) for x in val.values())
    if isinstance(val, Namespace):
        return any(holds_secret(x, secret) for x in vars(val).values())
    return False


DUMP_MODES = [("yaml", {}), ("json", {}), ("json_indented", {}), ("yaml", {"yaml_comments": True}), ("yaml", {"skip_default": True}),
              ("yaml", {"skip_none": False}), ("yaml", {"skip_validation": True}), ("save", {}), ("print_config", {})]


def secret_dumps(ctx, secret, scratch):
    """-> list of (mode label, dump text) ; [] if the configuration does not hold the secret"""
    p, obj = secret_parser(ctx, secret)
    cfg = p.parse_object(obj)
    if not holds_secret(cfg.x, secret):
        return []
    out = []
    for fmt, kw in DUMP_MODES:
        label = fmt + ("+" + ",".join(sorted(kw)) if kw else "")
        try:
            if fmt == "save":
                f = scratch / f"s{len(os.listdir(scratch))}.yaml"
                p.save(cfg, str(f), overwrite=True)
                text = f.read_text()
            elif fmt == "print_config":
                # --print_config needs the values on the command line: give them through a config file and print
                pp, _ = secret_parser(ctx, secret)
                pp.add_argument("--cfg", action=jsonargparse.ActionConfigFile)
                cf = scratch / f"c{len(os.listdir(scratch))}.json"
                cf.write_text(json.dumps(obj))
                buf = io.StringIO()
                with contextlib.redirect_stdout(buf), contextlib.suppress(SystemExit):
                    pp.parse_args([f"--cfg={cf}", "--print_config"])
                text = buf.getvalue()
                if not text.strip():
                    continue
            else:
                text = p.dump(cfg, format=fmt, **kw)
        except BaseException as ex:  # noqa: BLE001  a dump that fails leaks nothing
            text = "DUMP-RAISED " + type(ex).__name__
        out.append((label, text))
    return out


# ================================================================ findings of this property (fragment of known_findings.json)
def load_own_findings(rep: Report) -> None:
    f = common.VERIF / "tools" / "findings.d" / f"{PID}.json"
    if f.exists():
        have = {k["key"] for k in rep._known}
        for e in json.loads(f.read_text()):
            if e.get("property") == PID and e.get("status") == "known" and e["key"] not in have:
                rep._known.append(e)


# ================================================================ running the replay in forked workers
class Rec:
    """what a replay function reports, collected in a worker process and applied to the Report in the parent"""

    def __init__(self):
        self.calls = []
        self.nontrivial = set()
        self.extra = {}

    def violation(self, key, what, case):
        if sum(1 for c in self.calls if c[0] == "violation" and c[1] == key) < 3:  # a few examples per key are enough
            self.calls.append(("violation", key, what, case))
        else:
            self.calls.append(("violation", key, what, {"note": "further example omitted"}))

    def add_drift(self, what, case=None):
        self.calls.append(("drift", what, case if sum(1 for c in self.calls if c[0] == "drift") < 50 else None))

    def note_nontrivial(self, key):
        self.nontrivial.add(key)

    def sample(self, obj, limit=6):
        self.calls.append(("sample", obj, limit))


def apply_rec(rep, rec):
    for c in rec.calls:
        if c[0] == "violation":
            rep.violation(c[1], c[2], c[3])
        elif c[0] == "drift":
            rep.add_drift(c[1], c[2])
        else:
            rep.sample(c[1], limit=c[2])
    rep.nontrivial |= rec.nontrivial
    for k, v in rec.extra.items():
        rep.extra[k] = rep.extra.get(k, 0) + v


def _worker(job):
    fn, chunk, args = job
    rec = Rec()
    n = fn(rec, chunk, *args)
    return n, rec


def pooled(rep, fn, lines, args=(), chunk=64):
    """run fn(rec, lines_chunk, *args) over chunks of `lines` in forked workers (each has its own type registry)"""
    import multiprocessing as mp

    jobs = [(fn, lines[i:i + chunk], args) for i in range(0, len(lines), chunk)]
    procs = int(os.environ.get("VERIF_PROCS", "16"))
    total = 0
    if procs <= 1 or len(jobs) <= 1:
        results = [_worker(j) for j in jobs]
    else:
        with mp.get_context("fork").Pool(processes=min(procs, len(jobs))) as pool:
            results = pool.map(_worker, jobs, chunksize=1)
    for n, rec in results:  # in the order of the chunks: deterministic
        total += n
        apply_rec(rep, rec)
    return total


# ================================================================ REPLAY of what TLC emitted
def replay_num(rep, lines, cands, lds, tier, named=None):
    """every (type, candidate) pair on the direct channel; the parser channels on every type for a rotating share of the candidates"""
    n = 0
    pycands = [gamma_cand(c) for c in cands]
    for ln in lines:
        li = ln["i"]
        tj = ln["type"]
        try:
            T = named[ln["name"]] if named else build_num_type(tj)
        except BaseException as ex:  # noqa: BLE001
            rep.violation(f"num:create:{type_label(tj)}", f"restricted_number_type refused the well-formed specification {type_label(tj)}: {ex!r}", {"type": tj})
            continue
        base = _BASES[tj["base"]]
        parser = None
        for j, c in enumerate(cands):
            chans = ["direct"]
            share = 1 if (tier == "thorough" and li % 4 == 0) or named else 8
            if (li + j) % share == 0:
                if c["k"] != "none":
                    chans.append("object")
                if c["k"] == "str":
                    chans.append("cli")
            for chan in chans:
                if chan != "direct" and parser is None:
                    parser = make_parser(T)
                ob = run_channel(T, base, parser, chan, pycands[j])
                n += 1
                exp = ln["ref"][j]
                nontrivial = c["k"] != "int" or any(abs(Fraction(c["v"][1], c["v"][2]) - Fraction(r[1], r[2])) <= 1 for r in tj["r"])
                if nontrivial:
                    rep.note_nontrivial(f"num|{type_label(tj)}|{cand_label(c)}|{chan}")
                case = {"type": tj, "python_type": getattr(T, "__name__", str(T)), "candidate": c, "python_value": repr(pycands[j])[:80], "channel": chan,
                        "expected": exp, "observed": ob}
                if not outcome_matches(exp, ob) and chan != "direct" and c["k"] == "str" and lds[j] == "crash" and ob["r"] == "raise" and not ln["pacc"][j]:
                    rep.violation(f"num:loader-crash:{chan}", f"{type_label(tj)} on {cand_label(c)} via {chan}: load_value raises on the text (named deviation loader-crash)", case)
                    continue
                if not outcome_matches(exp, ob):
                    rep.violation(f"num:{chan}:{tj['base']}:{cand_label(c)}:{'accepted' if ob['r'] == 'ok' else 'rejected'}",
                                  f"{type_label(tj)} on {cand_label(c)} via {chan}: the specification expects {exp['k']} {exp['v']}, the code gave {ob['r']} {ob['k']} {ob['v']}", case)
                    continue
                if ob["r"] == "ok" and not ob["idem"]:
                    rep.violation(f"num:{chan}:{tj['base']}:{cand_label(c)}:not-idempotent", f"{type_label(tj)}: casting the accepted value of {cand_label(c)} again changes it", case)
                if ob["r"] == "ok" and not ob["inst"]:
                    rep.violation(f"num:{chan}:{tj['base']}:{cand_label(c)}:not-instance", f"{type_label(tj)}: the accepted value of {cand_label(c)} is not an instance of the type / base type", case)
                aexc = ln["exc"][j] if chan == "direct" else ln["pexc"][j]
                if ob["r"] == "raise" and aexc != ob["exc"] and not (chan != "direct" and aexc in ("ValueError", "TypeError") and ob["exc"] in ("ValueError", "TypeError")):
                    rep.add_drift(f"exception class: Alg predicts {aexc}, the code raised {ob['exc']}", case)
                if li == 1 and j in (3, 11, 24) and chan == "direct":
                    rep.sample({"part": "num", **case, "python": f"restricted_number_type(None, {tj['base']}, {[(op, ref_py(tj['base'], a, b)) for op, a, b in tj['r']]}, join={tj['join']!r})({pycands[j]!r})"})
    return n


def replay_create(rep, lines):
    n = 0
    for ln in lines:
        tj = ln["type"]
        try:
            build_num_type(tj, cache=False) if num_key(tj) not in _NUM_TYPES else None
            created = True
        except ValueError:
            created = False
        except BaseException as ex:  # noqa: BLE001
            created = "raised " + type(ex).__name__
        n += 1
        rep.note_nontrivial(f"create|{json.dumps(tj)}")
        if created is not ln["creates"]:
            rep.violation(f"create:{type_label(tj)}:{created}", f"restricted_number_type({type_label(tj)}): the specification says created={ln['creates']}, the code: {created}", {"type": tj, "expected_created": ln["creates"], "observed": created})
    return n


def replay_str(rep, jobs, regexes, texts, nonstr, tier, tag="re"):
    """jobs: (emitted line of one regex, j0, j1) -- the slice of the texts to run; tag "re" = part str, "rex" = part strx"""
    n = 0
    pytexts = [txt(t) for t in texts]
    for ln, j0, j1 in jobs:
        ri = ln["i"]
        term = regexes[ri - 1]
        pattern = re_pattern(term)
        T = ({1: jtyping.NotEmptyStr, 2: jtyping.Email}.get(ri) if tag == "re" else None) or build_str_type(pattern)
        parser = make_parser(T)
        cre = _re.compile(pattern)
        for j in range(j0, j1):
            s = pytexts[j]
            chans = ["direct"]
            if (ri + j) % ((3 if tag == "re" else 6) if tier == "quick" else 1) == 0:
                chans += ["object", "cli"]
            exp_acc = ln["acc"][j]
            # independent cross-check of gamma(regex) and of the engine's fullmatch (not the verdict)
            if bool(cre.fullmatch(s)) != ln["full"][j]:
                rep.add_drift(f"engine/gamma self-check: fullmatch of {pattern!r} on {s!r} is {bool(cre.fullmatch(s))} in Python, {ln['full'][j]} in the spec", {"regex": term, "text": s})
            for chan in chans:
                ob = run_channel(T, str, parser, chan, s)
                n += 1
                rep.note_nontrivial(f"str|{tag}{ri}|{s}|{chan}")
                exp = {"k": "str", "v": ["none", 0, 1], "t": texts[j]} if exp_acc else {"k": "rejected", "v": ["none", 0, 1], "t": []}
                case = {"regex": term, "pattern": pattern, "python_type": T.__name__, "text": s, "channel": chan, "expected": exp, "observed": ob}
                mism = not outcome_matches(exp, ob)
                crash = chan != "direct" and ln["ld"][j] == "crash"
                if mism and crash and ob["r"] == "raise":
                    rep.violation(f"str:loader-crash:{chan}", f"restricted string type {T.__name__} ({pattern!r}) rejects {s!r} via {chan} although it matches: load_value raises on the text (named deviation loader-crash)", case)
                elif mism:
                    rep.violation(f"str:{chan}:{tag}{ri}:{s!r}:{'accepted' if ob['r'] == 'ok' else 'rejected'}",
                                  f"restricted string type {T.__name__} ({pattern!r}) on {s!r} via {chan}: expected {'accept' if exp_acc else 'reject'}, the code gave {ob['r']}", case)
                else:
                    if crash and ob["r"] == "ok":
                        rep.add_drift(f"Alg predicts a loader crash on {s!r} but the parser accepted it", case)
                    if ob["r"] == "ok" and not (ob["idem"] and ob["inst"]):
                        rep.violation(f"str:{chan}:{tag}{ri}:{s!r}:not-idempotent", f"{T.__name__}: the accepted value of {s!r} is not a fixed point / not an instance", case)
                if ((ri == 2 and j == 7) or (tag == "rex" and ri == 12 and j == 40)) and chan == "direct":
                    rep.sample({"part": "str" if tag == "re" else "strx", **case})
        for j, c in enumerate(nonstr if j0 == 0 else []):
            for chan in ("direct", "object") if c["k"] != "none" else ("direct",):
                ob = run_channel(T, str, parser, chan, gamma_cand(c))
                n += 1
                if ob["r"] != "raise" or ln["accx"][j]:
                    rep.violation(f"str:{chan}:{tag}{ri}:{cand_label(c)}:accepted", f"{T.__name__} accepted the non-string {cand_label(c)} via {chan}", {"regex": term, "candidate": c, "observed": ob})
    return n


CHANNELS = ["yaml", "json", "cli"]


def classify_reg(rep, ty, f, label, chan, obs, alg, dev, case):
    """Ref demands "eq" on every channel"""
    if obs == "eq":
        if alg not in ("eq", "eq|via-float"):
            rep.add_drift(f"registered {ty} {label} via {chan}: Alg predicts {alg} ({dev}) but the round trip holds", case)
        return
    ty = "Decimal" if ty == "DecimalX" else ty
    if (obs == alg or (alg == "eq|via-float" and obs == "via-float")) and dev != "none":
        rep.violation(f"registered:{dev}:{ty}", f"{ty} value {label} does not survive the {chan} round trip ({obs}); named deviation {dev}", case)
    else:
        rep.violation(f"registered:roundtrip:{ty}:{chan}:{obs.split(':')[0]}:{label[:40]}", f"{ty} value {label} via {chan}: expected an equal value back, got {obs} (Alg predicted {alg})", case)


def replay_reg(rep, lines, tier):
    n = skipped = 0
    for ln in lines:
        ty, f = ln["ty"], ln["f"]
        vals = []
        if ty == "DecimalX":
            for s in DECX[(f[0], f[1])]:
                v = decimal.Decimal(s)
                _, _, _, exact, dcls = dec_facts(v)
                if ("exact" if exact else "inexact", dcls) != (f[0], f[1]):
                    machinery_failure(PID, f"exemplar {s} has facts {(exact, dcls)}, filed under {f}")
                vals.append((v, s))
        else:
            try:
                v = gamma_reg(ty, f)
            except BaseException as ex:  # noqa: BLE001
                machinery_failure(PID, f"gamma cannot build {ty} {f}: {ex!r}")
            label = "".join(f) if ty in ("Path", "UUID", "complex") else repr(v)
            if ty in ("Path", "UUID", "complex") and str(v) != "".join(f):
                skipped += 1  # the text is not the canonical str() of a value of the type
                continue
            if ty == "Decimal" and tuple(dec_facts(v)[:3]) != tuple(f) and int(f[1]) != 0:
                machinery_failure(PID, f"alpha(gamma({f})) = {dec_facts(v)[:3]}")
            vals.append((v, label))
        for v, label in vals:
            for ci, chan in enumerate(CHANNELS):
                if chan == "cli" and label == "--":
                    continue  # CPython's argparse drops an option value "--" (not jsonargparse's doing)
                obs, rrec, text = roundtrip(ty, v, chan)
                n += 1
                rep.note_nontrivial(f"reg|{ty}|{label}|{chan}")
                case = {"type": ty, "abstract_value": f, "python_value": repr(v)[:120], "channel": chan, "representation": rrec, "written": text[:200],
                        "expected": "eq", "alg_predicts": ln["alg"][ci], "named_deviation": ln["dev"][ci], "observed": obs,
                        "python": f"p=ArgumentParser(exit_on_error=False); p.add_argument('--x', type={REG_HINT[ty].__name__}); p.parse_string(p.dump(Namespace(x={v!r}), format='yaml'))"}
                classify_reg(rep, ty, f, label, chan, obs, ln["alg"][ci], ln["dev"][ci], case)
                if ci == 0 and ln["rep"]["k"] == "str" and rrec["k"] == "str" and rrec["t"] != list(ln["rep"]["t"]):
                    rep.add_drift(f"representation of {ty} {label}: spec {''.join(ln['rep']['t'])!r}, code {''.join(rrec['t'])!r}", case)
                if obs != "eq" or (ty == "timedelta" and n % 97 == 0):
                    rep.sample({"part": "reg", **case}, limit=12)
            if ty == "Path":
                d, l2 = real_tags("".join(f))
                if [d, l2] != list(ln["tags"]):
                    rep.add_drift(f"resolver model: {''.join(f)!r} spec tags {ln['tags']}, PyYAML/jsonargparse {[d, l2]}", {"text": "".join(f)})
    rep.extra["reg_texts_skipped_not_canonical"] = rep.extra.get("reg_texts_skipped_not_canonical", 0) + skipped
    return n


def replay_regm(rep, lines, tier):
    """part regm: registered values through parsers of mode json / jsonnet / toml (file in the mode's dump formats, command line)"""
    n = 0
    for ln in lines:
        ty, f, mode = ln["ty"], ln["f"], ln["mode"]
        vals = []
        if mode == "jsonnet" and ln["dev"][0] != "loader-crash" and ln["i"] % (12 if tier == "quick" else 9) != 2:
            continue  # every successful jsonnet evaluation costs ~30 ms: the predicted crashes and a quarter (quick) / a third (thorough) of the rest are replayed in this mode
        if ty == "DecimalX":
            vals = [(decimal.Decimal(s), s) for s in DECX[(f[0], f[1])]]
        else:
            try:
                v = gamma_reg(ty, f)
            except BaseException as ex:  # noqa: BLE001
                machinery_failure(PID, f"gamma cannot build {ty} {f}: {ex!r}")
            if ty in ("Path", "UUID", "complex") and str(v) != "".join(f):
                continue
            vals = [(v, "".join(f) if ty in ("Path", "UUID", "complex") else repr(v))]
        for v, label in vals:
            for ci, chan in enumerate(("file", "cli")):
                if chan == "cli" and label == "--":
                    continue
                for fmt in ((MODE_FORMATS[mode] if tier == "thorough" else MODE_FORMATS[mode][-2:][:1 + (mode == "json")]) if chan == "file" else ["-"]):
                    obs, rrec, text = roundtrip_mode(ty, v, mode, chan, fmt)
                    n += 1
                    rep.note_nontrivial(f"regm|{mode}|{fmt}|{ty}|{label}|{chan}")
                    cname = f"{mode}:{chan}" + (f":{fmt}" if chan == "file" else "")
                    case = {"type": ty, "abstract_value": f, "python_value": repr(v)[:120], "parser_mode": mode, "channel": chan, "dump_format": fmt,
                            "representation": rrec, "written": text[:200], "expected": "eq", "alg_predicts": ln["alg"][ci], "named_deviation": ln["dev"][ci], "observed": obs,
                            "python": f"p=ArgumentParser(exit_on_error=False, parser_mode={mode!r}); p.add_argument('--x', type={REG_HINT[ty].__name__}); p.parse_string(p.dump(Namespace(x={v!r})))"}
                    classify_reg(rep, ty, f, label, cname, obs, ln["alg"][ci], ln["dev"][ci], case)
                    if ci == 0 and ln["rep"]["k"] == "str" and rrec["k"] == "str" and rrec["t"] != list(ln["rep"]["t"]):
                        rep.add_drift(f"representation of {ty} {label} (mode {mode}): spec {''.join(ln['rep']['t'])!r}, code {''.join(rrec['t'])!r}", case)
                    if (obs != "eq" and mode == "jsonnet") or (ty == "Path" and label == "1:" and chan == "file"):
                        rep.sample({"part": "regm", **case}, limit=10)
    return n


# ---------------------------------------------------------------- round 4: registered values inside containers / dataclass fields / defaults
_CTX_PARSERS: dict = {}
_CTX_DC: dict = {}


def ctx_hint(ty, ctx):
    T = REG_HINT[ty]
    if ctx == "dataclass":
        if ty not in _CTX_DC:
            _CTX_DC[ty] = dataclasses.make_dataclass(f"C20DC{ty}", [("p", T), ("n", int, dataclasses.field(default=1))])
        return _CTX_DC[ty]
    return {"list": List[T], "dict": Dict[str, T], "optional": Optional[T], "union": Union[T, int], "default": T, "bare": T}[ctx]


def ctx_wrap(ctx, v):
    return {"list": lambda: [v, v], "dict": lambda: {"k": v}, "dataclass": lambda: Namespace(p=v, n=1)}.get(ctx, lambda: v)()


def ctx_leaf(ctx, back):
    """the leaf of what came back, or a marker when the container itself is not what was written"""
    if ctx == "list":
        return back[0] if isinstance(back, list) and len(back) == 2 and type(back[0]) is type(back[1]) and (back[0] == back[1] or back[0] != back[0]) else _BAD
    if ctx == "dict":
        return back["k"] if isinstance(back, dict) and list(back) == ["k"] else _BAD
    if ctx == "dataclass":
        return back.p if isinstance(back, Namespace) and sorted(vars(back)) == ["n", "p"] and back.n == 1 else _BAD
    return back


_BAD = object()
REG_HINT["PathLike"] = os.PathLike


def roundtrip_ctx(ty, v, ctx, chan):
    """one dump -> parse round trip of a configuration holding v in the given context -> (outcome class, representation record, text)"""
    if ctx == "default":
        parser = ArgumentParser(exit_on_error=False)
        parser.add_argument("--x", type=ctx_hint(ty, ctx), default=v)
        parser.add_argument("--y", type=int, default=1)
        cfg = parser.parse_args([])
        if not (type(cfg.x) is type(v) and (cfg.x == v)):
            return "default-changed", {"k": "none", "t": []}, ""
    else:
        if (ty, ctx) not in _CTX_PARSERS:
            _CTX_PARSERS[(ty, ctx)] = make_parser(ctx_hint(ty, ctx))
        parser = _CTX_PARSERS[(ty, ctx)]
        cfg = Namespace(x=ctx_wrap(ctx, v))
    try:
        whole = json.loads(parser.dump(cfg, format="json"), parse_constant=lambda c: float(c.replace("Infinity", "inf").replace("NaN", "nan")))["x"]
    except BaseException as ex:  # noqa: BLE001
        if ty == "PathLike":  # the value IS the representation: dump validates the configuration, i.e. parses the str again
            return "reject", {"k": "str", "t": list(v)}, "dump raised " + type(ex).__name__
        return "dump-raise:" + type(ex).__name__, {"k": "none", "t": []}, ""
    leafrep = whole[0] if ctx == "list" else whole["k"] if ctx == "dict" else whole["p"] if ctx == "dataclass" else whole
    rrec = {"k": "str", "t": list(leafrep)} if isinstance(leafrep, str) else {"k": "float", "t": []}
    text = ""
    try:
        if chan == "cli":
            if ctx in ("list", "dict"):
                text = "--x=" + json.dumps(whole)
            elif ctx == "dataclass":
                text = "--x.p=" + (leafrep if isinstance(leafrep, str) else repr(leafrep))
            else:
                text = "--x=" + (leafrep if isinstance(leafrep, str) else repr(leafrep))
            back = parser.parse_args([text]).x
        else:
            text = parser.dump(cfg, format=chan)
            back = parser.parse_string(text).x
    except BaseException:  # noqa: BLE001
        return "reject", rrec, text
    leaf = ctx_leaf(ctx, back)
    if leaf is _BAD:
        return "other", rrec, text
    if type(leaf) is type(v) and leaf == v:
        return "eq", rrec, text
    if isinstance(v, decimal.Decimal) and type(leaf) is decimal.Decimal:
        with contextlib.suppress(BaseException):
            via = decimal.Decimal(repr(float(v))) if (chan == "cli" and ctx not in ("list", "dict")) else decimal.Decimal(float(v))
            if leaf == via:
                return "via-float", rrec, text
    return "other", rrec, text


def replay_regc(rep, lines, tier):
    n = 0
    for ln in lines:
        ty, f, ctx = ln["ty"], ln["f"], ln["ctx"]
        if ty == "DecimalX":
            vals = [(decimal.Decimal(s), s) for s in DECX[(f[0], f[1])][:2]]
        elif ty == "PathLike":
            vals = [("".join(f), "".join(f))]  # the parsed value of an os.PathLike argument is the str (typing.py:385)
            if loaded_kind("".join(f)) != ln["ld"]:
                if ln["ld"] == "crash":
                    rep.add_drift(f"LoaderCrash predicts that load_value raises on {''.join(f)!r}; the real loader returns ({loaded_kind(''.join(f))})", {"text": "".join(f)})
                else:
                    machinery_failure(PID, f"loader assumption PathLikeTable is wrong for {''.join(f)!r}: spec {ln['ld']}, load_value {loaded_kind(''.join(f))}")
        else:
            try:
                v = gamma_reg(ty, f)
            except BaseException as ex:  # noqa: BLE001
                machinery_failure(PID, f"gamma cannot build {ty} {f}: {ex!r}")
            if ty in ("Path", "UUID", "complex") and str(v) != "".join(f):
                continue
            vals = [(v, "".join(f) if ty in ("Path", "UUID", "complex") else repr(v))]
        for v, label in vals:
            for ci, chan in enumerate(CHANNELS):
                if chan == "cli" and (label == "--" or (label.startswith("-") and ctx not in ("list", "dict"))):
                    continue  # argparse's own reading of option-like values (not jsonargparse's doing); items travel inside JSON
                obs, rrec, text = roundtrip_ctx(ty, v, ctx, chan)
                n += 1
                rep.note_nontrivial(f"regc|{ctx}|{ty}|{label}|{chan}")
                case = {"type": ty, "context": ctx, "hint": str(ctx_hint(ty, ctx)), "abstract_value": f, "python_value": repr(v)[:120], "channel": chan, "representation": rrec,
                        "written": text[:200], "expected": "eq", "alg_predicts": ln["alg"][ci], "named_deviation": ln["dev"][ci], "observed": obs}
                if ln["ref"][ci] == "eq|other" and obs in ("eq", "other"):  # Optional[T] and a representation that load_value reads as None: not pinned by the property
                    rep.extra["optional_null_text_cases"] = rep.extra.get("optional_null_text_cases", 0) + 1
                    if obs != ln["alg"][ci]:
                        rep.add_drift(f"{ty} {label} in Optional via {chan}: Alg predicts {ln['alg'][ci]} (null-text), observed {obs}", case)
                    continue
                classify_reg(rep, ty, f, label, f"{ctx}:{chan}", obs, ln["alg"][ci], ln["dev"][ci], case)
                if ci == 0 and ln["rep"]["k"] == "str" and rrec["k"] == "str" and rrec["t"] != list(ln["rep"]["t"]):
                    rep.add_drift(f"representation of {ty} {label} in context {ctx}: spec {''.join(ln['rep']['t'])!r}, code {''.join(rrec['t'])!r}", case)
                if label == "1:" and chan == "yaml":
                    rep.sample({"part": "regc", **case}, limit=10)
    return n


def replay_pmode(rep, lines, cands, pmtexts, regexes, tier):
    """part pmode: the predefined number types and the 14 restricted string types through parsers of mode json / jsonnet / toml"""
    n = 0
    pycands = [gamma_cand(c) for c in cands]
    pytexts = [txt(t) for t in pmtexts]
    for ln in lines:
        mode = ln["mode"]
        if tier == "quick" and mode == "jsonnet" and (ln["kind"], ln["n"]) not in (("named", 6), ("str", 1)):
            continue  # (jsonnet evaluations are slow) quick: OpenUnitInterval and NotEmptyStr; thorough: all
        if tier == "quick" and mode != "jsonnet" and ((ln["kind"] == "named" and ln["n"] not in (1, 5, 6)) or (ln["kind"] == "str" and ln["n"] not in (1, 2, 3, 9, 12, 14))):
            continue  # quick: half of the types in the json / toml modes
        if ln["kind"] == "named":
            name = ("PositiveInt", "NonNegativeInt", "PositiveFloat", "NonNegativeFloat", "ClosedUnitInterval", "OpenUnitInterval")[ln["n"] - 1]
            T = getattr(jtyping, name)
            base = float if "Float" in name or "Interval" in name else int
            parser = mode_parser(T, mode)
            for j, c in enumerate(cands):
                if tier == "quick" and mode == "jsonnet" and ln["ld"][j] == "text" and j % 5:
                    continue
                if c["k"] == "str" and loaded_kind_mode(pycands[j], mode) != ln["ld"][j]:
                    if "crash" in (ln["ld"][j], loaded_kind_mode(pycands[j], mode)):  # the crash model against the real loader: Alg-level (the parse outcomes below carry the verdict)
                        rep.add_drift(f"ModeLoaderCrash says {ln['ld'][j]} for {pycands[j]!r} in mode {mode}; the real loader: {loaded_kind_mode(pycands[j], mode)}", {"text": pycands[j], "mode": mode})
                    else:
                        machinery_failure(PID, f"loader assumption LdOfM is wrong for {pycands[j]!r} in mode {mode}: spec {ln['ld'][j]}, load_value {loaded_kind_mode(pycands[j], mode)}")
                for chan in (["object"] if c["k"] != "none" else []) + (["cli"] if c["k"] == "str" else []):
                    ob = run_channel(T, base, parser, chan, pycands[j])
                    n += 1
                    exp = ln["ref"][j]
                    rep.note_nontrivial(f"pmode|{mode}|{name}|{cand_label(c)}|{chan}")
                    case = {"python_type": name, "parser_mode": mode, "candidate": c, "python_value": repr(pycands[j])[:80], "channel": chan, "expected": exp, "observed": ob}
                    if not outcome_matches(exp, ob):
                        if ln["ld"][j] == "crash" and ob["r"] == "raise" and not ln["pacc"][j]:
                            rep.violation(f"num:loader-crash:{mode}:{chan}", f"{name} on {cand_label(c)} via {chan} (mode {mode}): load_value raises on the text (named deviation loader-crash)", case)
                        else:
                            rep.violation(f"num:{mode}:{chan}:{name}:{cand_label(c)}:{'accepted' if ob['r'] == 'ok' else 'rejected'}",
                                          f"{name} on {cand_label(c)} via {chan} of a {mode}-mode parser: the specification expects {exp['k']} {exp['v']}, the code gave {ob['r']} {ob['k']} {ob['v']}", case)
                    elif ob["r"] == "ok" and not (ob["idem"] and ob["inst"]):
                        rep.violation(f"num:{mode}:{chan}:{name}:{cand_label(c)}:not-idempotent", f"{name}: the accepted value of {cand_label(c)} is not a fixed point / not an instance", case)
        else:
            ri = ln["n"]
            pattern = re_pattern(regexes[ri - 1])
            T = {1: jtyping.NotEmptyStr, 2: jtyping.Email}.get(ri) or build_str_type(pattern)
            parser = mode_parser(T, mode)
            for j, s in enumerate(pytexts):
                if tier == "quick" and mode == "jsonnet" and ln["ld"][j] == "text" and j % 5:
                    continue
                real_ld = loaded_kind_mode(s, mode)
                if real_ld != ln["ld"][j] and "crash" in (real_ld, ln["ld"][j]):
                    rep.add_drift(f"ModeLoaderCrash says {ln['ld'][j]} for {s!r} in mode {mode}; the real loader: {real_ld}", {"text": s, "mode": mode})
                for chan in ("object", "cli"):
                    ob = run_channel(T, str, parser, chan, s)
                    n += 1
                    rep.note_nontrivial(f"pmode|{mode}|re{ri}|{s}|{chan}")
                    exp = {"k": "str", "v": ["none", 0, 1], "t": pmtexts[j]} if ln["acc"][j] else {"k": "rejected", "v": ["none", 0, 1], "t": []}
                    case = {"pattern": pattern, "python_type": T.__name__, "parser_mode": mode, "text": s, "channel": chan, "expected": exp, "observed": ob}
                    mism = not outcome_matches(exp, ob)
                    if mism and ln["ld"][j] == "crash" and ob["r"] == "raise":
                        rep.violation(f"str:loader-crash:{mode}:{chan}", f"restricted string type {T.__name__} ({pattern!r}) rejects {s!r} via {chan} of a {mode}-mode parser although it matches: load_value raises on the text (named deviation loader-crash)", case)
                    elif mism:
                        rep.violation(f"str:{mode}:{chan}:re{ri}:{s!r}:{'accepted' if ob['r'] == 'ok' else 'rejected'}",
                                      f"restricted string type {T.__name__} ({pattern!r}) on {s!r} via {chan} of a {mode}-mode parser: expected {'accept' if ln['acc'][j] else 'reject'}, the code gave {ob['r']}", case)
                    elif ln["ld"][j] == "crash" and ob["r"] == "ok":
                        rep.add_drift(f"Alg predicts a loader crash on {s!r} in mode {mode} but the parser accepted it", case)
                    if ri == 1 and s == "1:" and chan == "cli":
                        rep.sample({"part": "pmode", **case}, limit=9)
    return n


def replay_secret(rep, lines, scratch):
    n = 0
    for ln in lines:
        ctx, secret = ln["ctx"], "".join(ln["secret"])
        _FLAVOUR[0] = ln.get("flavour", "jsonargparse")
        fl = "" if _FLAVOUR[0] == "jsonargparse" else "pydantic:"
        other = other_secret(secret)
        try:
            dumps = secret_dumps(ctx, secret, scratch)
            dumps2 = dict(secret_dumps(ctx, other, scratch))
        except BaseException as ex:  # noqa: BLE001  the configuration holding the secret cannot be parsed (never on the pinned tree)
            rep.violation(f"secret:parse:{fl}{ctx}:{type(ex).__name__}", f"a configuration holding the {_FLAVOUR[0]} SecretStr {secret!r} in context {ctx} is not parsed: {ex!r}"[:300], {"context": ctx, "secret": secret})
            n += 1
            continue
        mask = "".join(ln["leaf"])
        for label, text in dumps:
            n += 1
            rep.note_nontrivial(f"secret|{fl}{ctx}|{secret}|{label}")
            case = {"context": ctx, "secret_type": _FLAVOUR[0], "secret": secret, "dump_mode": label, "dump": text[:400]}
            if secret in text and secret not in dumps2.get(label, mask):
                rep.violation(f"secret:leak:{fl}{ctx}:{label}", f"the secret {secret!r} occurs in the {label} dump of a {ctx} SecretStr", case)
            if label in dumps2 and dumps2[label] != text:
                rep.violation(f"secret:interference:{fl}{ctx}:{label}", f"the {label} dump of a {ctx} SecretStr depends on the secret", {**case, "dump_other_secret": dumps2[label][:400]})
            if mask not in text and not text.startswith("DUMP-RAISED") and "skip_default" not in label:
                rep.add_drift(f"the mask does not occur in the {label} dump of a {ctx} SecretStr", case)
        if ctx == "list" and secret == "hunter2":
            rep.sample({"part": "secret", "context": ctx, "secret_type": _FLAVOUR[0], "secret": secret, "dumps": dumps[:3]})
    _FLAVOUR[0] = "jsonargparse"
    return n


# ================================================================ TRACE: seeded random executions beyond the bounds
OPS = [">", ">=", "<", "<=", "==", "!="]


def spell_number(rnd, q: Fraction):
    """a text spelling of q that Python's float() reads exactly (q = k/4, |k| small)"""
    sign = "-" if q < 0 else rnd.choice(["", "", "+"])
    a = abs(q)
    form = rnd.randrange(7)
    if a.denominator == 1:
        n = a.numerator
        body = [str(n), str(n), f"{n}.0", f"{n}.", f"{n}e0", f"{n:03d}", f"{n}E+0"][form]
        if n >= 10 and rnd.random() < 0.5:
            body = str(n)[0] + "_" + str(n)[1:]
    else:
        cents = a * 100  # k/4 -> integral number of hundredths
        ip, fp = divmod(int(cents), 100)
        dec = f"{ip}.{fp:02d}".rstrip("0")
        body = [dec, dec, f"{int(cents)}e-2", f"{int(cents)}E-2", dec[1:] if ip == 0 else dec, f"{int(cents * 10)}e-3", dec + "0"][form]
    pad = rnd.choice(["", "", "", " ", "\n"])
    return rnd.choice(["", "", " "]) + sign + body + pad


def junk_text(rnd):
    s = "".join(rnd.choice("01_.+- xeE5") for _ in range(rnd.randint(0, 5)))
    if _re.search(r"[eE][-+]?_?\d_?\d", s):
        return "x" + s  # exponents of two and more digits are beyond TLC's 32-bit integers
    with contextlib.suppress(Exception):  # keep the numbers within what the harness can encode exactly (a filter, not an oracle)
        v = float(s)
        if v == v and (abs(v) > 10**5 or v.as_integer_ratio()[1] > 4096):
            return "x" + s
    return s


def enc_q(q: Fraction):
    return ["fin", q.numerator, q.denominator]


def random_num_obs(rnd, count):
    obs, meta = [], []
    specials = [("float", ["pinf", 0, 1]), ("float", ["ninf", 0, 1]), ("float", ["nan", 0, 1])]
    while len(obs) < count:
        base = rnd.choice(["int", "float"])
        k = rnd.choice([1, 1, 2, 2, 3])
        refs = [Fraction(rnd.randint(-3, 3)) if base == "int" or rnd.random() < 0.5 else Fraction(rnd.randint(-12, 12), 4) for _ in range(k)]
        tj = {"base": base, "join": rnd.choice(["and", "or"]), "r": [[rnd.choice(OPS), r.numerator, r.denominator] for r in refs]}
        try:
            T = build_num_type(tj, float_refs=rnd.random() < 0.4)
        except ValueError:
            continue  # name clash of an automatic name (typing.py:146-150), not part of the property
        parser = make_parser(T)
        for _ in range(rnd.randint(4, 10)):
            q = rnd.choice(refs) + rnd.choice([0, 0, Fraction(1, 4), Fraction(-1, 4), Fraction(1, 2), Fraction(-1, 2), 1, -1, 2, -3])
            kind = rnd.choices(["int", "float", "str", "junk", "special", "bool", "other", "strspecial"], [3, 4, 6, 3, 1, 1, 1, 1])[0]
            if kind == "int":
                c = {"k": "int", "v": enc_q(Fraction(math.floor(q))), "t": []}
            elif kind == "float":
                c = {"k": "float", "v": enc_q(q), "t": []}
            elif kind == "str":
                c = {"k": "str", "v": ["none", 0, 1], "t": chars_of(spell_number(rnd, q))}
            elif kind == "junk":
                c = {"k": "str", "v": ["none", 0, 1], "t": chars_of(junk_text(rnd))}
            elif kind == "special":
                kk, vv = rnd.choice(specials)
                c = {"k": kk, "v": vv, "t": []}
            elif kind == "strspecial":
                w = rnd.choice(["inf", "-inf", "+Inf", "INFINITY", "nan", "NaN", "-nan", " infinity ", "infinit", "na n"])
                c = {"k": "str", "v": ["none", 0, 1], "t": chars_of(w)}
            elif kind == "bool":
                c = {"k": "bool", "v": ["fin", rnd.randint(0, 1), 1], "t": []}
            else:
                c = rnd.choice([{"k": "none", "v": ["none", 0, 1], "t": []}, {"k": "list", "v": ["none", 0, 1], "t": []}, {"k": "dict", "v": ["none", 0, 1], "t": []},
                                {"k": "int", "v": ["huge", 0, 1], "t": []}, {"k": "bytes", "v": ["none", 0, 1], "t": chars_of(spell_number(rnd, q).strip("\n"))}])
            chans = ["direct"] + (["object"] if c["k"] != "none" else []) + (["cli"] if c["k"] == "str" else [])
            chan = rnd.choice(chans)
            pv = gamma_cand(c)
            ld = "text"
            if chan != "direct" and isinstance(pv, str):  # every str that reaches _check_type is given to load_value
                ld = loaded_kind(pv)
                if ld is None:
                    continue
            ob = run_channel(T, _BASES[base], parser, chan, pv)
            if ob["v"][0] == "big":
                continue  # not encodable for TLC (cannot happen for the generated candidates unless the code misbehaves; the direct replay covers that)
            obs.append({"T": tj, "x": c, "chan": chan, "ld": ld, "obs": ob})
            meta.append({"python_type": T.__name__, "python_value": repr(pv)[:80]})
    return obs, meta


def loaded_kind(text):
    """what load_value makes of a command-line text: the assumption `ld` of the spec, taken from the real loader"""
    from jsonargparse._loaders_dumpers import load_value
    from jsonargparse._common import parser_context

    from jsonargparse._loaders_dumpers import get_loader_exceptions

    try:
        with parser_context(load_value_mode="yaml"):
            try:
                v = load_value(text) if text.strip() != "" else text
            except get_loader_exceptions():  # the text is kept (_typehints.py:562-565)
                return "text"
    except (TypeError, ValueError):  # load_value itself fails: the named deviation "loader-crash"
        return "crash"
    if v is None:
        return "none"
    if isinstance(v, list):
        return "list"
    if isinstance(v, dict):
        return "dict"
    if isinstance(v, (str, int, float, bool)):
        return "text"
    return None


ALPHA1 = ["a", "b", "@", ".", " ", NLCH, "A"]


def random_regex(rnd, depth=0):
    r = rnd.random()
    if depth >= 3 or r < 0.35:
        k = rnd.randint(1, 3)
        return {"k": "chr", "s": sorted(rnd.sample(ALPHA1, k)), "neg": rnd.random() < 0.3}
    if r < 0.6:
        return {"k": "cat", "a": [random_regex(rnd, depth + 1) for _ in range(rnd.randint(2, 3))]}
    if r < 0.72:
        return {"k": "alt", "a": [random_regex(rnd, depth + 1) for _ in range(2)]}
    if r < 0.84:
        return {"k": rnd.choice(["star", "plus", "opt"]), "r": random_regex(rnd, depth + 1)}
    if r < 0.90:  # round 4: counted repetition / IGNORECASE group / MULTILINE anchors
        lo = rnd.randint(0, 2)
        return {"k": "rep", "r": random_regex(rnd, depth + 1), "lo": lo, "hi": rnd.choice([-1, lo, lo + 1, lo + 2])}
    if r < 0.94:
        return {"k": "ci", "r": random_regex(rnd, depth + 1)}
    return {"k": rnd.choice(["bol", "eol", "eos", "mbol", "meol"])}


def sample_from(rnd, t, budget=6):
    """a text that probably matches (random walk through the term)"""
    k = t["k"]
    if k == "chr":
        pool = [c for c in ALPHA1 if (c in t["s"]) != t["neg"]]
        return [rnd.choice(pool)] if pool else []
    if k == "cat":
        return [c for x in t["a"] for c in sample_from(rnd, x, budget)]
    if k == "alt":
        return sample_from(rnd, rnd.choice(t["a"]), budget)
    if k == "opt":
        return sample_from(rnd, t["r"], budget) if rnd.random() < 0.5 else []
    if k in ("star", "plus"):
        return [c for _ in range(rnd.randint(0 if k == "star" else 1, 3)) for c in sample_from(rnd, t["r"], budget)]
    if k == "rep":
        return [c for _ in range(rnd.randint(t["lo"], t["lo"] + 1 if t["hi"] < 0 else t["hi"])) for c in sample_from(rnd, t["r"], budget)]
    if k == "ci":
        return [(c.swapcase() if rnd.random() < 0.5 else c) for c in sample_from(rnd, t["r"], budget)]
    return []


def random_str_obs(rnd, count):
    obs, meta = [], []
    while len(obs) < count:
        top = random_regex(rnd)
        if rnd.random() < 0.4:
            top = {"k": "cat", "a": [{"k": "bol"}, top, {"k": "eol"}]}
        try:
            pattern = re_pattern(top)
            T = build_str_type(pattern)
        except BaseException:  # noqa: BLE001
            continue
        parser = make_parser(T)
        for _ in range(rnd.randint(3, 8)):
            s = sample_from(rnd, top)[:8]
            m = rnd.random()
            if m < 0.3 and s:
                s[rnd.randrange(len(s))] = rnd.choice(ALPHA1)
            elif m < 0.45:
                s = s + [rnd.choice(ALPHA1)]
            elif m < 0.55 and s:
                s = s[:-1]
            elif m < 0.62:
                s = [rnd.choice(ALPHA1) for _ in range(rnd.randint(0, 6))]
            s = s[:8]
            pv = txt(s)
            chan = rnd.choice(["direct", "direct", "object", "cli"])
            ld = "text"
            if chan != "direct" and isinstance(pv, str):  # every str that reaches _check_type is given to load_value
                ld = loaded_kind(pv)
                if ld is None:
                    continue
            ob = run_channel(T, str, parser, chan, pv)
            obs.append({"re": top, "x": {"k": "str", "v": ["none", 0, 1], "t": s}, "chan": chan, "ld": ld, "obs": ob})
            meta.append({"pattern": pattern, "python_value": pv})
    return obs, meta


HAZ = list("._1e-+:0E") + ["a", "/", " ", "~", "n", "u", "l", "x", "2", "5"]
B64HAZ = ["1e30", "1e+3", "12e3", "1E30", "null", "true", "1234", "0123", "+123", "1e3+", "Null", "NULL", "e123", "1e11", "5e55", "0e00", "+1e1"]


def random_reg_obs(rnd, count):
    obs, meta = [], []
    while len(obs) < count:
        ty = rnd.choice(["range", "timedelta", "bytes", "bytearray", "Decimal", "DecimalX", "Path", "PosixPath", "UUID", "complex"])
        dcls = "le15"
        extra = {}
        if ty == "range":
            f = [rnd.randint(-10**6, 10**6) if rnd.random() < 0.3 else rnd.randint(-9, 9) for _ in range(2)] + [rnd.choice([1, 1, -1, 2, -3, 7, 1000, -10**5])]
            if rnd.random() < 0.2:
                f[0] = 0
        elif ty == "timedelta":
            f = [rnd.choice([0, 0, 1, -1, rnd.randint(-10**6, 10**6), 999999999, -999999999]), rnd.choice([0, 1, 59, 3600, 86399, rnd.randint(0, 86399)]),
                 rnd.choice([0, 0, 1, 999999, 500000, rnd.randint(0, 999999), rnd.randint(0, 9) * 100000])]
        elif ty in ("bytes", "bytearray"):
            if rnd.random() < 0.35:
                t = "".join(rnd.choice(B64HAZ) for _ in range(rnd.randint(1, 2)))
                f = list(base64.b64decode(t))
            else:
                f = [rnd.randint(0, 255) for _ in range(rnd.randint(0, 9))]
        elif ty == "Decimal":
            coef = rnd.choice([0, 1, 5, 25, 125, 375, 1, 3, 7, rnd.randint(0, 999999)])
            f = [rnd.randint(0, 1), coef, rnd.randint(-6, 3)]
            _, _, _, exact, dcls = dec_facts(gamma_reg("Decimal", f))
            extra["exact"] = exact
        elif ty == "DecimalX":
            digits = "".join(rnd.choice("0123456789") for _ in range(rnd.randint(16, 30)))
            s = rnd.choice(["", "-"]) + rnd.choice(["0.", "1.", "12345.", ""]) + digits + rnd.choice(["", "", "E+5", "E-30", "E+350", "E-350"])
            if rnd.random() < 0.25:
                s = str(_CTX.multiply(_CTX.power(decimal.Decimal(2), -rnd.randint(20, 70)), rnd.randint(1, 99)))
            v = decimal.Decimal(s)
            _, _, _, exact, dclsx = dec_facts(v)
            f = ["exact" if exact else "inexact", dclsx]
        elif ty in ("Path", "PosixPath"):
            t = "".join(rnd.choice(HAZ) for _ in range(rnd.randint(1, 7)))
            if str(pathlib.Path(t)) != t:
                continue
            f = list(t)
        elif ty == "UUID":
            f = list(str(uuid.UUID(int=rnd.getrandbits(128) if rnd.random() < 0.7 else int("1e" * 16, 16) >> rnd.randint(0, 64))))
        else:
            mk = lambda: rnd.choice([0.0, -0.0, 1.0, -1.5, 0.25, 1e16, 1e-7, INF, -INF, float(rnd.randint(-99, 99)) / 4])  # noqa: E731
            f = list(str(complex(mk(), mk())))
        hint = ty
        if ty == "DecimalX":
            val = v
        else:
            val = gamma_reg(ty, f)
        aty = "Path" if ty == "PosixPath" else ty
        for chan in CHANNELS:
            if chan == "cli" and aty == "Path" and "".join(f) == "--":
                continue
            o, rrec, text = roundtrip(hint, val, chan)
            obs.append({"ty": aty, "f": f, "dcls": dcls, "chan": chan, "rep": rrec, "obs": o.split(":")[0], **({"exact": extra["exact"]} if "exact" in extra else {"exact": True})})
            meta.append({"python_value": repr(val)[:120], "hint": REG_HINT[hint].__name__, "written": text[:200], "obs_full": o})
    return obs, meta


def random_regx_obs(rnd, count):
    """round 4: registered values through parsers of other modes, and inside containers / dataclass fields / defaults"""
    obs, meta = [], []
    while len(obs) < count:
        ty = rnd.choice(["range", "timedelta", "bytes", "bytearray", "Decimal", "Path", "Path", "UUID", "complex"])
        dcls = "le15"
        if ty == "range":
            f = [rnd.randint(-9, 9), rnd.randint(-9, 9), rnd.choice([1, 1, -1, 2, -3, 7])]
        elif ty == "timedelta":
            f = [rnd.choice([0, 0, 1, -1, rnd.randint(-1000, 1000)]), rnd.choice([0, 1, 59, 3600, 86399, rnd.randint(0, 86399)]), rnd.choice([0, 0, 1, 999999, rnd.randint(0, 999999)])]
        elif ty in ("bytes", "bytearray"):
            f = list(base64.b64decode(rnd.choice(B64HAZ))) if rnd.random() < 0.4 else [rnd.randint(0, 255) for _ in range(rnd.randint(0, 6))]
        elif ty == "Decimal":
            f = [rnd.randint(0, 1), rnd.choice([0, 1, 5, 25, 125, 375, 3, 7, rnd.randint(0, 999999)]), rnd.randint(-6, 3)]
            dcls = dec_facts(gamma_reg("Decimal", f))[4]
        elif ty == "Path":
            t = rnd.choice(["null", "~", "1:", "true:", "{1}", "._", "#a", "&a", "Null", "0x_", "a: b"]) if rnd.random() < 0.25 else "".join(rnd.choice(HAZ) for _ in range(rnd.randint(1, 6)))
            if str(pathlib.Path(t)) != t or t.startswith("-"):
                continue
            f = list(t)
        elif ty == "UUID":
            f = list(str(uuid.UUID(int=rnd.getrandbits(128))))
        else:
            mk = lambda: rnd.choice([0.0, 1.0, -1.5, 0.25, 1e16, 1e-7, float(rnd.randint(-99, 99)) / 4])  # noqa: E731
            f = list(str(complex(mk(), mk())))
        val = gamma_reg(ty, f)
        if rnd.random() < 0.5:
            mode, ctx = rnd.choice(["json", "json", "toml", "toml", "jsonnet"] if rnd.random() < 0.3 else ["json", "toml"]), "bare"
            chan = rnd.choice(["file", "cli"])
            fmt = rnd.choice(MODE_FORMATS[mode]) if chan == "file" else "-"
            o, rrec, text = roundtrip_mode(ty, val, mode, chan, fmt)
        else:
            mode, ctx = "yaml", rnd.choice(["list", "dict", "optional", "union", "dataclass", "default"])
            chan, fmt = rnd.choice(CHANNELS), "-"
            o, rrec, text = roundtrip_ctx(ty, val, ctx, chan)
        obs.append({"ty": ty, "f": f, "dcls": dcls, "mode": mode, "ctx": ctx, "chan": chan, "rep": rrec, "obs": o.split(":")[0]})
        meta.append({"python_value": repr(val)[:120], "hint": str(ctx_hint(ty, ctx)), "parser_mode": mode, "dump_format": fmt, "written": text[:200], "obs_full": o})
    return obs, meta


def random_secret_obs(rnd, count, scratch):
    obs, meta = [], []
    ctxs = ["bare", "optional", "list", "dict", "tuple", "union", "dataclass", "default"]
    while len(obs) < count:
        ctx = rnd.choice(ctxs)
        _FLAVOUR[0] = rnd.choice(["jsonargparse", "jsonargparse", "pydantic"])
        secret = "".join(rnd.choice("abcXYZ019 :#'\"*-_{}[]é$\\/") for _ in range(rnd.randint(1, 12)))
        if rnd.random() < 0.2:
            secret = rnd.choice(["null", "true", "1e3", "123", "~", "*", "***", "{a: 1}", "[1]", "a: b", "- x", ""])
        if secret == "":
            continue
        other = other_secret(secret)
        try:
            d1 = secret_dumps(ctx, secret, scratch)
            d2 = dict(secret_dumps(ctx, other, scratch))
        except BaseException as ex:  # noqa: BLE001
            if loaded_kind(secret) == "crash" or loaded_kind(other) == "crash":
                continue  # the secret is one of the texts on which load_value raises (named deviation loader-crash): it cannot be parsed at all
            machinery_failure(PID, f"secret driver failed on ctx={ctx} secret={secret!r}: {ex!r}")
        for label, text in d1:
            if label not in d2:
                continue
            obs.append({"ctx": ctx, "secret": list(secret), "dump": list(text), "dump2": list(d2[label]),
                        "leafdumped": "skip_default" not in label and not text.startswith("DUMP-RAISED")})
            meta.append({"mode": label, "secret_type": _FLAVOUR[0]})
            if len(obs) >= count:
                break
    _FLAVOUR[0] = "jsonargparse"
    return obs, meta


# ================================================================ main
def main(argv):
    tier = "thorough" if (argv and argv[0] == "thorough") else "quick"
    rep = Report(PID, tier)
    load_own_findings(rep)
    rnd = common.rng(PID)
    rep.assumptions = [
        "Python's int()/float()/complex()/Decimal()/UUID()/pathlib.Path() constructors, str(), repr(float), base64, re and PyYAML's scanner/emitter are trusted; the spec transcribes the grammars of int()/float() on text, str(timedelta), range/timedelta/base64 (de)serializers and the implicit resolvers, and the replay compares real with real",
        "a command-line text denotes the str itself (what load_value makes of a text is supplied per case from the real loader and only matters for the first attempt of the Alg layer); None in a config is 'unset' and not a candidate of the object channel",
        "numbers travel as exact rationals with |num|, den < 2^30; float candidates and numeric texts are dyadic with at most 9 digits, so no rounding happens between the text and the double",
        "restricted strings: Pattern.match semantics (anchored at the start only), regular-expression fragment chr/cat/alt/star/plus/opt/^/$/\\Z; the spec's engine (set of end positions) is independent of Python's re",
        "Decimal: 'equal' is Decimal.__eq__; NaN values are excluded (never equal to themselves); for coefficients beyond TLC's integers the two facts exact-as-double / <=15 digits are computed from the input by the harness and cross-checked by TLC on the small ones",
        "secret strings: values that are SecretStr instances in the parsed configuration; secrets that are substrings of the mask ********** are exempt from the occurrence test (non-interference still applies)",
    ]
    scratch = common.scratch("c20")
    try:
        return run(rep, tier, rnd, scratch)
    finally:
        common.rm(scratch)


def run(rep, tier, rnd, scratch):
    # ---------------------------------------------------------------- MC
    tm = common.Timer()
    phases = rep.extra.setdefault("phase_s", {})
    cpu = rep.extra.setdefault("phase_cpu_s_cumulative", {})  # user+sys of this process and its finished children: load-independent
    cfgname = f"MC_Restricted_{tier}"
    cov = os.environ.get("C20_COVERAGE") == "1"
    import threading
    regbox: dict = {}
    regthread = threading.Thread(target=lambda: regbox.setdefault("r", tlc.run("MC_Registry", f"MC_Registry_{tier}", workers=max(2, WORKERS // 4), timeout=1200, heap="2g")))
    regthread.start()  # the registry machine is model-checked while MC_Restricted runs
    mc = tlc.run("MC_Restricted", cfgname, workers=WORKERS, timeout=2400, heap=HEAP, coverage=cov)
    rep.add_tlc(cfgname, mc)
    if mc.errors:
        if mc.violated:
            rep.violation("model:" + ",".join(mc.violated), f"TLC: invariant {mc.violated} violated in the bounded model (Alg does not refine Ref)",
                          {"tlc_errors": mc.errors, "counterexample": mc.cex[:4000]})
            return rep.finish()
        machinery_failure(PID, "TLC failed on MC_Restricted:\n" + mc.stdout[-3000:])
    hdr = [p for p in mc.printed if isinstance(p, dict) and "cands" in p]
    if len(hdr) != 1:
        machinery_failure(PID, f"{len(hdr)} header lines in TLC's output")
    hdr = hdr[0]
    by_part: dict = {}
    for p in mc.printed:
        if isinstance(p, dict) and "part" in p:
            by_part.setdefault(p["part"], []).append(p)
    for part, lines in by_part.items():
        lines.sort(key=lambda x: x["i"])
        if len(lines) != hdr["counts"][part] or [x["i"] for x in lines] != list(range(1, len(lines) + 1)):
            machinery_failure(PID, f"part {part}: {len(lines)} emitted cases, the model has {hdr['counts'][part]}")
    total = sum(hdr["counts"].values())
    if set(by_part) != set(hdr["counts"]) or mc.distinct < total:
        machinery_failure(PID, f"emitted parts {sorted(by_part)} / distinct states {mc.distinct} < cases {total}")
    rep.extra["model_cases"] = hdr["counts"]
    # non-vacuity, measured from what TLC printed (-coverage runs out of memory on this module): the statement of the
    # Alg layer that decided each case, the outcome classes, the named deviations and the resolver tags that occurred
    from collections import Counter
    nv = {"alg_branch": Counter(), "parse_branch": Counter(), "num_outcome": Counter(), "str_accepts": Counter(), "loader_kinds": Counter(),
          "reg_alg_by_type": Counter(), "reg_deviation": Counter(), "resolver_tags_dumper/loader": Counter()}
    for ln in by_part["num"] + by_part["named"]:
        nv["alg_branch"].update(ln["br"])
        nv["parse_branch"].update(ln["pbr"])
        nv["num_outcome"].update(x["k"] for x in ln["ref"])
    for ln in by_part["str"] + by_part["strx"]:
        nv["str_accepts"].update("accept" if a else "reject" for a in ln["acc"])
        nv["loader_kinds"].update(ln["ld"])
        nv["parse_branch"].update(ln["pbr"])
    for ln in by_part["reg"]:
        for ci, ch in enumerate(CHANNELS):
            nv["reg_alg_by_type"][f"{ln['ty']}:{ch}:{ln['alg'][ci]}"] += 1
            nv["reg_deviation"][ln["dev"][ci]] += 1
        if ln["ty"] == "Path":
            nv["resolver_tags_dumper/loader"]["/".join(ln["tags"])] += 1
    nv["regm_deviation_by_mode"] = Counter()
    for ln in by_part["regm"]:
        for ci, ch in enumerate(("file", "cli")):
            nv["regm_deviation_by_mode"][f"{ln['mode']}:{ch}:{ln['dev'][ci]}"] += 1
    nv["pmode_loader_kinds"] = Counter(f"{ln['mode']}:{k}" for ln in by_part["pmode"] for k in ln["ld"])
    rep.extra["non_vacuity"] = {k: dict(sorted(v.items())) for k, v in nv.items()}
    if not {"jsonnet:file:loader-crash", "jsonnet:file:none", "json:file:none", "toml:file:none", "json:file:float-serializer"} <= set(nv["regm_deviation_by_mode"]) \
            or any(k.startswith(("json:", "toml:")) and k.endswith("loader-crash") for k in nv["regm_deviation_by_mode"]) \
            or "jsonnet:crash" not in nv["pmode_loader_kinds"]:
        machinery_failure(PID, f"vacuity (modes): {dict(nv['regm_deviation_by_mode'])} / {dict(nv['pmode_loader_kinds'])}")
    expected_branches = {"160-bool", "162-not-integer", "164-cast-ValueError", "164-cast-TypeError", "164-cast-OverflowError", "166-restriction", "94-accepted"}
    if not expected_branches <= set(nv["alg_branch"]) or not {"563-loader-crash", "582-first-attempt", "590-second-attempt", "596-rejected", "596-rejected-not-text", "escapes-OverflowError"} <= set(nv["parse_branch"]):
        machinery_failure(PID, f"vacuity: Alg branches exercised by the instance: {sorted(nv['alg_branch'])} / {sorted(nv['parse_branch'])}")
    # "yaml-str-as-float" was a named deviation until the repair f3cd0b1; the spec no longer predicts it
    if not {"float-serializer", "loader-crash", "none"} <= set(nv["reg_deviation"]):
        machinery_failure(PID, f"vacuity: deviations in the instance: {sorted(nv['reg_deviation'])}")
    if cov:
        rep.extra["tlc_coverage"] = {k: v for k, v in mc.coverage.items()}

    phases["mc"] = tm.s(); cpu["mc"] = _cpu()
    # the loader assumption of the spec (LdOf) against the real loader
    for c, ld in zip(hdr["cands"], hdr["ld"]):
        if c["k"] == "str" and loaded_kind(txt(c["t"])) != ld:
            if ld == "crash":  # the named deviation is gone (e.g. repaired): the Alg layer is stale, not the property violated
                rep.add_drift(f"LoaderCrash predicts that load_value raises on {txt(c['t'])!r}; the real loader returns ({loaded_kind(txt(c['t']))})", {"text": txt(c["t"])})
            else:
                machinery_failure(PID, f"loader assumption of MC_Restricted is wrong for {txt(c['t'])!r}: spec {ld}, load_value {loaded_kind(txt(c['t']))}")

    # ---------------------------------------------------------------- REPLAY
    bind_named(by_part["named"])
    named = {n: getattr(jtyping, n) for n in ("PositiveInt", "NonNegativeInt", "PositiveFloat", "NonNegativeFloat", "ClosedUnitInterval", "OpenUnitInterval")}
    n_num = pooled(rep, replay_num, by_part["num"], (hdr["cands"], hdr["ld"], tier, None), chunk=48)
    phases["replay_num"] = tm.s(); cpu["replay_num"] = _cpu()
    n_named = replay_num(rep, by_part["named"], hdr["cands"], hdr["ld"], tier, named)
    n_create = replay_create(rep, by_part["create"])
    nt = len(hdr["strtexts"])
    str_jobs = [(ln, j0, min(nt, j0 + 1500)) for ln in by_part["str"] for j0 in range(0, nt, 1500)]
    n_str = pooled(rep, replay_str, str_jobs, (hdr["regexes"], hdr["strtexts"], hdr["nonstr"], tier), chunk=1)
    ntx = len(hdr["strxtexts"])
    strx_jobs = [(ln, j0, min(ntx, j0 + 1500)) for ln in by_part["strx"] for j0 in range(0, ntx, 1500)]
    n_strx = pooled(rep, replay_str, strx_jobs, (hdr["regexesx"], hdr["strxtexts"], hdr["nonstr"], tier, "rex"), chunk=1)
    phases["replay_str"] = tm.s(); cpu["replay_str"] = _cpu()
    n_reg = pooled(rep, replay_reg, by_part["reg"], (tier,), chunk=200)
    phases["replay_reg"] = tm.s(); cpu["replay_reg"] = _cpu()
    n_regm = pooled(rep, replay_regm, by_part["regm"], (tier,), chunk=24)
    n_pmode = pooled(rep, replay_pmode, by_part["pmode"], (hdr["cands"], hdr["pmtexts"], hdr["regexes"], tier), chunk=1)
    n_regc = pooled(rep, replay_regc, by_part["regc"], (tier,), chunk=48)
    nvc = Counter(f"{ln['ctx']}:{ln['dev'][0]}" for ln in by_part["regc"])
    rep.extra["non_vacuity"]["regc_deviation_by_context"] = dict(sorted(nvc.items()))
    if not {"optional:loader-crash", "dataclass:loader-crash", "default:loader-crash", "union:loader-crash", "bare:loader-crash", "list:none", "dict:none", "list:float-serializer"} <= set(nvc) or "list:loader-crash" in nvc or "dict:loader-crash" in nvc:
        machinery_failure(PID, f"vacuity (contexts): {dict(nvc)}")
    phases["replay_modes"] = tm.s(); cpu["replay_modes"] = _cpu()
    # ---- the type registry (spec/Registry.tla): behaviours emitted by MC_Registry
    regthread.join()
    rmc = regbox.get("r")
    if rmc is None:
        machinery_failure(PID, "MC_Registry did not run")
    rep.add_tlc(f"MC_Registry_{tier}", rmc)
    if rmc.errors:
        if rmc.violated:
            rep.violation("model:registry:" + ",".join(rmc.violated), f"TLC: invariant {rmc.violated} violated in MC_Registry (Alg does not refine Ref)", {"tlc_errors": rmc.errors, "counterexample": rmc.cex[:4000]})
            return rep.finish()
        machinery_failure(PID, "TLC failed on MC_Registry:\n" + rmc.stdout[-3000:])
    behs = sorted((p for p in rmc.printed if isinstance(p, dict) and "ops" in p), key=lambda b: json.dumps([b["mach"], b["ops"]], sort_keys=True))
    for bi, b in enumerate(behs):
        b["i"] = bi
    depth = 3 if tier == "quick" else 4
    depth_a = 4 if tier == "quick" else 5  # machine "alias" (DepthA of the cfg)
    if not behs or any(len(b["ops"]) != (depth_a if b["mach"] == "alias" else depth) for b in behs) or {b["mach"] for b in behs} != {"handlers", "create", "alias"}:
        machinery_failure(PID, f"MC_Registry emitted {len(behs)} behaviours (expected complete behaviours of {depth} operations of both machines)")
    from collections import Counter as _Ctr
    rnv = _Ctr()
    for b in behs:
        for o, x in zip(b["ops"], b["outs"]):
            rnv[f"{o['op']}:{x['ref']}/{x['alg']}" + (f":{x['why']}" if x["why"] != "-" else "") + (f":DEV-{x['dev']}" if x["dev"] != "-" else "")] += 1
    rep.extra["registry_non_vacuity"] = dict(sorted(rnv.items()))
    need = {"reg:ok/ok", "reg:raise/raise", "use:value/value", "use:fail/ValueError", "use:fail/KeyError", "dump:a/a", "dump:b/b", "create:raise|new/new", "create:existing/existing",
            "create:raise/raise:different-name", "create:raise|new/raise:name-clash", "create:raise|new/existing:DEV-string-flags-ignored",
            "createa:raise|new/new", "createa:existing/existing", "createa:raise/raise:different-name", "createa:raise|new/raise:name-clash", "mutate:ok/ok", "probe:probed/probed"}
    # machine alias: histories in which a type is probed after the list it was created from was mutated, with a changed acceptance
    n_after = sum(1 for b in behs if b["mach"] == "alias" and any(o["op"] == "probe" and _alias_diverged(b, q) for q, o in enumerate(b["ops"])))
    rep.extra["registry_alias_probes_after_divergence"] = n_after
    if n_after < 20:
        machinery_failure(PID, f"vacuity (alias): only {n_after} behaviours probe a type after its list diverged")
    if not need <= set(rnv):
        machinery_failure(PID, f"vacuity (registry): missing {sorted(need - set(rnv))}")
    n_registry = pooled(rep, regy.replay_behaviours, behs, (), chunk=max(40, len(behs) // 64))
    rep.extra["registry_behaviours"] = len(behs)
    phases["replay_registry"] = tm.s()
    n_secret = replay_secret(rep, by_part["secret"], scratch)
    phases["replay_secret"] = tm.s(); cpu["replay_secret"] = _cpu()
    rep.extra["replayed"] = {"num": n_num, "named": n_named, "create": n_create, "str": n_str, "strx": n_strx, "reg": n_reg, "regm": n_regm, "pmode": n_pmode, "regc": n_regc, "registry_steps": n_registry, "secret": n_secret}
    n_replay = n_num + n_named + n_create + n_str + n_strx + n_reg + n_regm + n_pmode + n_regc + n_registry + n_secret

    # ---------------------------------------------------------------- TRACE
    scale = 1 if tier == "quick" else 8
    num_obs, num_meta = random_num_obs(rnd, 2500 * scale)
    str_obs, str_meta = random_str_obs(rnd, 1500 * scale)
    reg_obs, reg_meta = random_reg_obs(rnd, 1200 * scale)
    sec_obs, sec_meta = random_secret_obs(rnd, 300 * scale, scratch)
    rx_obs, rx_meta = random_regx_obs(rnd, 500 * scale)
    phases["drivers"] = tm.s(); cpu["drivers"] = _cpu()
    tf = scratch / "trace.json"
    tf.write_text(json.dumps({"num": num_obs, "str": str_obs, "reg": reg_obs, "secret": sec_obs, "regx": rx_obs}))
    # registry behaviours beyond the bound of MC_Registry (code -> spec), validated by TLC while Trace_Restricted runs
    rbeh = regy.random_behaviours(rnd, 150 * scale, 9)
    rtf = scratch / "trace_registry.json"
    rtf.write_text(json.dumps(rbeh))
    rtbox: dict = {}
    rtthread = threading.Thread(target=lambda: rtbox.setdefault("r", tlc.run("Trace_Registry", "Trace_Registry", workers=max(2, WORKERS // 4), env={"TRACE_FILE": str(rtf)}, timeout=1200, heap="2g")))
    rtthread.start()
    tr = tlc.run("Trace_Restricted", "Trace_Restricted", workers=WORKERS, env={"TRACE_FILE": str(tf)}, timeout=2400, heap=HEAP)
    rep.add_tlc("Trace_Restricted", tr)
    phases["trace_tlc"] = tm.s(); cpu["trace_tlc"] = _cpu()
    n_obs = len(num_obs) + len(str_obs) + len(reg_obs) + len(sec_obs) + len(rx_obs)
    if tr.errors or tr.distinct != n_obs + 65:
        machinery_failure(PID, f"trace validation run failed (distinct={tr.distinct}, expected {n_obs + 65}):\n" + tr.stdout[-3000:])
    rep.extra["trace_observations"] = {"num": len(num_obs), "str": len(str_obs), "reg": len(reg_obs), "secret": len(sec_obs), "regx": len(rx_obs)}
    for o in rx_obs:
        rep.note_nontrivial("tregx|" + json.dumps([o["ty"], o["f"], o["mode"], o["ctx"], o["chan"]], sort_keys=True))
    for o in num_obs:
        rep.note_nontrivial("tnum|" + json.dumps([o["T"], o["x"], o["chan"]], sort_keys=True))
    for o in str_obs:
        rep.note_nontrivial("tstr|" + json.dumps([o["re"], o["x"]["t"], o["chan"]], sort_keys=True))
    for o in reg_obs:
        rep.note_nontrivial("treg|" + json.dumps([o["ty"], o["f"], o["chan"]], sort_keys=True))
    for o in sec_obs:
        rep.note_nontrivial("tsec|" + json.dumps([o["ctx"], o["secret"], len(o["dump"])], sort_keys=True))

    # ---- registry behaviours beyond the bound of MC_Registry (code -> spec)
    rtthread.join()
    rtr = rtbox.get("r")
    if rtr is None:
        machinery_failure(PID, "Trace_Registry did not run")
    rep.add_tlc("Trace_Registry", rtr)
    if rtr.errors or rtr.distinct != len(rbeh) + 17:
        machinery_failure(PID, f"registry trace validation failed (distinct={rtr.distinct}, expected {len(rbeh) + 17}):\n" + rtr.stdout[-3000:])
    n_rsteps = sum(len(b["ops"]) for b in rbeh)
    rep.extra["trace_observations"]["registry_behaviours"] = len(rbeh)
    rep.extra["trace_observations"]["registry_steps"] = n_rsteps
    for b in rbeh:
        rep.note_nontrivial("treg|" + json.dumps(b["ops"], sort_keys=True))
    rrej: dict = {}
    for p in rtr.printed:
        if isinstance(p, list) and len(p) == 5 and p[0] == "R" and p[1] == "registry":
            rrej.setdefault((p[2], p[3]), []).append(p[4])
    for (bn, q), clauses in sorted(rrej.items()):
        b = rbeh[bn - 1]
        hist = [regy.op_label(x) for x in b["ops"][:q]]
        case = {"kind": "registry", "machine": b["mach"], "flavour": b.get("flavour", "-"), "history": hist, "operations": b["ops"][:q], "operation": b["ops"][q - 1], "observed": b["obs"][q - 1], "failed_clauses": clauses}
        refc = [c for c in clauses if c.startswith("ref")]
        if not refc:
            rep.add_drift(f"registry: the real code agrees with Ref but not with the Alg transcription ({clauses})", case)
        elif any(c.startswith("ref-dev-") for c in refc):
            dev = [c[len("ref-dev-"):] for c in refc if c.startswith("ref-dev-")][0]
            rep.violation(f"create:{dev}", f"random registry behaviour {hist}: the last call returned the type registered before with other flags (named deviation {dev})", case)
        else:
            rep.violation(f"registry:trace:{b['ops'][q - 1]['op']}:{'+'.join(refc)}", f"random registry behaviour {hist}: TLC rejects the observation of the last step ({refc})", case)
    phases["trace_registry"] = tm.s()
    n_obs += n_rsteps

    rejects: dict = {}
    for p in tr.printed:
        if isinstance(p, list) and len(p) == 4 and p[0] == "R":
            rejects.setdefault((p[1], p[2]), []).append(p[3])
    pools = {"num": (num_obs, num_meta), "str": (str_obs, str_meta), "reg": (reg_obs, reg_meta), "secret": (sec_obs, sec_meta), "regx": (rx_obs, rx_meta)}
    for (kind, idx), clauses in sorted(rejects.items()):
        o, m = pools[kind][0][idx - 1], pools[kind][1][idx - 1]
        case = {"kind": kind, "observation": _short(o), "python": m, "failed_clauses": clauses}
        refc = [c for c in clauses if c.startswith("ref")]
        if kind == "reg" and "alpha-exact" in clauses:
            machinery_failure(PID, f"alpha self-check failed: exactness of {o['f']} computed by the harness disagrees with TLC")
        if not refc:
            rep.add_drift(f"{kind}: the real code agrees with Ref but not with the Alg transcription ({clauses})", case)
            continue
        if kind in ("num", "str") and "ref-dev-loader-crash" in refc:
            rep.violation(f"{kind}:loader-crash:{o['chan']}", f"random {kind} case: {cand_label(o['x'])} via {o['chan']} is rejected because load_value raises on the text (named deviation loader-crash)", case)
        elif kind in ("num", "str"):
            what = type_label(o["T"]) if kind == "num" else m["pattern"]
            rep.violation(f"{kind}:{o['chan']}:{(o['T']['base'] if kind == 'num' else 're')}:{cand_label(o['x'])}:{'accepted' if o['obs']['r'] == 'ok' else 'rejected'}:{'+'.join(refc)}",
                          f"random {kind} case {what} on {cand_label(o['x'])} via {o['chan']}: TLC rejects the observation ({refc})", case)
        elif kind == "regx":
            dev = [c[len("ref-dev-"):] for c in refc if c.startswith("ref-dev-")]
            where = f"{o['mode']}:{o['ctx']}:{o['chan']}"
            if dev:
                rep.violation(f"registered:{dev[0]}:{o['ty']}", f"{o['ty']} value {m['python_value']} does not survive the round trip {where} ({o['obs']}); named deviation {dev[0]}", case)
            else:
                rep.violation(f"registered:roundtrip:{o['ty']}:{where}:{o['obs']}:{m['python_value'][:40]}", f"{o['ty']} value {m['python_value']} via {where}: expected an equal value back, got {m['obs_full']}", case)
        elif kind == "reg":
            dev = [c[len("ref-dev-"):] for c in refc if c.startswith("ref-dev-")]
            if dev:
                rep.violation(f"registered:{dev[0]}:{o['ty'].replace('DecimalX', 'Decimal')}", f"{o['ty']} value {m['python_value']} does not survive the {o['chan']} round trip ({o['obs']}); named deviation {dev[0]}", case)
            else:
                rep.violation(f"registered:roundtrip:{o['ty']}:{o['chan']}:{o['obs']}:{m['python_value'][:40]}", f"{o['ty']} value {m['python_value']} via {o['chan']}: expected an equal value back, got {m['obs_full']}", case)
        else:
            rep.violation(f"secret:{'+'.join(refc)}:{o['ctx']}:{m['mode']}", f"SecretStr in context {o['ctx']}, dump mode {m['mode']}: {refc}", case)

    # ---------------------------------------------------------------- evidence
    rep.traces = n_replay + n_obs
    rep.evaluations = rep.traces
    rep.rule = ("cases = (type, candidate, channel) for restricted numbers, (regex, text, channel) for restricted strings, (registered type, value, channel) "
                "round trips, (context, secret, dump mode) for SecretStr; counted as non-trivial and distinct: number cases whose candidate is not a plain int or lies "
                "within 1 of a reference value; every distinct string / registered / secret case (each has its own text or value); for the parser modes and the "
                "containers (mode | context, type, value, channel); for the registry every distinct history (sequence of operations up to the step that is compared)")
    rep.exhaustive = False
    rep.explanation = (f"MC_Restricted enumerated its bounded instance completely ({mc.distinct} states: {hdr['counts']}); every emitted case was replayed on the real "
                       f"code ({n_replay} executions: direct channel for every (type, candidate), parser channels for a rotating share); {n_obs} further seeded random "
                       f"observations beyond the bounds were validated by TLC against Trace_Restricted ({tr.distinct} states); MC_Registry enumerated every sequence of "
                       f"{depth} operations of the two registry machines ({rmc.distinct} states, {len(behs)} complete behaviours, each replayed step by step) and Trace_Registry "
                       f"validated {len(rbeh)} longer seeded random behaviours ({n_rsteps} steps)")
    if num_obs:
        rep.sample({"part": "trace-num", "observation": _short(num_obs[len(num_obs) // 2]), "python": num_meta[len(num_obs) // 2]}, limit=14)
    if reg_obs:
        rep.sample({"part": "trace-reg", "observation": _short(reg_obs[len(reg_obs) // 3]), "python": reg_meta[len(reg_obs) // 3]}, limit=14)
    return rep.finish()


def _alias_diverged(b, q) -> bool:
    """non-vacuity: at step q (a probe) the caller's list no longer holds the content the probed type was created from"""
    for k in range(q - 1, -1, -1):
        if b["ops"][k]["op"] == "mutate":
            return b["outs"][k]["cont"] != b["outs"][q]["cont"]
    return False


def _cpu() -> float:
    t = os.times()
    return round(t.user + t.system + t.children_user + t.children_system, 1)


def _short(o):
    s = json.dumps(o)
    return o if len(s) < 1500 else json.loads(json.dumps({k: (v if len(json.dumps(v)) < 500 else "...") for k, v in o.items()}))


def replay_file(path) -> int:
    """./check C20 --replay <file>: print the recorded case and run it again on the real code"""
    rec = json.loads(open(path).read())
    print(json.dumps(rec, indent=1)[:6000])
    case = rec.get("case", {})
    case = case.get("observation", case) if "observation" in case else case
    try:
        if "history" in case and "operation" in case:  # round 4: a behaviour of the type registry -- the recorded history is run again step by step
            if "operations" in case:
                w = regy.World()
                for o in case["operations"]:
                    print(f"RE-RUN {regy.op_label(o)}: {w.step(o)}")
            else:
                print("recorded history:", case["history"], "-> observed", case.get("observed"))
            return 0
        if "abstract_value" in case and ("parser_mode" in case or ("context" in case and "secret" not in case)):  # round 4: parser modes / containers
            ty, f = case["type"], case["abstract_value"]
            v = "".join(f) if ty == "PathLike" else gamma_reg(ty, f) if ty != "DecimalX" else None
            if v is not None and "parser_mode" in case:
                print(f"RE-RUN {ty} {v!r} mode {case['parser_mode']} via {case['channel']} ({case.get('dump_format')}): {roundtrip_mode(ty, v, case['parser_mode'], case['channel'], case.get('dump_format') or 'parser_mode')}")
            elif v is not None:
                print(f"RE-RUN {ty} {v!r} in context {case['context']} via {case['channel']}: {roundtrip_ctx(ty, v, case['context'], case['channel'])}")
            return 0
        if "candidate" in case or "T" in case:  # a restricted number case
            tj, c, chan = case.get("type") or case["T"], case.get("candidate") or case["x"], case.get("channel") or case["chan"]
            try:
                T = build_num_type(tj)
            except ValueError as ex:  # the key belongs to a predefined type (bound from TLC's "named" part in a normal run)
                T = getattr(jtyping, str(ex).rstrip(".").rsplit(" ", 1)[-1])
            ob = run_channel(T, _BASES[tj["base"]], make_parser(T), chan, gamma_cand(c))
            print(f"RE-RUN {type_label(tj)} on {cand_label(c)} via {chan}: {ob}")
        elif "regex" in case or "re" in case:
            term, chan = case.get("regex") or case["re"], case.get("channel") or case["chan"]
            text = case["text"] if "text" in case else txt(case["x"]["t"])
            T = build_str_type(re_pattern(term))
            print(f"RE-RUN {re_pattern(term)!r} on {text!r} via {chan}: {run_channel(T, str, make_parser(T), chan, text)}")
        elif "abstract_value" in case or "ty" in case:
            ty, f, chan = case.get("type") or case["ty"], case.get("abstract_value") or case["f"], case.get("channel") or case["chan"]
            if ty != "DecimalX":
                v = gamma_reg(ty, f)
                print(f"RE-RUN {ty} {v!r} via {chan}: {roundtrip(ty, v, chan)}")
        elif "context" in case:
            sc = common.scratch("c20r")
            try:
                for label, text in secret_dumps(case["context"], case["secret"], sc):
                    print(f"RE-RUN {case['context']} {label}: secret occurs = {case['secret'] in text}")
            finally:
                common.rm(sc)
    except BaseException as ex:  # noqa: BLE001
        print(f"RE-RUN failed: {ex!r}")
    return 0


if __name__ == "__main__":
    args = sys.argv[1:]
    if args and args[0] == "--replay":
        sys.exit(replay_file(args[1]))
    sys.exit(main(args))
