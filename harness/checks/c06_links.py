"""C06 extension — argument links x required keys (spec/ValLinks.tla, MC_ValLinks.tla, Trace_ValLinks.tla).

  MC      tlc MC_ValLinks: parser variants (the class argument `model` declared with add_class_arguments /
          add_subclass_arguments(required=True) / add_argument(type=, required=True); links applied on parse or on
          instantiate; targets: the required plain option tgt, the required parameter dim of the class, the required
          parameter dim BELOW the required class-typed parameter encoder) x classes (Model / BigModel, Encoder /
          BigEncoder with the nested Norm) x the valid configuration x one omission at every position (key or subtree
          removed, key nulled); invariants AlgLIsRef, ValidIsOk, CutMatters, OnlyTarget.
  REPLAY  every emitted case builds the REAL parser of the variant with the real link_arguments calls and parses the
          configuration as object, config string (thorough tier), --cfg file, argv and environment; accept / reject must
          equal TLC's outcome; a rejection must name the missing / foreign key (or the argument it lives in).
          The same instance inserts one foreign key (1 / null / {} / [] / dotted / a parameter of another class) at every
          container of the class tree (three classes deep, next to class_path, below scalars): Walk / AlgLForeign.
  TRACE   seeded random variants x random configurations with 0-3 omissions (also of optional keys) are run on the real
          code; TLC (Trace_ValLinks) evaluates the reference and the transcription on every recorded decision.
"""

import copy
import json
import os
import shutil
import sys
import tempfile
import types
import warnings

from ..lib import common, pipeline, tlc
from ..lib.evidence import machinery_failure

PID = "C06"
MOD = "verif_c06lmod"
CHANNELS = ["object", "string", "cfgfile", "argv", "env"]
DEV2 = ("a key that the parser does not define whose VALUE is an empty mapping ({} or nested empty mappings) is silently dropped at every position: "
        "validation only walks leaf keys and an empty namespace has none")
DEV3 = ("an undeclared key next to class_path in a class spec that has NO init_args ({'class_path': 'm.Encoder', 'zz': 1}) is rejected, but the message "
        "names class_path ('Key class_path is not expected'), not the offending key")
CLASSES = ("Model", "BigModel", "Encoder", "BigEncoder", "Norm", "Data")


def make_module():
    if MOD in sys.modules:
        return sys.modules[MOD]
    m = types.ModuleType(MOD)
    sys.modules[MOD] = m

    class Norm:
        def __init__(self, eps: int, affine: int = 1):
            pass

    class Encoder:
        def __init__(self, dim: int, depth: int = 1):
            pass

    class BigEncoder(Encoder):
        def __init__(self, dim: int, width: int, norm: Norm, depth: int = 1):
            pass

    class Model:
        def __init__(self, encoder: Encoder, dim: int, name: int = 0):
            pass

    class BigModel(Model):
        def __init__(self, encoder: Encoder, dim: int, extra: int, name: int = 0):
            pass

    class Data:
        def __init__(self, size: int, bs: int = 2):
            self.size = size

    for c in (Norm, Encoder, BigEncoder, Model, BigModel, Data):
        c.__module__ = MOD
        c.__qualname__ = c.__name__
        setattr(m, c.__name__, c)
    return m


def build(v):
    """gamma of a variant: the real parser with the real link_arguments calls"""
    from jsonargparse import ActionConfigFile, ArgumentParser

    m = make_module()
    p = ArgumentParser(exit_on_error=False, env_prefix="APP")
    p.add_argument("--cfg", action=ActionConfigFile)
    p.add_argument("--other", type=int, required=True)
    p.add_argument("--tgt", type=int, required=True)
    if v["on"] == "parse":
        p.add_argument("--src", type=int, required=True)
        src = "src"
    else:
        p.add_class_arguments(m.Data, "data")
        src = "data.size"
    if v["how"] == "group":
        p.add_class_arguments(m.Model, "model")
        pre = "model."
    elif v["how"] == "sub":
        p.add_subclass_arguments(m.Model, "model", required=True)
        pre = "model.init_args."
    else:
        p.add_argument("--model", type=m.Model, required=True)
        pre = "model.init_args."
    if v["ltgt"]:
        p.link_arguments(src, "tgt", apply_on=v["on"])
    if v["ldim"]:
        p.link_arguments(src, pre + "dim", apply_on=v["on"])
    if v["lenc"]:
        p.link_arguments(src, pre + "encoder.init_args.dim", apply_on=v["on"])
    return p


def conc_value(v):
    if v == "null":
        return None
    if v == "emptymap":
        return {}
    if v == "emptylist":
        return []
    if v in CLASSES:
        return MOD + "." + v
    return 1


def nested(cfg):
    root: dict = {}
    for e in sorted(cfg, key=lambda e: (len(e["p"]), e["p"])):
        cur = root
        for comp in e["p"][:-1]:
            if not isinstance(cur.get(comp), dict):
                cur[comp] = {}
            cur = cur[comp]
        cur[e["p"][-1]] = conc_value(e["v"])
    return root


def _txt(v):
    return json.dumps(v)


def argv_of(obj, v):
    """plain options and the parameters of a class GROUP as --a.b=value; a class-typed value as one JSON option"""
    out = []
    for k, val in obj.items():
        if isinstance(val, dict) and (k == "data" or (k == "model" and v["how"] == "group")):
            for kk, vv in val.items():
                out.append(f"--{k}.{kk}={_txt(vv)}")
        else:
            out.append(f"--{k}={_txt(val)}")
    return out


def env_of(obj, v):
    env = {}
    for k, val in obj.items():
        if isinstance(val, dict) and (k == "data" or (k == "model" and v["how"] == "group")):
            for kk, vv in val.items():
                env[f"APP_{k.upper()}__{kk.upper()}"] = _txt(vv)
        else:
            env["APP_" + k.upper()] = _txt(val)
    return env


def run_case(case):
    from jsonargparse import ArgumentError

    warnings.simplefilter("ignore")
    make_module()
    v = case["v"]
    obj = nested(case["cfg"])
    tmp = tempfile.mkdtemp(prefix="verif-vlk-")
    saved = dict(os.environ)
    outs = []
    try:
        for k in list(os.environ):
            if k.startswith("APP_") or (k.startswith("JSONARGPARSE_") and k != common.GUARD):
                del os.environ[k]
        for ch in case.get("channels", CHANNELS):
            call = None
            try:
                p = build(v)
                if ch == "object":
                    call = copy.deepcopy(obj)
                    p.parse_object(copy.deepcopy(obj))
                elif ch == "string":
                    call = json.dumps(obj)
                    p.parse_string(call)
                elif ch == "cfgfile":
                    f = os.path.join(tmp, "c.json")
                    with open(f, "w") as fh:
                        json.dump(obj, fh)
                    call = ["--cfg", f]
                    p.parse_args(call)
                elif ch == "argv":
                    call = argv_of(obj, v)
                    p.parse_args(call)
                elif ch == "env":
                    if case.get("skip_env"):
                        continue   # an unknown environment variable is simply not looked at: the environment cannot express this case
                    call = env_of(obj, v)
                    p.parse_env(call)
                outs.append({"ch": ch, "out": "ok", "msg": "", "call": repr(call)[:500]})
            except ArgumentError as ex:
                outs.append({"ch": ch, "out": "err", "msg": str(ex)[:4000], "call": repr(call)[:500]})
            except SystemExit as ex:
                outs.append({"ch": ch, "out": "err", "msg": f"exit {ex.code}", "call": repr(call)[:500], "escaped": "SystemExit"})
            except Exception as ex:
                outs.append({"ch": ch, "out": "err", "msg": f"{type(ex).__name__}: {ex}"[:300], "call": repr(call)[:500], "escaped": type(ex).__name__})
        return outs
    finally:
        os.environ.clear()
        os.environ.update(saved)
        shutil.rmtree(tmp, ignore_errors=True)


def env_cannot(v, mut):
    """a foreign key directly at the root / in a class group / in the source group would be a separate, unknown variable"""
    return mut["kind"] == "foreign" and (mut["p"] == [] or mut["p"] == ["data"] or (v["how"] == "group" and mut["p"] == ["model"]))


def vkey(v):
    links = "+".join(n for n, f in (("tgt", v["ltgt"]), ("dim", v["ldim"]), ("encoder.dim", v["lenc"])) if f) or "nolink"
    return f"{v['how']}:{v['on']}:{links}"


# ---------------------------------------------------------------- random variants / configurations (code -> spec)
def random_variant(rnd):
    how = rnd.choice(["group", "sub", "arg"])
    return {"kind": "group" if how == "group" else "cls", "how": how, "on": rnd.choice(["parse", "instantiate"]),
            "ldim": rnd.random() < 0.5, "lenc": rnd.random() < 0.5, "ltgt": rnd.random() < 0.5,
            "M": "Model" if how == "group" else rnd.choice(["Model", "BigModel"]), "E": rnd.choice(["Encoder", "BigEncoder"])}


def links_of(v):
    pre = ["model"] if v["how"] == "group" else ["model", "init_args"]
    out = []
    if v["ldim"]:
        out.append(pre + ["dim"])
    if v["lenc"]:
        out.append(pre + ["encoder", "init_args", "dim"])
    if v["ltgt"]:
        out.append(["tgt"])
    return out


def random_cfg(rnd, v):
    """the full configuration (required and some optional keys) without the computed keys, then 0-3 omissions"""
    pre = ["model"] if v["how"] == "group" else ["model", "init_args"]
    E = lambda p, val: {"p": p, "v": val}  # noqa: E731
    cfg = [E(["other"], "1"), E(["tgt"], "1"), E(["src"], "1") if v["on"] == "parse" else E(["data", "size"], "1")]
    if v["how"] != "group":
        cfg.append(E(["model", "class_path"], v["M"]))
    cfg += [E(pre + ["dim"], "1"), E(pre + ["encoder", "class_path"], v["E"]), E(pre + ["encoder", "init_args", "dim"], "1")]
    if v["M"] == "BigModel":
        cfg.append(E(pre + ["extra"], "1"))
    if v["E"] == "BigEncoder":
        cfg += [E(pre + ["encoder", "init_args", "width"], "1"), E(pre + ["encoder", "init_args", "norm", "class_path"], "Norm"),
                E(pre + ["encoder", "init_args", "norm", "init_args", "eps"], "1")]
        if rnd.random() < 0.4:
            cfg.append(E(pre + ["encoder", "init_args", "norm", "init_args", "affine"], "1"))
    for opt in (pre + ["name"], pre + ["encoder", "init_args", "depth"]) + ((["data", "bs"],) if v["on"] == "instantiate" else ()):
        if rnd.random() < 0.4:
            cfg.append(E(opt, "1"))
    links = links_of(v)
    cfg = [e for e in cfg if e["p"] not in links]
    muts = []
    for _ in range(rnd.choice([0, 1, 1, 2, 3])):
        if not cfg:
            break
        e = rnd.choice(cfg)
        cut = e["p"][: rnd.randint(1, len(e["p"]))]
        if cut[-1] == "class_path":
            cut = cut[:-1]   # the class spec as a whole (a class_path alone cannot be taken out: init_args of another class would stay)
        if cut[-1] in ("name", "depth", "bs", "affine") or cut[-1] == "init_args" or rnd.random() < 0.6 or (cut == ["model"] and v["how"] == "group") or cut == ["data"]:
            cfg = [x for x in cfg if x["p"][: len(cut)] != cut]
            muts.append(["remove", cut])
        else:
            cfg = [x for x in cfg if x["p"][: len(cut)] != cut] + [E(cut, "null")]
            muts.append(["null", cut])
    if rnd.random() < 0.3:
        conts = [[], ["model"]] + [e["p"][:-1] for e in cfg if len(e["p"]) > 1] + [e["p"] for e in cfg if e["p"][-1] not in ("class_path",) and e["v"] == "1"]
        pos = rnd.choice(conts)
        name = rnd.choice([["zz"], ["zz"], ["zz", "q"], ["dimx"], ["Dim"], ["class_pathx"], ["zz", "q", "r"]])
        if all(e["p"] != pos + name for e in cfg) and (pos or True):
            val = rnd.choice(["1", "1", "null", "emptymap", "emptylist"])
            cfg = cfg + [E(pos + name, val)]
            muts.append(["foreign", pos, name, val])
    return cfg, muts


def run(rep, tier, rnd):
    """runs MC_ValLinks + replay + trace validation and reports into rep; returns a dict of counts"""
    mc = tlc.run("MC_ValLinks", f"MC_ValLinks_{tier}", workers=16, timeout=1200, heap="8g")
    rep.add_tlc(f"MC_ValLinks_{tier}", mc)
    if mc.errors:
        if mc.violated:
            rep.violation("links-model:" + ",".join(mc.violated), f"TLC: {mc.violated} violated in MC_ValLinks", {"tlc_errors": mc.errors, "counterexample": mc.cex[:4000]})
            return {}
        machinery_failure(PID, "TLC failed on MC_ValLinks:\n" + mc.stdout[-3000:])
    emitted = [p for p in mc.printed if isinstance(p, dict) and "mut" in p and "links" in p]
    if len(emitted) != mc.distinct or not emitted:
        machinery_failure(PID, f"MC_ValLinks emitted {len(emitted)} cases for {mc.distinct} states")
    emitted.sort(key=lambda c: json.dumps([c["v"], c["mut"]], sort_keys=True))
    # quick tier: parse_string goes through the same loader as the --cfg file; it is replayed in the thorough tier only
    channels = CHANNELS if tier != "quick" else [ch for ch in CHANNELS if ch != "string"]
    for c in emitted:
        c["skip_env"] = env_cannot(c["v"], c["mut"])
        # quick tier: a foreign key travels inside the same JSON value through argv and the environment; argv is enough
        c["channels"] = [ch for ch in channels if ch != "env"] if (tier == "quick" and c["mut"]["kind"] == "foreign") else channels
    results = pipeline.run_many(run_case, emitted, chunksize=4)
    nparse = 0
    for k, (c, outs) in enumerate(zip(emitted, results)):
        rep.traces += 1
        if c["mut"]["kind"] != "none" or c["links"]:
            rep.note_nontrivial("links:" + json.dumps([c["v"], c["mut"]], sort_keys=True))
        for o in outs:
            nparse += 1
            case = {"variant": c["v"], "links": c["links"], "mutation": c["mut"], "channel": o["ch"], "call": o["call"], "observed": o["out"], "message": o["msg"],
                    "expected": c["ref"], "missing_by_spec": c["missing"], "message_tail": o["msg"][-300:]}
            if o.get("escaped"):
                rep.violation(f"links:escaped:{o['escaped']}:{o['ch']}:{vkey(c['v'])}", f"{o['escaped']} escaped instead of ArgumentError", case)
                continue
            pos = ".".join(c["mut"]["p"]) or ("root" if c["mut"]["kind"] == "foreign" else "none")
            if c["mut"]["kind"] == "foreign":
                pos += ":" + ".".join(c["mut"]["n"]) + "=" + c["mut"]["val"]
            if o["out"] != c["ref"]:
                if c["dev"] and o["out"] == c["alg"]:
                    rep.violation("foreign-key:empty-mapping-dropped", DEV2, case)
                elif c["mut"]["kind"] == "foreign":
                    rep.violation(f"nested:{o['ch']}:{c['v']['how']}:foreign:{pos}:silently-accepted", f"a key the parser does not define was accepted ({c['where']})", case)
                else:
                    rep.violation(f"links:{o['ch']}:{vkey(c['v'])}:{c['mut']['kind']}:{pos}:{'silently-accepted' if o['out'] == 'ok' else 'rejected-valid'}",
                                  ("a configuration that omits a required key (not a link target) was accepted" if o["out"] == "ok"
                                   else "the configuration that gives everything but the computed keys was rejected") + f" ({o['msg'][:160]})", case)
            elif o["out"] == "err" and c["mut"]["kind"] == "foreign":
                names = {c["mut"]["n"][0]} | ({c["mut"]["p"][-1]} if c["where"] == "scalar" else set())
                if not any(n in o["msg"] for n in names) and c["misnamed"] and "class_path" in o["msg"]:
                    rep.violation("class-spec-without-init-args:foreign-key-misnamed", DEV3, case)
                elif not any(n in o["msg"] for n in names):
                    rep.violation(f"nested:message:{o['ch']}:{c['v']['how']}:foreign:{pos}", f"the rejection does not name the foreign key ({sorted(names)}): {o['msg'][:200]}", case)
            elif o["out"] == "err":
                names = {p[-1] for p in c["missing"]} | {p[0] for p in c["missing"]} | {c["mut"]["p"][0]}
                if not any(n in o["msg"] for n in names):
                    rep.violation(f"links:message:{o['ch']}:{vkey(c['v'])}:{c['mut']['kind']}:{pos}", f"the rejection does not name the missing key ({sorted(names)}): {o['msg'][:200]}", case)
        if k % 211 == 5:
            rep.sample({"links_variant": c["v"], "links": c["links"], "mutation": c["mut"], "expected": c["ref"],
                        "calls": [{"ch": o["ch"], "call": o["call"][:240], "out": o["out"], "msg": o["msg"][:120]} for o in outs[:2]]})

    # ---- TRACE (code -> spec)
    ntr = 120 if tier == "quick" else 8000
    rcases = []
    for _ in range(ntr):
        v = random_variant(rnd)
        cfg, muts = random_cfg(rnd, v)
        rcases.append({"v": v, "cfg": cfg, "muts": muts, "links": links_of(v),
                       "channels": channels, "skip_env": any(m[0] == "foreign" and env_cannot(v, {"kind": "foreign", "p": m[1]}) for m in muts)})
    rres = pipeline.run_many(run_case, rcases, chunksize=4)
    tmp = common.scratch("c06l")
    try:
        f = tmp / "cases.json"
        f.write_text(json.dumps({"cases": [{"v": c["v"], "cfg": c["cfg"], "outs": [{"ch": o["ch"], "out": o["out"]} for o in outs]} for c, outs in zip(rcases, rres)]}))
        tr = tlc.run("Trace_ValLinks", "Trace_ValLinks", workers=16, env={"TRACE_FILE": str(f)}, timeout=1200, heap="8g")
        rep.add_tlc("Trace_ValLinks", tr)
        if tr.errors or tr.distinct != len(rcases):
            machinery_failure(PID, f"trace validation (links) failed (distinct={tr.distinct}, expected {len(rcases)}):\n" + tr.stdout[-3000:])
        for p in tr.printed:
            if isinstance(p, list) and p and p[0] == "L":
                c, outs = rcases[p[1] - 1], rres[p[1] - 1]
                o = outs[p[2] - 1]
                case = {"variant": c["v"], "links": c["links"], "cfg": c["cfg"], "omissions": c["muts"], "channel": o["ch"], "call": o["call"], "observed": o["out"],
                        "message": o["msg"], "clause": p[3]}
                cuts = "+".join(sorted(f"{m[0]}@{'.'.join(m[1]) or 'root'}" + (f":{'.'.join(m[2])}={m[3]}" if m[0] == "foreign" else "") for m in c["muts"])) or "none"
                if p[3] == "ref-dev-as-alg":
                    rep.violation("foreign-key:empty-mapping-dropped", DEV2, case)
                elif p[3] == "ref":
                    rep.violation(f"links-random:{o['ch']}:{vkey(c['v'])}:{cuts}:{'silently-accepted' if o['out'] == 'ok' else 'rejected-valid'}",
                                  ("a configuration that omits a required key (not a link target) or carries a key the parser does not define was accepted" if o["out"] == "ok"
                                   else "a configuration that the reference accepts was rejected") + f" ({o['msg'][:160]})", case)
                elif c["skip_env"] or o["ch"] == "argv":
                    pass   # the named deviation concerns mappings; on the command line the same key is an unrecognized option (real = Ref)
                else:
                    rep.add_drift("links random: real = Ref but not Alg", case)
        for c, outs in zip(rcases, rres):
            for o in outs:
                if o.get("escaped"):
                    rep.violation(f"links:escaped:{o['escaped']}:{o['ch']}:{vkey(c['v'])}", f"{o['escaped']} escaped instead of ArgumentError",
                                  {"variant": c["v"], "cfg": c["cfg"], "channel": o["ch"], "call": o["call"], "message": o["msg"]})
            if c["muts"]:
                rep.note_nontrivial("links-random:" + json.dumps([c["v"], c["cfg"]], sort_keys=True))
        rep.traces += len(rcases)
        rep.sample({"links_random_variant": rcases[0]["v"], "cfg": rcases[0]["cfg"], "omissions": rcases[0]["muts"], "outs": [{"ch": o["ch"], "out": o["out"]} for o in rres[0]]})
    finally:
        common.rm(tmp)
    nrand = sum(len(o) for o in rres)
    rep.extra["links_model_cases"] = len(emitted)
    rep.extra["links_model_foreign_cases"] = sum(1 for c in emitted if c["mut"]["kind"] == "foreign")
    rep.extra["links_model_misnamed_cases"] = sum(1 for c in emitted if c["misnamed"])
    rep.extra["links_model_parses"] = nparse
    rep.extra["links_random_cases"] = len(rcases)
    rep.extra["links_random_parses"] = nrand
    rep.extra["links_random_accepted"] = sum(1 for outs in rres if outs and outs[0]["out"] == "ok")
    return {"cases": len(emitted), "parses": nparse, "random": len(rcases), "random_parses": nrand}
