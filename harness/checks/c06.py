"""C06 — unknown keys are never silently ignored; required keys are enforced.

  MC      tlc MC_Validate: one rich parser shape (required leaf, dotted groups, dataclass and nested dataclass, class
          argument with two subclasses, list of dataclasses, dict, two sub-commands) x a valid configuration x one
          mutation (a foreign key in several spellings at every position, a known key in the other section, a required
          key removed or set to null); invariants AlgIsRef (the validation walk = the reference outcome except in the
          recorded deviation), ValidIsOk, ForeignIsForeign, RemovalMatters, DeviationShape.
  REPLAY  (spec -> code) every emitted configuration is rendered for the channels argv, config string, config file,
          object (nested and dotted) and, where it can express the case, the environment, and parsed by the real
          parser; accept / reject must equal the outcome TLC computed and a rejection must name the offending key.
  TRACE   (code -> spec) seeded random valid configurations (random subsets of optional keys, class, sub-command,
          items, dict keys) with 0-2 random mutations at random depth are run on the real code; TLC validates the
          observed decisions against Trace_Validate.
  LINKS   (round 4, harness/checks/c06_links.py) the same three steps for parsers with link_arguments: only the link TARGET stops being
          required (ValLinks.tla, MC_ValLinks.tla, Trace_ValLinks.tla).
"""
from __future__ import annotations

import copy
import json
import os
import shutil
import sys
import tempfile
import types
import warnings

from ..lib import common, pipeline, tlc
from . import c06_links
from ..lib.evidence import Report, machinery_failure

PID = "C06"
STR_LEAVES = {"yval", "name", "ckpt"}
CHANNELS = ["object_nested", "object_dotted", "string", "cfgfile", "argv", "env", "object_nodefaults", "string_nodefaults", "argv_nodefaults"]
DEV2 = ("a key that the parser does not define whose VALUE is an empty mapping ({} or nested empty mappings) is silently dropped at every position: "
        "validation only walks leaf keys and an empty namespace has none")
DEV = ("a key that the parser does not define, placed inside the section of a sub-command that is NOT the chosen one, is dropped with the section "
       "and never reported")


def make_module():
    if "verif_c06mod" in sys.modules:
        return sys.modules["verif_c06mod"]
    from dataclasses import dataclass

    m = types.ModuleType("verif_c06mod")
    sys.modules["verif_c06mod"] = m

    @dataclass
    class DC:
        xval: int
        yval: str = "y"

    @dataclass
    class DC2:
        inner: DC
        zval: int = 0

    class Base:
        def __init__(self, arg: int, bval: int = 2):
            pass

    class Sub(Base):
        def __init__(self, arg: int, bval: int = 2, sval: int = 3):
            pass

    class Other(Base):
        def __init__(self, arg: int, cval: int = 4):
            pass

    for c in (DC, DC2, Base, Sub, Other):
        c.__module__ = "verif_c06mod"
        c.__qualname__ = c.__name__
        setattr(m, c.__name__, c)
    return m


def build_parser():
    from typing import Dict, List

    from jsonargparse import ActionConfigFile, ArgumentParser

    m = make_module()
    p = ArgumentParser(exit_on_error=False, env_prefix="APP")
    p.add_argument("--cfg", action=ActionConfigFile)
    p.add_argument("--top", type=int, required=True)
    p.add_argument("--lr", type=float, default=0.1)
    p.add_argument("--lr_decay", type=float, default=0.5)
    p.add_argument("--g.alpha", type=int, required=True)
    p.add_argument("--g.b.cval", type=int, default=1)
    p.add_argument("--dc", type=m.DC)
    p.add_argument("--dc2", type=m.DC2)
    p.add_argument("--model", type=m.Base, required=True)
    p.add_subclass_arguments(m.Base, "model2", required=True, as_group=False)   # the other way of declaring a required class argument
    p.add_argument("--items", type=List[m.DC], default=[])
    p.add_argument("--d", type=Dict[str, int], default={})
    sc = p.add_subcommands(required=True)
    f = ArgumentParser(exit_on_error=False)
    f.add_argument("--epochs", type=int, required=True)
    f.add_argument("--opt.name", type=str, default="sgd")
    sc.add_subcommand("fit", f)
    t = ArgumentParser(exit_on_error=False)
    t.add_argument("--ckpt", type=str, default="c")
    sc.add_subcommand("test", t)
    return p


_CLS = {"of": [["Sub", [["arg"], ["bval"], ["sval"]]], ["Other", [["arg"], ["cval"]]], ["Base", [["arg"], ["bval"]]]],
        "req_of": [["Sub", [["arg"]]], ["Other", [["arg"]]], ["Base", [["arg"]]]]}
SHAPE_EXTRA = {  # what the emitted shape does not carry (class tables), same as MC_Validate
    "model2": _CLS,
    "model": {"of": [["Sub", [["arg"], ["bval"], ["sval"]]], ["Other", [["arg"], ["cval"]]], ["Base", [["arg"], ["bval"]]]],
              "req_of": [["Sub", [["arg"]]], ["Other", [["arg"]]], ["Base", [["arg"]]]]},
}


def conc_value(path, v, strpaths=None):
    if v == "null":
        return None
    if v == "emptymap":
        return {}
    if path == ["subcommand"]:
        return v
    if strpaths is not None:
        if v in ("Sub", "Other", "Base"):
            return "verif_c06mod." + v
        return "s" if tuple(x for x in path if x != "#") in strpaths or tuple(path) in strpaths else 1
    if v in ("Sub", "Other", "Base"):
        return "verif_c06mod." + v
    if v in ("fit", "test"):
        return v
    leaf = path[-1].rstrip("+")
    return "s" if leaf in STR_LEAVES else 1


def nested(cfg, strpaths=None):
    """abstract entries -> the nested mapping a user writes ('#' = first list item)"""
    root: dict = {}
    for e in sorted(cfg, key=lambda e: (len(e["p"]), e["p"])):
        cur = root
        path = e["p"]
        for i, comp in enumerate(path[:-1]):
            if comp == "#":
                continue
            nxt = path[i + 1] if i + 1 < len(path) else None
            if nxt == "#":
                lst = cur.setdefault(comp, [{}])
                cur = lst[0]
            else:
                if not isinstance(cur.get(comp), dict):
                    cur[comp] = {}
                cur = cur[comp]
        cur[path[-1]] = conc_value(path, e["v"], strpaths)
    return root


def dotted_top(obj):
    """dotted spelling for plain groups (g.alpha, dc.xval ...); typed arguments and sections keep their mapping"""
    out = {}
    for k, v in obj.items():
        if k in ("g", "dc", "dc2") and isinstance(v, dict):
            def flat(prefix, node):
                for kk, vv in node.items():
                    if isinstance(vv, dict):
                        flat(prefix + "." + kk, vv)
                    else:
                        out[prefix + "." + kk] = vv
            flat(k, v)
        else:
            out[k] = v
    return out


def argv_of(obj):
    """root options, then the sub-command word and its options; typed arguments as one JSON option"""
    root_opts, sub_opts = [], []
    sub = obj.get("subcommand")

    def opts(prefix, node, acc):
        for k, v in node.items():
            key = f"{prefix}.{k}" if prefix else k
            if isinstance(v, dict) and key.split(".")[0] not in ("model", "model2", "items", "d") and key not in ("dc", "dc2") :
                opts(key, v, acc)
            elif isinstance(v, dict) and key in ("dc", "dc2"):
                opts(key, v, acc)
            else:
                txt = v if isinstance(v, str) else json.dumps(v)
                acc.append(f"--{key}={txt}")

    for k, v in obj.items():
        if k == "subcommand":
            continue
        if k in ("fit", "test"):
            if k == sub and isinstance(v, dict):
                opts("", v, sub_opts)
            elif isinstance(v, dict):
                return None  # the command line cannot give settings for a sub-command that is not the chosen one
            continue
        if isinstance(v, dict) and k in ("g", "dc", "dc2"):
            opts(k, v, root_opts)
        else:
            txt = v if isinstance(v, str) else json.dumps(v)
            root_opts.append(f"--{k}={txt}")
    if sub is None:
        return root_opts
    return root_opts + [sub] + sub_opts


def env_of(obj):
    """only configurations without foreign keys can be expressed (an unknown variable is simply not looked at)"""
    env = {}

    def put(prefix, node):
        for k, v in node.items():
            name = prefix + k.upper()
            if isinstance(v, dict) and k in ("g", "b", "dc", "dc2", "inner", "opt", "fit", "test"):
                put(name + "__", v)
            else:
                env[name] = v if isinstance(v, str) else json.dumps(v)

    put("APP_", obj)
    return env


def run_case(case):
    from jsonargparse import ArgumentError

    warnings.simplefilter("ignore")
    make_module()
    cfg, foreign_free = case["cfg"], case["foreign_free"]
    obj = nested(cfg)
    tmp = tempfile.mkdtemp(prefix="verif-val-")
    saved = dict(os.environ)
    outs = []
    try:
        for k in list(os.environ):
            if k.startswith("APP_") or (k.startswith("JSONARGPARSE_") and k != common.GUARD):
                del os.environ[k]
        for ch in CHANNELS:
            p = build_parser()
            call = None
            try:
                if ch == "object_nested":
                    call = copy.deepcopy(obj)
                    p.parse_object(copy.deepcopy(obj))
                elif ch == "object_dotted":
                    call = dotted_top(copy.deepcopy(obj))
                    p.parse_object(copy.deepcopy(call))
                elif ch == "string":
                    call = json.dumps(obj)
                    p.parse_string(call)
                elif ch == "cfgfile":
                    f = os.path.join(tmp, "c.json")
                    with open(f, "w") as fh:
                        json.dump(obj, fh)
                    call = ["--cfg", f]
                    p.parse_args(call)
                elif ch == "argv":
                    call = argv_of(obj)
                    if call is None or case.get("abbrev"):
                        continue  # a unique string prefix of an option IS that option on the command line (argparse abbreviations)
                    p.parse_args(call)
                elif ch == "env":
                    if not foreign_free:
                        continue
                    call = env_of(obj)
                    p.parse_env(call)
                elif ch == "object_nodefaults":      # defaults=False: required keys must be enforced without the help of defaults
                    call = copy.deepcopy(obj)
                    p.parse_object(copy.deepcopy(obj), defaults=False)
                elif ch == "string_nodefaults":
                    call = json.dumps(obj)
                    p.parse_string(call, defaults=False)
                elif ch == "argv_nodefaults":
                    call = argv_of(obj)
                    if call is None or case.get("abbrev"):
                        continue
                    p.parse_args(call, defaults=False)
                outs.append({"ch": ch, "out": "ok", "msg": "", "call": repr(call)[:400]})
            except ArgumentError as ex:
                outs.append({"ch": ch, "out": "err", "msg": str(ex)[:600], "call": repr(call)[:400]})
            except SystemExit as ex:
                outs.append({"ch": ch, "out": "err", "msg": f"exit {ex.code}", "call": repr(call)[:400], "escaped": "SystemExit"})
            except Exception as ex:
                outs.append({"ch": ch, "out": "err", "msg": f"{type(ex).__name__}: {ex}"[:300], "call": repr(call)[:400], "escaped": type(ex).__name__})
        return outs
    finally:
        os.environ.clear()
        os.environ.update(saved)
        shutil.rmtree(tmp, ignore_errors=True)


# ---------------------------------------------------------------- random configurations and mutations
def random_case(rnd, shape_paths):
    sub = rnd.choice(["fit", "test"])
    cls = rnd.choice(["Sub", "Other"])
    cfg = [{"p": ["top"], "v": "1"}, {"p": ["g", "alpha"], "v": "1"}, {"p": ["model", "class_path"], "v": cls},
           {"p": ["model", "init_args", "arg"], "v": "1"}, {"p": ["subcommand"], "v": sub}]
    if sub == "fit":
        cfg.append({"p": ["fit", "epochs"], "v": "1"})
    optional = [["lr"], ["lr_decay"], ["g", "b", "cval"], ["dc", "xval"], ["dc2", "inner", "xval"], ["dc2", "zval"], ["items", "#", "xval"],
                ["d", rnd.choice(["k1", "zzq", "items", "a.b"])], ["model", "init_args", "bval"], ["model", "init_args", "sval" if cls == "Sub" else "cval"],
                [sub, "opt", "name"] if sub == "fit" else [sub, "ckpt"], ["dc", "yval"], ["items", "#", "yval"]]
    for o in optional:
        if rnd.random() < 0.45:
            if o[:2] == ["dc", "yval"] and not any(e["p"] == ["dc", "xval"] for e in cfg):
                continue
            if o[:3] == ["items", "#", "yval"] and not any(e["p"] == ["items", "#", "xval"] for e in cfg):
                continue
            cfg.append({"p": o, "v": "1"})
    muts = []
    for _ in range(rnd.choice([0, 1, 1, 1, 2])):
        r = rnd.random()
        if r < 0.6:
            containers = [[], ["g"], ["g", "b"], ["fit"], ["test"], ["fit", "opt"], ["model"], ["model", "init_args"]]
            if any(e["p"][:1] == ["dc"] for e in cfg):
                containers.append(["dc"])
            if any(e["p"][:1] == ["dc2"] for e in cfg):
                containers += [["dc2"], ["dc2", "inner"]]
            if any(e["p"][:1] == ["items"] for e in cfg):
                containers.append(["items", "#"])
            pos = rnd.choice(containers)
            name = rnd.choice([["zzq"], ["zzq+"], ["zzq", "deep"], ["zzq", "deep", "er"], ["Zzq"], ["zzq_1"], ["alph"], ["epoch"], ["lr_dec"], ["xva"], ["__note__"], ["_zz"], ["__zz"]])
            cfg = [e for e in cfg if e["p"] != pos + name] + [{"p": pos + name, "v": "emptymap" if rnd.random() < 0.15 and not name[-1].endswith("+") else "1"}]
            muts.append(["foreign", pos, name])
        else:
            req = [e["p"] for e in cfg if e["p"] in (["top"], ["g", "alpha"], ["dc", "xval"], ["dc2", "inner", "xval"], ["model", "class_path"],
                                                   ["model", "init_args", "arg"], ["items", "#", "xval"], ["subcommand"], ["fit", "epochs"])]
            r = rnd.choice(req)
            kind = rnd.choice(["remove", "null"])
            if r == ["model", "class_path"]:
                kind = "remove"  # 'class_path: null' next to init_args is not a meaningful spelling; removal = the init_args-only short form
            cfg = [e for e in cfg if e["p"][: len(r)] != r]
            if kind == "null":
                cfg.append({"p": r, "v": "null"})
            muts.append([kind, r])
    return {"cfg": cfg, "muts": muts}


# ---------------------------------------------------------------- random SHAPES (beyond the one rich shape of MC_Validate)
NAMES = ["alpha", "beta", "gamma", "delta", "eps", "zeta", "eta", "theta", "iota", "kappa", "_tok", "_priv"]   # names may start with an underscore


def random_shape(rnd):
    """-> tree: {"children": {name: node}, "subs": [[name, {"children": ...}], ...] | None}
    node: {"t": "leaf", "req": bool, "str": bool} | {"t": "group"|"dc", "children": {...}} | {"t": "cls", "req": bool} | {"t": "listdc", "children": {...}} | {"t": "dict"}"""
    def kids(depth, allow):
        out = {}
        for n in rnd.sample(NAMES, rnd.randint(1, 3)):
            r = rnd.random()
            if depth < 2 and r < 0.25 and "group" in allow:
                out[n] = {"t": "group", "children": kids(depth + 1, ("group", "dc"))}
            elif depth < 2 and r < 0.45 and "dc" in allow:
                out[n] = {"t": "dc", "children": kids(depth + 1, ("dc",))}
            elif r < 0.55 and "cls" in allow:
                out[n] = {"t": "cls", "req": rnd.random() < 0.5}
            elif r < 0.65 and "listdc" in allow:
                out[n] = {"t": "listdc", "children": kids(2, ())}
            elif r < 0.72 and "dict" in allow:
                out[n] = {"t": "dict"}
            else:
                out[n] = {"t": "leaf", "req": rnd.random() < 0.4, "str": rnd.random() < 0.3}
            if n.startswith("_") and out[n]["t"] == "leaf" and "group" not in allow:
                out[n]["req"] = True   # in a signature an OPTIONAL parameter named _x is private (not offered): only required ones are keys
            elif n.startswith("_") and out[n]["t"] != "leaf":
                out[n] = {"t": "leaf", "req": True, "str": False}
        return out

    tree = {"children": kids(0, ("group", "dc", "cls", "listdc", "dict")), "subs": None}
    if rnd.random() < 0.5:
        free = [n for n in NAMES if n not in tree["children"]]
        tree["subs"] = [[n, {"children": kids(1, ("group",))}] for n in rnd.sample(free, rnd.randint(1, min(3, len(free))))]
    return tree


def shape_nodes_of(tree):
    nodes = []

    def walk(path, node):
        t = node["t"]
        base = {"path": path, "req": False, "of": [], "req_of": [], "ord": 0}
        if t == "leaf":
            nodes.append({**base, "kind": "leaf", "req": node["req"]})
        elif t in ("group", "dc"):
            nodes.append({**base, "kind": "ns"})
            for n, c in node["children"].items():
                walk(path + [n], c)
        elif t == "cls":
            nodes.append({**base, "kind": "cls", "req": node["req"], **SHAPE_EXTRA["model"]})
        elif t == "listdc":
            nodes.append({**base, "kind": "list"})
            nodes.append({**base, "path": path + ["#"], "kind": "ns"})
            for n, c in node["children"].items():
                walk(path + ["#", n], c)
        elif t == "dict":
            nodes.append({**base, "kind": "dict"})

    for n, c in tree["children"].items():
        walk([n], c)
    if tree["subs"]:
        nodes.append({"path": ["subcommand"], "kind": "leaf", "req": True, "of": [], "req_of": [], "ord": 0})
        for k, (n, sec) in enumerate(tree["subs"]):
            nodes.append({"path": [n], "kind": "sec", "req": False, "of": [], "req_of": [], "ord": k + 1})
            for cn, c in sec["children"].items():
                walk([n, cn], c)
    return nodes


def build_random(tree):
    import dataclasses
    from typing import Dict, List

    from jsonargparse import ActionConfigFile, ArgumentParser

    m = make_module()

    def dc_of(children, name):
        req, opt = [], []
        for n, c in children.items():
            if c["t"] == "dc":
                req.append((n, dc_of(c["children"], name + "_" + n)))
            elif c["req"]:
                req.append((n, str if c["str"] else int))
            else:
                opt.append((n, str if c["str"] else int, dataclasses.field(default="s" if c["str"] else 1)))
        cls = dataclasses.make_dataclass("DC_" + name, req + opt)
        cls.__module__ = "verif_c06mod"
        setattr(m, cls.__name__, cls)
        return cls

    def add(parser, prefix, children):
        for n, c in children.items():
            key = f"{prefix}.{n}" if prefix else n
            t = c["t"]
            if t == "leaf":
                kw = {"required": True} if c["req"] else {"default": "s" if c["str"] else 1}
                parser.add_argument("--" + key, type=str if c["str"] else int, **kw)
            elif t == "group":
                add(parser, key, c["children"])
            elif t == "dc":
                parser.add_argument("--" + key, type=dc_of(c["children"], key.replace(".", "_")))
            elif t == "cls":
                kw = {"required": True} if c["req"] else {"default": None}
                from typing import Optional

                how = sum(map(ord, key)) % 3
                if how == 0 or "." in key and how == 1:
                    parser.add_argument("--" + key, type=m.Base if c["req"] else Optional[m.Base], **kw)
                else:
                    parser.add_subclass_arguments(m.Base, key, required=c["req"], as_group=(how == 1))
            elif t == "listdc":
                parser.add_argument("--" + key, type=List[dc_of(c["children"], key.replace(".", "_"))], default=[])
            elif t == "dict":
                parser.add_argument("--" + key, type=Dict[str, int], default={})

    p = ArgumentParser(exit_on_error=False, env_prefix="APP")
    p.add_argument("--cfg", action=ActionConfigFile)
    add(p, "", tree["children"])
    if tree["subs"]:
        sc = p.add_subcommands(required=True)
        for n, sec in tree["subs"]:
            sp = ArgumentParser(exit_on_error=False)
            add(sp, "", sec["children"])
            sc.add_subcommand(n, sp)
    return p


def random_config(rnd, tree, nodes):
    """a valid configuration of the shape (abstract entries) and 0-2 mutations of it"""
    by = {tuple(n["path"]): n for n in nodes}
    cfg = []
    chosen = None
    if tree["subs"]:
        chosen = rnd.choice(tree["subs"])[0]
        if rnd.random() < 0.8:
            cfg.append({"p": ["subcommand"], "v": chosen})
    items = set()
    for path, n in by.items():
        if n["kind"] == "list" and rnd.random() < 0.6:
            items.add(path)
    for path, n in by.items():
        if path and path[0] in [s[0] for s in (tree["subs"] or [])] and path[0] != chosen:
            continue
        if any(path[: i + 1] in by and by[path[: i + 1]]["kind"] == "list" and path[: i + 1] not in items for i in range(len(path))):
            continue
        if n["kind"] == "leaf" and path != ("subcommand",):
            if n["req"] or rnd.random() < 0.4:
                cfg.append({"p": list(path), "v": "1"})
        elif n["kind"] == "cls" and (n["req"] or rnd.random() < 0.5):
            cls = rnd.choice(["Sub", "Other"])
            cfg.append({"p": list(path) + ["class_path"], "v": cls})
            cfg.append({"p": list(path) + ["init_args", "arg"], "v": "1"})
        elif n["kind"] == "dict" and rnd.random() < 0.5:
            cfg.append({"p": list(path) + [rnd.choice(["k1", "zzq", "any"])], "v": "1"})
    if tree["subs"] and not any(e["p"][0] == chosen for e in cfg) and not any(e["p"] == ["subcommand"] for e in cfg):
        cfg.append({"p": ["subcommand"], "v": chosen})
    # an item that exists needs an entry
    for it in items:
        if not any(tuple(e["p"][: len(it) + 1]) == it + ("#",) for e in cfg):
            leaves = [p for p in by if p[: len(it) + 1] == it + ("#",) and by[p]["kind"] == "leaf"]
            if leaves:
                cfg.append({"p": list(leaves[0]), "v": "1"})
    muts = []
    for _ in range(rnd.choice([0, 1, 1, 2])):
        if rnd.random() < 0.6:
            containers = [()] + [p for p, n in by.items() if n["kind"] in ("ns", "sec") and (any(tuple(e["p"][: len(p)]) == p for e in cfg) or n["kind"] == "sec")
                                 and "#" not in p[:-1] or (n["kind"] == "ns" and p[-1:] == ("#",) and p[:-1] in items)]
            containers += [p + ("init_args",) for p, n in by.items() if n["kind"] == "cls" and any(tuple(e["p"][: len(p)]) == p for e in cfg)]
            pos = rnd.choice(containers)
            sibs = [q[-1] for q in by if q[: len(pos)] == pos and len(q) == len(pos) + 1]
            name = rnd.choice([["zzq"], ["zzq+"], ["zzq", "deep"], ["Zzq"], [rnd.choice(sibs) + "x"] if sibs else ["zzq"], ["__note__"], ["_zz"], ["__comment__", "deep"]])
            cfg = [e for e in cfg if e["p"] != list(pos) + name] + [{"p": list(pos) + name, "v": "1"}]
            muts.append(["foreign", list(pos), name])
        else:
            req = [e["p"] for e in cfg if tuple(e["p"]) in by and by[tuple(e["p"])]["kind"] == "leaf" and by[tuple(e["p"])]["req"] and e["p"] != ["subcommand"]]
            if not req:
                continue
            r = rnd.choice(req)
            kind = rnd.choice(["remove", "null"])
            cfg = [e for e in cfg if e["p"] != r]
            if kind == "null":
                cfg.append({"p": r, "v": "null"})
            muts.append([kind, r])
    return cfg, muts


def run_random_shape(case):
    from jsonargparse import ArgumentError

    warnings.simplefilter("ignore")
    make_module()
    strpaths = set()

    def collect(path, children):
        for n, c in children.items():
            if c["t"] == "leaf" and c["str"]:
                strpaths.add(tuple(path + [n]))
            elif "children" in c:
                collect(path + [n], c["children"])

    collect([], case["tree"]["children"])
    for n, sec in case["tree"]["subs"] or []:
        collect([n], sec["children"])
    obj = nested(case["cfg"], strpaths)
    tmp = tempfile.mkdtemp(prefix="verif-val2-")
    outs = []
    try:
        for ch in ("object_nested", "string", "cfgfile", "object_nodefaults", "string_nodefaults"):
            p = build_random(case["tree"])
            call = None
            try:
                if ch == "object_nested":
                    call = copy.deepcopy(obj)
                    p.parse_object(copy.deepcopy(obj))
                elif ch == "string":
                    call = json.dumps(obj)
                    p.parse_string(call)
                elif ch == "object_nodefaults":
                    call = copy.deepcopy(obj)
                    p.parse_object(copy.deepcopy(obj), defaults=False)
                elif ch == "string_nodefaults":
                    call = json.dumps(obj)
                    p.parse_string(call, defaults=False)
                else:
                    f = os.path.join(tmp, "c.json")
                    with open(f, "w") as fh:
                        json.dump(obj, fh)
                    call = ["--cfg", f]
                    p.parse_args(call)
                outs.append({"ch": ch, "out": "ok", "msg": "", "call": repr(call)[:400]})
            except ArgumentError as ex:
                outs.append({"ch": ch, "out": "err", "msg": str(ex)[:600], "call": repr(call)[:400]})
            except SystemExit as ex:
                outs.append({"ch": ch, "out": "err", "msg": f"exit {ex.code}", "call": repr(call)[:400], "escaped": "SystemExit"})
            except Exception as ex:
                outs.append({"ch": ch, "out": "err", "msg": f"{type(ex).__name__}: {ex}"[:300], "call": repr(call)[:400], "escaped": type(ex).__name__})
        return outs
    finally:
        shutil.rmtree(tmp, ignore_errors=True)


def foreign_free(cfg, shape_paths):
    """can the environment express this configuration? (no key outside the declared leaves / dict items / class spec)"""
    for e in cfg:
        p = e["p"]
        if p[0] in ("d", "model", "model2", "items"):
            return False  # typed arguments would need a JSON variable; covered by the other channels
        if tuple(p) not in shape_paths:
            return False
    return True


def main(argv):
    tier = "thorough" if (argv and argv[0] == "thorough") else "quick"
    rep = Report(PID, tier)
    rnd = common.rng(PID)
    rep.assumptions = [
        "one rich parser shape (the grammar of node kinds: required leaf, dotted groups, dataclass, nested dataclass, subclass argument, List[dataclass], Dict, sub-commands), not all shapes",
        "the environment channel only carries configurations it can express (an unknown variable is never looked at)",
        "a rejection must contain the offending key's last component as a substring of the message (wording is not compared)",
        "gamma renders '#' as the first list item and class names as import paths of a generated module",
        "links: one family of parsers (class group / add_subclass_arguments / add_argument(type=), links on parse or instantiate onto a plain option, a class parameter, "
        "a parameter below a required class-typed parameter); configurations never WRITE a link target (overriding a computed key is outside the property)",
    ]
    mc = tlc.run("MC_Validate", "MC_Validate", workers=16, timeout=1200, heap="8g")
    rep.add_tlc("MC_Validate", mc)
    if mc.errors:
        if mc.violated:
            rep.violation("model:" + ",".join(mc.violated), f"TLC: {mc.violated} violated in MC_Validate", {"tlc_errors": mc.errors, "counterexample": mc.cex[:4000]})
            return rep.finish()
        machinery_failure(PID, "TLC failed on MC_Validate:\n" + mc.stdout[-3000:])
    shape_nodes = [p for p in mc.printed if isinstance(p, dict) and "shape" in p][0]["shape"]
    for n in shape_nodes:
        extra = SHAPE_EXTRA.get(".".join(n["path"]), {})
        n["of"], n["req_of"] = extra.get("of", []), extra.get("req_of", [])
    shape_paths = {tuple(n["path"]) for n in shape_nodes if n["kind"] == "leaf"}
    emitted = [p for p in mc.printed if isinstance(p, dict) and "mut" in p]
    if len(emitted) != mc.distinct:
        machinery_failure(PID, f"emitted {len(emitted)} cases for {mc.distinct} states")
    emitted.sort(key=lambda c: json.dumps([c["base"], c["mut"]], sort_keys=True))
    known_names = {n["path"][-1] for n in shape_nodes} | {"arg", "bval", "sval", "cval", "class_path", "init_args", "dict_kwargs", "print_config", "help"}

    def abbrev(names):
        return any(any(k.startswith(n.rstrip("+")) and k != n for k in known_names) for n in names)

    cases = [{"abbrev": c["mut"]["kind"] == "foreign" and abbrev(c["mut"]["n"][:1]), "cfg": c["cfg"], "foreign_free": c["mut"]["kind"] in ("none", "remove", "null") and foreign_free(c["cfg"], shape_paths), "ref": c["ref"], "alg": c["alg"],
              "dev": c["dev"], "devkind": c["devkind"], "mut": c["mut"], "base": c["base"]} for c in emitted]
    results = pipeline.run_many(run_case, cases, chunksize=4)
    nparse = 0
    for c, outs in zip(cases, results):
        rep.traces += 1
        if c["mut"]["kind"] != "none":
            rep.note_nontrivial(json.dumps([c["base"], c["mut"]], sort_keys=True))
        for o in outs:
            nparse += 1
            case = {"base": c["base"], "mutation": c["mut"], "channel": o["ch"], "call": o["call"], "observed": o["out"], "message": o["msg"], "expected": c["ref"]}
            if o.get("escaped"):
                rep.violation(f"escaped:{o['escaped']}:{o['ch']}", f"{o['escaped']} escaped instead of ArgumentError", case)
                continue
            if o["out"] != c["ref"]:
                if c["dev"] and o["out"] == c["alg"]:
                    if c["devkind"] == "emptymap":
                        rep.violation("foreign-key:empty-mapping-dropped", DEV2, case)
                    else:
                        rep.violation("non-chosen-section:foreign-key-dropped", DEV, case)
                else:
                    pos = ".".join(c["mut"]["p"]) or "root"
                    rep.violation(f"{o['ch']}:{c['mut']['kind']}:{pos}:{'.'.join(c['mut']['n'])}:{'silently-accepted' if o['out'] == 'ok' else 'rejected-valid'}",
                                  ("a mutated configuration was accepted" if o["out"] == "ok" else "a valid configuration was rejected") + f" ({o['msg'][:120]})", case)
            elif o["out"] == "err" and c["mut"]["kind"] in ("foreign", "foreign-empty", "remove", "null"):
                leaf = (c["mut"]["n"][-1] if c["mut"]["kind"].startswith("foreign") else c["mut"]["p"][-1]).rstrip("+")
                if c["mut"]["kind"].startswith("foreign") and len(c["mut"]["n"]) > 1:
                    leaf = c["mut"]["n"][0]
                if leaf == "class_path":
                    leaf = "model"
                if leaf not in o["msg"] and not (not c["mut"]["kind"].startswith("foreign") and c["mut"]["p"][0] in o["msg"]):
                    rep.violation(f"message:{o['ch']}:{c['mut']['kind']}:{'.'.join(c['mut']['p']) or 'root'}", f"the rejection does not name the offending key '{leaf}': {o['msg'][:160]}", case)
        if rep.traces % 97 == 1:
            rep.sample({"base": c["base"], "mutation": c["mut"], "expected": c["ref"], "calls": [{"ch": o["ch"], "call": o["call"][:200], "out": o["out"], "msg": o["msg"][:100]} for o in outs[:3]]})
    rep.extra["model_cases"] = len(cases)
    rep.extra["model_parses"] = nparse

    # ---- extension (round 4): argument links x required keys (ValLinks.tla); placed before the long random part
    lk = c06_links.run(rep, tier, common.rng(PID + "-links"))

    # ---- TRACE
    ntr = 1500 if tier == "quick" else 20000
    rcases = []
    for _ in range(ntr):
        rc = random_case(rnd, shape_paths)
        rc["foreign_free"] = foreign_free(rc["cfg"], shape_paths)
        rc["abbrev"] = any(m[0] == "foreign" and abbrev(m[2][:1]) for m in rc["muts"])
        rcases.append(rc)
    rres = pipeline.run_many(run_case, rcases, chunksize=4)
    # random SHAPES: every case brings its own parser shape
    nsh = 250 if tier == "quick" else 3000
    shapes2, scases = [], []
    for k in range(nsh):
        tree = random_shape(rnd)
        nodes = shape_nodes_of(tree)
        shapes2.append(nodes)
        for _ in range(4):
            cfg, muts = random_config(rnd, tree, nodes)
            scases.append({"tree": tree, "shape": len(shapes2) + 1, "cfg": cfg, "muts": muts})
    sres = pipeline.run_many(run_random_shape, scases, chunksize=8)
    tmp = common.scratch("c06")
    try:
        f = tmp / "cases.json"
        f.write_text(json.dumps({"shapes": [shape_nodes] + shapes2,
                                 "cases": [{"shape": 1, "cfg": c["cfg"], "outs": [{"ch": o["ch"], "out": o["out"]} for o in outs]} for c, outs in zip(rcases, rres)]
                                 + [{"shape": c["shape"], "cfg": c["cfg"], "outs": [{"ch": o["ch"], "out": o["out"]} for o in outs]} for c, outs in zip(scases, sres)]}))
        tr = tlc.run("Trace_Validate", "Trace_Validate", workers=16, env={"TRACE_FILE": str(f)}, timeout=2400, heap="8g")
        rep.add_tlc("Trace_Validate", tr)
        if tr.errors or tr.distinct != len(rcases) + len(scases):
            machinery_failure(PID, f"trace validation failed (distinct={tr.distinct}, expected {len(rcases) + len(scases)}):\n" + tr.stdout[-3000:])
        allc, allr = rcases + scases, rres + sres
        for p in tr.printed:
            if isinstance(p, list) and p and p[0] == "R":
                c, outs = allc[p[1] - 1], allr[p[1] - 1]
                o = outs[p[2] - 1]
                case = {"cfg": c["cfg"], "mutations": c["muts"], "channel": o["ch"], "call": o["call"], "observed": o["out"], "message": o["msg"], "clause": p[3]}
                if "tree" in c:
                    case["shape_tree"] = c["tree"]
                if p[3] == "ref-dev-as-alg:emptymap":
                    rep.violation("foreign-key:empty-mapping-dropped", DEV2, case)
                elif p[3].startswith("ref-dev-as-alg"):
                    rep.violation("non-chosen-section:foreign-key-dropped", DEV, case)
                elif p[3] == "ref":
                    rep.violation(f"random{'-shape' if 'tree' in c else ''}:{o['ch']}:{'silently-accepted' if o['out'] == 'ok' else 'rejected-valid'}:{_mutkey(c['muts']) if 'tree' not in c else _mutkinds(c)}",
                                  ("a mutated configuration was accepted" if o["out"] == "ok" else "a configuration that the reference accepts was rejected") + f" ({o['msg'][:120]})", case)
                else:
                    rep.add_drift("random: real = Ref but not Alg", case)
        for c, outs in zip(rcases + scases, rres + sres):
            for o in outs:
                if o.get("escaped"):
                    rep.violation(f"escaped:{o['escaped']}:{o['ch']}", f"{o['escaped']} escaped instead of ArgumentError", {"cfg": c["cfg"], "channel": o["ch"], "call": o["call"], "message": o["msg"]})
        rep.traces += len(rcases) + len(scases)
        rep.extra["random_parses"] = sum(len(o) for o in rres) + sum(len(o) for o in sres)
        rep.extra["random_shapes"] = len(shapes2)
        for c in scases:
            if c["muts"]:
                rep.note_nontrivial(json.dumps([c["tree"], c["cfg"]], sort_keys=True))
        rep.sample({"random_shape": scases[0]["tree"], "cfg": scases[0]["cfg"], "mutations": scases[0]["muts"], "outs": [{"ch": o["ch"], "out": o["out"]} for o in sres[0]]})
        for c in rcases:
            if c["muts"]:
                rep.note_nontrivial(json.dumps(c["cfg"], sort_keys=True))
        rep.sample({"random_cfg": rcases[0]["cfg"], "mutations": rcases[0]["muts"], "outs": [{"ch": o["ch"], "out": o["out"]} for o in rres[0]]})
    finally:
        common.rm(tmp)
    rep.evaluations = nparse + rep.extra["random_parses"] + lk.get("parses", 0) + lk.get("random_parses", 0)
    rep.rule = ("cases = (valid configuration, mutation) pairs, each parsed through up to 6 channels; non-trivial & distinct = distinct pairs with a real mutation "
                "(a foreign key somewhere or a required key removed / nulled)")
    rep.exhaustive = False
    rep.explanation = (f"all {len(cases)} (configuration, mutation) pairs of MC_Validate x channels ({nparse} parses) compared with TLC's outcome, rejections checked to name the key; "
                       f"{len(rcases)} random configurations of that shape and {len(scases)} configurations over {len(shapes2)} random parser shapes, each with 0-2 mutations "
                       f"({rep.extra['random_parses']} parses), validated by TLC against Trace_Validate; links x required keys: all {lk.get('cases', 0)} "
                       f"(parser variant with link_arguments, one omission or one foreign key) pairs of MC_ValLinks x channels ({lk.get('parses', 0)} parses) compared with TLC's outcome, "
                       f"{lk.get('random', 0)} random variants / configurations with 0-3 omissions ({lk.get('random_parses', 0)} parses) validated by TLC against Trace_ValLinks")
    return rep.finish()


def _mutkinds(c):
    """for random shapes: the mutation kinds and the node kind at the position (names are random)"""
    out = []
    nodes = {tuple(n["path"]): n["kind"] for n in shape_nodes_of(c["tree"])}
    for m in c["muts"]:
        pos = tuple(m[1]) if m[0] == "foreign" else tuple(m[1][:-1])
        kind = "root" if not pos else nodes.get(pos, "init_args" if pos and pos[-1] == "init_args" else "?")
        out.append(f"{m[0]}@{kind}" + (":" + ("plus" if m[2][-1].endswith("+") else "dotted" if len(m[2]) > 1 else "name") if m[0] == "foreign" else ""))
    return "+".join(sorted(out)) or "none"


def _mutkey(muts):
    return "+".join(f"{m[0]}@{'.'.join(m[1]) or 'root'}" + (":" + ".".join(m[2]) if len(m) > 2 else "") for m in muts) or "none"


if __name__ == "__main__":
    args = sys.argv[1:]
    if args and args[0] == "--replay":
        print(open(args[1]).read())
        sys.exit(0)
    sys.exit(main(args))
