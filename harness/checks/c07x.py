"""C07, round 4 — concretisation of GroupsX.tla on the real jsonargparse (helper of c07.py).

Abstract (GroupsX.tla)                         real
  field [name, kind, hasdef, gdef]             one member of group g, declared in four styles (build_x)
  typed value <<typecode, payload...>>         alpha(): Python value AND type -> that list
  raw <<rawcode, ...>>                         concrete(): what is written on the command line / in JSON / in a variable
  item set / group / gfile                     --g.f=<raw> | --g=<json mapping> | --g <file.json>  (and the nested mapping / variables)
  channel argv cfg env obj defaults            parse_args / parse_string or parse_path / parse_env / parse_object / get_defaults
"""
from __future__ import annotations

import dataclasses
import enum
import json
import os
import warnings
from typing import List, Optional, Tuple

NONE, UNSET = 99999, 88888
STYLES = ["dotted", "dataclass", "class", "inner"]
MOD = __name__


class Col(enum.Enum):
    red = 1
    blue = 2


class Base:
    def __init__(self, w: int = 1):
        pass


class Sub(Base):
    def __init__(self, w: int = 1, z: int = 2):
        pass


CLASSES = {1: Base, 2: Sub}
HINT = {"int": int, "float": float, "str": str, "list": List[int], "tuple": Tuple[float, float], "enum": Col, "oint": Optional[int], "ostr": Optional[str], "sub": Base}
HINT_SRC = {"int": "int", "float": "float", "str": "str", "list": "List[int]", "tuple": "Tuple[float, float]", "enum": "Col", "oint": "Optional[int]", "ostr": "Optional[str]", "sub": "Base"}
OPTIONAL = ("oint", "ostr")


def of_kind(kind, n):
    """the value 'n of the field's type' used for declared (7) and group (8) defaults"""
    return {"int": n, "oint": n, "float": float(n), "str": f"s{n}", "ostr": f"s{n}", "list": [n], "tuple": (float(n), float(n)),
            "enum": Col.red if n == 7 else Col.blue}[kind]


def declared(fd):
    return of_kind(fd["kind"], 7)


def gdefault(fd):
    return None if fd["gdef"] == "none" else of_kind(fd["kind"], 8)


def required(fd):
    return not fd["hasdef"] and fd["kind"] not in OPTIONAL


def ordered(fields):
    """one declaration order for every style: top-level entries without default first (a signature needs that); the members
    of the nested group h stay together (h has no default: it always contains the required h.x), required first"""
    def entry(fd):
        return fd["name"].split(".")[0]

    def nodef(e):
        return e == "h" or any(entry(fd) == e and not fd["hasdef"] for fd in fields)

    entries = []
    for fd in fields:
        if entry(fd) not in entries:
            entries.append(entry(fd))
    entries.sort(key=lambda e: not nodef(e))
    out = []
    for e in entries:
        out += sorted([fd for fd in fields if entry(fd) == e], key=lambda fd: fd["hasdef"])
    return out


def _dc_field(fd, name):
    if not fd["hasdef"]:
        return (name, HINT[fd["kind"]])
    d = declared(fd)
    if isinstance(d, list):
        return (name, HINT[fd["kind"]], dataclasses.field(default_factory=lambda d=d: list(d)))
    return (name, HINT[fd["kind"]], dataclasses.field(default=d))


def _nested_dataclass(fields):
    hs = [fd for fd in fields if fd["name"].startswith("h.")]
    if not hs:
        return None
    H = dataclasses.make_dataclass("H", [_dc_field(fd, fd["name"][2:]) for fd in hs])
    H.__module__ = MOD
    return H


def build_x(style, fields, variant):
    """the group g declared in `style`; variant picks HOW the group default is given (see GroupsX.tla, Alg)"""
    from jsonargparse import ActionParser, ArgumentParser

    fields = ordered(fields)
    given = {fd["name"]: gdefault(fd) for fd in fields if fd["gdef"] != "absent"}
    late = variant % 2 == 1            # the group default is given afterwards with set_defaults on the outer parser
    p = ArgumentParser(exit_on_error=False, env_prefix="APP")

    def add_member(parser, prefix, fd, direct):
        name = "--" + prefix + fd["name"]
        if fd["kind"] == "sub" and variant % 3 != 1:
            parser.add_subclass_arguments(Base, prefix + fd["name"], required=True)
        elif direct and fd["name"] in given:
            parser.add_argument(name, type=HINT[fd["kind"]], default=given[fd["name"]])
        elif required(fd) and not (fd["name"] in given):
            parser.add_argument(name, type=HINT[fd["kind"]], required=True)
        elif required(fd):
            parser.add_argument(name, type=HINT[fd["kind"]])          # gets its default from set_defaults below
        else:
            parser.add_argument(name, type=HINT[fd["kind"]], default=(declared(fd) if fd["hasdef"] else None))

    if style == "dotted":
        for fd in fields:
            add_member(p, "g.", fd, direct=not late)
        if late and given:
            p.set_defaults({"g." + k: v for k, v in given.items()})
    elif style == "inner":
        inner = ArgumentParser(exit_on_error=False)
        mode = variant % 4             # 0: default= of the argument, 2: inner.set_defaults, 1/3: outer set_defaults
        nested = [fd for fd in fields if fd["name"].startswith("h.")]
        if nested and variant % 5 < 2:  # the second level is an inner parser of the inner parser
            hp = ArgumentParser(exit_on_error=False)
            for fd in nested:
                add_member(hp, "", dict(fd, name=fd["name"][2:]), direct=False)
            done = False
            for fd in fields:
                if fd in nested:
                    if not done:
                        inner.add_argument("--h", action=ActionParser(parser=hp))
                        done = True
                else:
                    add_member(inner, "", fd, direct=(mode == 0))
        else:
            for fd in fields:
                add_member(inner, "", fd, direct=(mode == 0))
        if mode == 2 and given:
            inner.set_defaults(dict(given))
        p.add_argument("--g", action=ActionParser(parser=inner))
        if mode in (1, 3) and given:
            p.set_defaults({"g." + k: v for k, v in given.items()})
    elif style == "dataclass":
        H = _nested_dataclass(fields)
        spec, seen_h = [], False
        for fd in fields:
            if fd["name"].startswith("h."):
                if not seen_h:
                    spec.append(("h", H))
                    seen_h = True
            else:
                spec.append(_dc_field(fd, fd["name"]))
        G = dataclasses.make_dataclass("G", spec)
        G.__module__ = MOD
        complete = H is None and all(fd["hasdef"] or fd["name"] in given for fd in fields)
        if given and complete and not late:
            p.add_argument("--g", type=G, default=G(**given))           # a default INSTANCE: fields not given keep the declared default
        else:
            p.add_argument("--g", type=G)
            if given:
                p.set_defaults({"g." + k: v for k, v in given.items()})
    elif style == "class":
        H = _nested_dataclass(fields)
        ns = {"List": List, "Optional": Optional, "Tuple": Tuple, "Col": Col, "Base": Base, "H": H}
        params, seen_h = [], False
        for fd in fields:
            if fd["name"].startswith("h."):
                if not seen_h:
                    params.append("h: H")
                    seen_h = True
                continue
            if fd["hasdef"]:
                ns["_d_" + fd["name"]] = declared(fd)
                params.append(f"{fd['name']}: {HINT_SRC[fd['kind']]} = _d_{fd['name']}")
            else:
                params.append(f"{fd['name']}: {HINT_SRC[fd['kind']]}")
        src = "class K:\n    def __init__(self, " + ", ".join(params) + "):\n        pass\n"
        exec(compile(src, "<generated class K>", "exec", dont_inherit=True), ns)
        K = ns["K"]
        K.__module__ = MOD
        if given and not late:
            p.add_class_arguments(K, "g", default=dict(given))
        else:
            p.add_class_arguments(K, "g")
            if given:
                p.set_defaults({"g." + k: v for k, v in given.items()})
    return p


# ---------------------------------------------------------------- raw -> concrete, value -> typed list
def concrete(raw):
    """the JSON-level value of a raw form"""
    c = raw[0]
    if c == 21:
        return raw[1]
    if c == 22:
        return str(raw[1])
    if c == 23:
        return [raw[1], raw[2]]
    if c == 24:
        return Col(raw[1]).name
    if c == 25:
        return f"{MOD}.{CLASSES[raw[1]].__name__}"
    if c == 26:
        return {"class_path": f"{MOD}.{CLASSES[raw[1]].__name__}", "init_args": {"z": raw[2]}}
    if c == 27:
        return f"s{raw[1]}"
    if c == 28:
        return "xx"
    if c == 29:
        return None
    raise ValueError(raw)


def text(raw):
    """what a user types after --g.f= / puts into a variable"""
    v = concrete(raw)
    return v if isinstance(v, str) else json.dumps(v)


def alpha(x):
    from jsonargparse import Namespace

    if x is None:
        return [NONE]
    if type(x) is int:
        return [1, x]
    if type(x) is float and x == int(x):
        return [2, int(x)]
    if type(x) is str and x[:1] == "s" and x[1:].isdigit():
        return [3, int(x[1:])]
    if type(x) is list and all(type(e) is int for e in x):
        return [4] + list(x)
    if type(x) is tuple and all(type(e) is float and e == int(e) for e in x):
        return [5] + [int(e) for e in x]
    if type(x) is Col:
        return [6, x.value]
    if isinstance(x, Namespace) and "class_path" in x:
        idx = {f"{MOD}.Base": 1, f"{MOD}.Sub": 2}.get(x["class_path"], -1)
        ia = x.get("init_args")
        ia = ia.as_dict() if isinstance(ia, Namespace) else {}
        if idx == -1 or any(type(v) is not int for v in ia.values()) or list(ia) != ["w", "z"][:idx]:
            return [-3, -3]
        return [7, idx] + [ia[k] for k in ["w", "z"][:idx]]
    return [-1, -1, -1]


def nest(pairs):
    root: dict = {}
    for name, v in pairs:
        cur = root
        parts = name.split(".")
        for part in parts[:-1]:
            cur = cur.setdefault(part, {})
        cur[parts[-1]] = v
    return root


def render_x(chan, items, variant, tmpdir):
    def gmap(it):
        return nest([(f, concrete(r)) for f, r in it["gv"]])

    if chan == "argv":
        argv = []
        for n, it in enumerate(items):
            if it["op"] == "set":
                argv.append(f"--g.{it['f']}=" + text(it["raw"]))
            elif it["op"] == "group":
                argv.append("--g=" + json.dumps(gmap(it)))
            else:
                fn = os.path.join(tmpdir, f"g{n}.json")
                with open(fn, "w") as fh:
                    json.dump(gmap(it), fh)
                argv += ["--g", fn]
        return argv
    if chan == "env":
        env = {}
        for it in items:
            if it["op"] == "set":
                env["APP_G__" + it["f"].upper().replace(".", "__")] = text(it["raw"])
            else:
                env["APP_G"] = json.dumps(gmap(it))
        return env
    root: dict = {}
    for it in items:
        pairs = [(it["f"], concrete(it["raw"]))] if it["op"] == "set" else [(f, concrete(r)) for f, r in it["gv"]]
        for name, v in pairs:
            if variant % 2 == 1 and all(x["op"] == "set" for x in items):
                root["g." + name] = v              # one spelling per document: all dotted or all nested
            else:
                cur = root.setdefault("g", {})
                parts = name.split(".")
                for part in parts[:-1]:
                    cur = cur.setdefault(part, {})
                cur[parts[-1]] = v
    return root


def observe(p, cfg, names):
    from jsonargparse import Namespace

    g = cfg.get("g")
    if g is not None and not isinstance(g, Namespace):
        return {f: [-2] for f in names}
    return {f: (alpha(g.get(f)) if g is not None and f in g else [UNSET]) for f in names}


def run_case_x(case):
    import shutil
    import tempfile

    from jsonargparse import ArgumentError

    warnings.simplefilter("ignore")
    fields, chan, items, variant = case["fields"], case["chan"], case["items"], case["variant"]
    names = [fd["name"] for fd in fields]
    tmpdir = tempfile.mkdtemp(prefix="c07x_")
    saved = dict(os.environ)
    outs = []
    try:
        payload = render_x(chan, items, variant, tmpdir)
        for k in list(os.environ):
            if k.startswith("APP_") or (k.startswith("JSONARGPARSE_") and k != "JSONARGPARSE_VERIF"):
                del os.environ[k]
        for style in STYLES:
            try:
                p = build_x(style, fields, variant)
            except Exception as ex:
                outs.append({"style": style, "ok": False, "cfg": None, "escaped": "build:" + type(ex).__name__, "msg": str(ex)[:300]})
                continue
            try:
                if chan == "argv":
                    cfg = p.parse_args(list(payload))
                elif chan == "env":
                    cfg = p.parse_env(dict(payload))
                elif chan == "cfg":
                    if variant % 3 == 2:
                        fn = os.path.join(tmpdir, "cfg.json")
                        with open(fn, "w") as fh:
                            json.dump(payload, fh)
                        cfg = p.parse_path(fn)
                    else:
                        cfg = p.parse_string(json.dumps(payload))
                elif chan == "obj":
                    cfg = p.parse_object(json.loads(json.dumps(payload)))
                else:
                    cfg = p.get_defaults()
                got = observe(p, cfg, names)
                out = {"style": style, "ok": True, "cfg": got}
                if chan != "defaults":
                    dump = p.dump(cfg, skip_none=False)
                    out["dump"] = dump
                    try:
                        out["reparse"] = observe(p, p.parse_string(dump), names)      # dump / re-parse: the same values again
                    except ArgumentError as ex:
                        out["reparse"] = {"rejected": str(ex)[:200]}
                outs.append(out)
            except ArgumentError as ex:
                outs.append({"style": style, "ok": False, "cfg": None, "msg": str(ex)[:200]})
            except SystemExit as ex:
                outs.append({"style": style, "ok": False, "cfg": None, "escaped": "SystemExit", "msg": f"exit {ex.code}"})
            except Exception as ex:
                outs.append({"style": style, "ok": False, "cfg": None, "escaped": type(ex).__name__, "msg": f"{type(ex).__name__}: {ex}"[:300]})
        return {"payload": repr(payload)[:400].replace(tmpdir, "<tmp>"), "outs": outs}
    finally:
        os.environ.clear()
        os.environ.update(saved)
        shutil.rmtree(tmpdir, ignore_errors=True)


# ---------------------------------------------------------------- random (beyond the bounds of MC_GroupsX)
KINDS = ["int", "float", "str", "list", "tuple", "enum", "oint", "ostr"]
NAMES = ["values", "keys", "items", "get", "update", "a", "b", "c", "name", "limit", "pop", "clone"]


def raws_of(kind, tag, rnd):
    if kind in ("int", "float"):
        return [21, tag]
    if kind == "str":
        return [27, tag]
    if kind in ("list", "tuple"):
        return [23, tag, tag + 1]
    if kind == "enum":
        return [24, rnd.choice([1, 2])]
    if kind == "oint":
        return rnd.choice([[21, tag], [22, tag], [29]])
    if kind == "ostr":
        return rnd.choice([[27, tag], [29]])
    return rnd.choice([[25, 1], [25, 2], [26, 2, tag]])


def random_case_x(rnd):
    nf = rnd.randint(1, 4)
    fields = []
    for n in rnd.sample(NAMES, nf):
        kind = rnd.choice(KINDS)
        hasdef = rnd.random() < 0.6
        gdef = rnd.choice(["absent", "absent", "val", "none" if kind in OPTIONAL else "val"])
        fields.append({"name": n, "kind": kind, "hasdef": hasdef, "gdef": gdef})
    r = rnd.random()
    if r < 0.35:
        fields.append({"name": "model", "kind": "sub", "hasdef": False, "gdef": "absent"})
    if 0.25 < r < 0.55:
        fields.append({"name": "h.x", "kind": "int", "hasdef": False, "gdef": "absent"})
        if r < 0.4:
            fields.append({"name": "h.y", "kind": "int", "hasdef": True, "gdef": "absent"})
    chan = rnd.choice(["argv", "argv", "cfg", "env", "obj", "defaults"])
    items = []
    if chan == "defaults":
        return {"fields": fields, "chan": chan, "items": items}
    used = set()
    for j in range(rnd.randint(0, 4)):
        tag = 10 * (j + 1)
        q = rnd.random()
        if q < 0.3:
            sub = rnd.sample(fields, rnd.randint(1, len(fields)))
            if chan != "argv" and (used & {s["name"] for s in sub}):
                continue
            if chan == "env" and any(x["op"] != "set" for x in items):
                continue
            op = "gfile" if (chan == "argv" and rnd.random() < 0.4) else "group"
            items.append({"op": op, "f": sub[0]["name"], "raw": [], "gv": [[s["name"], raws_of(s["kind"], tag, rnd)] for s in sub]})
            used |= {s["name"] for s in sub}
            continue
        fd = rnd.choice(fields)
        if chan != "argv" and fd["name"] in used:
            continue
        used.add(fd["name"])
        bad = fd["kind"] not in ("str", "ostr") and rnd.random() < 0.1
        items.append({"op": "set", "f": fd["name"], "raw": [28] if bad else raws_of(fd["kind"], tag, rnd), "gv": []})
    return {"fields": fields, "chan": chan, "items": items}


# ---------------------------------------------------------------- the phase run by c07.py
DEV = ("individually declared dotted arguments have no whole-group option / variable: --g={...} is rejected and APP_G is ignored, while the dataclass, "
       "class and inner-parser styles accept them")


def sig_x(c):
    return "+".join(sorted({fd["kind"] + ("" if fd["hasdef"] else "!") + {"absent": "", "val": "~v", "none": "~n"}[fd["gdef"]] for fd in c["fields"]})) \
        + ":" + "+".join(it["op"] + (str(it["raw"][0]) if it["op"] == "set" else "") for it in c["items"])


def family(c):
    names = {fd["name"] for fd in c["fields"]}
    if any(fd["gdef"] != "absent" for fd in c["fields"]):
        return "group-default"
    if "model" in names or any(n.startswith("h.") for n in names):
        return "required-member"
    return "named-conversion"


def _case_of(c, r, o=None):
    d = {"fields": c["fields"], "channel": c["chan"], "items": c["items"], "variant": c["variant"], "payload": r["payload"],
         "all": [{"style": x["style"], "ok": x["ok"], "cfg": x["cfg"], "msg": x.get("msg")} for x in r["outs"]]}
    if o is not None:
        d["style"] = o["style"]
        d["observed"] = {"ok": o["ok"], "cfg": o["cfg"], "msg": o.get("msg"), "reparse": o.get("reparse")}
    return d


def dumps_x(rep, c, r, prefix):
    texts = {o["style"]: o["dump"] for o in r["outs"] if o["ok"] and "dump" in o}
    if len(set(texts.values())) > 1 and len({json.dumps(o["cfg"], sort_keys=True) for o in r["outs"] if o["ok"]}) == 1:
        groups: dict = {}
        for sname, t in texts.items():
            groups.setdefault(t, []).append(sname)
        rep.violation(f"{prefix}x:dump-differs:" + "|".join("+".join(g) for g in sorted(groups.values())) + ":" + sig_x(c),
                      "the styles parse to the same values but serialise them differently", {"fields": c["fields"], "channel": c["chan"], "items": c["items"], "dumps": texts})


def judge_x(rep, c, r):
    ref, dotted, dev = c["ref"], c["dotted"], c["dev"]
    want = {"ok": ref["ok"], "cfg": ref["cfg"] if ref["ok"] else []}
    for o in r["outs"]:
        case = dict(_case_of(c, r, o), expected=ref)
        if o.get("escaped"):
            rep.violation(f"x:escaped:{o['escaped']}:{o['style']}:{family(c)}", f"{o['escaped']} escaped in style {o['style']}: {o.get('msg')}", case)
            continue
        seen = {"ok": o["ok"], "cfg": o["cfg"] if o["ok"] else []}
        if seen == want:
            if o["ok"] and "reparse" in o and o["reparse"] != ref["cfg"]:
                rep.violation(f"x:reparse:{o['style']}:{sig_x(c)}", f"dump + re-parse in style {o['style']} does not give the parsed values again: {o['reparse']}", case)
            continue
        if o["style"] == "dotted" and dev:
            rep.violation("dotted:no-whole-group", DEV, case)
            if seen != {"ok": dotted["ok"], "cfg": dotted["cfg"] if dotted["ok"] else []}:
                rep.add_drift("dotted style, whole-group value: real differs from the Alg prediction (argparse abbreviation of --g)", case)
        else:
            rep.violation(f"x:{family(c)}:{o['style']}:{c['chan']}:{'accepted' if o['ok'] else 'rejected'}:{sig_x(c)}",
                          f"style {o['style']} disagrees with the one reference outcome of GroupsX ({(o.get('msg') or '')[:100]})", case)
    dumps_x(rep, c, r, "")


def phase_x(rep, tier, rnd, pid):
    """MC_GroupsX -> replay on the four styles; random cases -> Trace_GroupsX.  Returns (number of parses, explanation)."""
    from ..lib import common, pipeline, tlc
    from ..lib.evidence import machinery_failure

    workers, heap = (4, "2g") if tier == "quick" else (16, "12g")      # the quick instances are small
    mc = tlc.run("MC_GroupsX", f"MC_GroupsX_{tier}", workers=workers, timeout=3000, heap=heap)
    rep.add_tlc(f"MC_GroupsX_{tier}", mc)
    if mc.errors:
        if mc.violated:
            rep.violation("model:" + ",".join(mc.violated), f"TLC: {mc.violated} violated in MC_GroupsX", {"tlc_errors": mc.errors, "counterexample": mc.cex[:4000]})
            return 0, "MC_GroupsX violated"
        machinery_failure(pid, "TLC failed on MC_GroupsX:\n" + mc.stdout[-3000:])
    emitted = [p for p in mc.printed if isinstance(p, dict) and "fields" in p]
    if not emitted:
        machinery_failure(pid, "MC_GroupsX emitted nothing")
    emitted.sort(key=lambda c: json.dumps([c["fields"], c["chan"], c["items"]], sort_keys=True))
    if tier == "quick":
        # the command line and get_defaults: every case; config string / environment / object: each (fields, items) combination
        # through ONE of the three, rotating with the combination's index and the seed (three seeds cover all of them)
        combos = {}
        for c in emitted:
            combos.setdefault(json.dumps([c["fields"], c["items"]], sort_keys=True), len(combos))
        off = rnd.randrange(3)
        rot = {"cfg": 0, "env": 1, "obj": 2}
        cases = [dict(c, variant=n) for n, c in enumerate(emitted)
                 if c["chan"] in ("argv", "defaults") or (combos[json.dumps([c["fields"], c["items"]], sort_keys=True)] + off) % 3 == rot[c["chan"]]]
        how = "argv / get_defaults: all; cfg / env / obj: one of the three per (fields, items), rotating with the seed"
    else:
        stride = 7
        off = rnd.randrange(stride)
        cases = [dict(c, variant=n) for n, c in enumerate(emitted) if n % stride == off]
        how = f"every {stride}th, seeded offset"
    results = pipeline.run_many(run_case_x, cases, chunksize=16)
    nparse = 0
    fam: dict = {}
    for n, (c, r) in enumerate(zip(cases, results)):
        rep.traces += 1
        fam[family(c)] = fam.get(family(c), 0) + 1
        if c["items"] or c["chan"] == "defaults":
            rep.note_nontrivial("x" + json.dumps([c["fields"], c["chan"], c["items"]], sort_keys=True))
        judge_x(rep, c, r)
        nparse += len(r["outs"])
        if n % 997 == 3:
            rep.sample({"groupsx_fields": c["fields"], "channel": c["chan"], "items": c["items"], "payload": r["payload"], "expected": c["ref"],
                        "observed": [{"style": o["style"], "ok": o["ok"], "cfg": o["cfg"]} for o in r["outs"]]})
    rep.extra["x_model_cases"] = len(cases)
    rep.extra["x_model_emitted"] = len(emitted)
    rep.extra["x_families"] = fam

    ntr = 160 if tier == "quick" else 6000
    rcases = []
    for _ in range(ntr):
        rc = random_case_x(rnd)
        rc["variant"] = rnd.randint(0, 59)
        rcases.append(rc)
    rres = pipeline.run_many(run_case_x, rcases, chunksize=16)
    tmp = common.scratch("c07x")
    try:
        f = tmp / "cases.json"

        def pairs(d):
            return [[k, v] for k, v in (d or {}).items()]

        def re_of(o):
            rp = o.get("reparse")
            if rp is None:
                return []                      # not taken (rejected input / get_defaults)
            return [["?", [-9]]] if "rejected" in rp else pairs(rp)

        f.write_text(json.dumps([{"fields": c["fields"], "chan": c["chan"], "items": c["items"],
                                  "outs": [{"style": o["style"], "ok": o["ok"], "cfg": pairs(o["cfg"]), "re": re_of(o)} for o in r["outs"]]}
                                 for c, r in zip(rcases, rres)]))
        tr = tlc.run("Trace_GroupsX", "Trace_GroupsX", workers=workers, env={"TRACE_FILE": str(f)}, timeout=3000, heap=heap)
        rep.add_tlc("Trace_GroupsX", tr)
        if tr.errors or tr.distinct != len(rcases):
            machinery_failure(pid, f"trace validation (GroupsX) failed (distinct={tr.distinct}, expected {len(rcases)}):\n" + tr.stdout[-3000:])
        for p in tr.printed:
            if isinstance(p, list) and p and p[0] == "R":
                c, r = rcases[p[1] - 1], rres[p[1] - 1]
                o = r["outs"][p[2] - 1]
                case = dict(_case_of(c, r, o), clause=p[3])
                if o.get("escaped"):
                    continue                      # reported below
                if p[3] in ("ref-dev-as-alg", "ref-dev"):
                    rep.violation("dotted:no-whole-group", DEV, case)
                elif p[3] == "ref":
                    rep.violation(f"x:random:{family(c)}:{o['style']}:{c['chan']}:{'accepted' if o['ok'] else 'rejected'}:{sig_x(c)}",
                                  f"style {o['style']} disagrees with the one reference outcome of GroupsX", case)
                elif p[3] == "reparse":
                    rep.violation(f"x:random:reparse:{o['style']}:{sig_x(c)}", f"dump + re-parse in style {o['style']} does not give the parsed values again", case)
                else:
                    rep.add_drift("random (GroupsX): real = Ref but not Alg", case)
        for c, r in zip(rcases, rres):
            dumps_x(rep, c, r, "random:")
            for o in r["outs"]:
                if o.get("escaped"):
                    rep.violation(f"x:escaped:{o['escaped']}:{o['style']}:{family(c)}", f"{o['escaped']} escaped in style {o['style']}: {o.get('msg')}", _case_of(c, r, o))
        rep.traces += len(rcases)
        nrand = sum(len(r["outs"]) for r in rres)
        rep.extra["x_random_parses"] = nrand
        rep.extra["x_random_accepted"] = sum(1 for r in rres if any(o["ok"] for o in r["outs"]))
        for c in rcases:
            if c["items"] or c["chan"] == "defaults":
                rep.note_nontrivial("x" + json.dumps([c["fields"], c["chan"], c["items"]], sort_keys=True))
    finally:
        common.rm(tmp)
    return nparse + nrand, (f"{len(cases)} cases of MC_GroupsX_{tier} ({how}) x 4 styles (typed values, group defaults, required members, "
                            f"method-named fields; dump re-parsed) and {len(rcases)} random cases validated by TLC against Trace_GroupsX")
